"""C12 — fitting is reproducible, history-independent and free of side effects.

Static part : translator/frames.py -> Gen/Frames.lean, theorems of Props/C12.lean (decided over the whole table, plus the
              frame -> history-independence lemma).
Tie         : every public call made below on a real estimator runs on an attribute-spy subclass; the observed
              reads-before-write / writes / changed attributes must be inside the statically extracted frame
              (an unpredicted event is a correspondence break: the translator is unsound there).
Oracle      : written from the property text only — random call histories, bit-for-bit comparison of the final fit / path
              with a fresh object, with a clone and with a second identical call; caller arrays and get_params() hashed
              around every call; get_params / set_params / clone round trips.
"""
import copy
import json

import numpy as np

from .. import core, fit_lib as fl, frames_lib as fx
from translator import frames as frames_tr
from translator.tables import TranslationFailure

PRIME = 10007
FITTING = ("fit", "fit_predict", "path")
OBSERVERS = ("predict", "predict_proba", "score")
SPARSE = ("SparseLinearModel", "SparseLinearMMD", "SparseLinearMI", "SparseMLPModel", "SparseMLPMMD")
CALL_LIMIT = 40.0


# ================================================================== translation
def regen(ctx):
    try:
        data, text = frames_tr.frames(core.REPO)
    except TranslationFailure as e:
        ctx.extra["translation_failure"] = f"frames: {e}"
        return None
    changed = core.write_if_changed(core.LEAN + "/GemVerif/Gen/Frames.lean", text)
    ctx.translation = {"units": ["gemclus/**/*.py (18 estimator classes, static MRO + self-attribute dataflow) -> Gen/Frames.lean"],
                       "regenerated": 1, "identical_to_committed": not changed}
    return data


# ================================================================== static tables vs live classes
def reflect(ctx, data):
    live = fx.live_tables()
    ests = fl.estimators()
    if sorted(data["classes"]) != sorted(live):
        ctx.corr_break("tables", {"what": "estimator classes"}, {"translated": sorted(data["classes"]), "live": sorted(live)})
    for name in data["classes"]:
        if name not in live:
            continue
        L = live[name]
        ctx.compared("tables:mro")
        static_mro = [c for c in data["mro"][name] if c not in ("ABC", "BaseEstimator", "ClusterMixin")]
        if static_mro != L["mro"]:
            ctx.corr_break("tables:mro", {"class": name}, {"translated": static_mro, "live": L["mro"]})
        ctx.compared("tables:hyper")
        if data["hyper"][name] != L["hyper"] or sorted(L["hyper"]) != sorted(ests[name]().get_params(deep=False)):
            ctx.corr_break("tables:hyper", {"class": name}, {"translated": data["hyper"][name], "live": L["hyper"]})
        for m, owner in L["owners"].items():
            ctx.compared("tables:owner")
            fr = data["frames"].get((name, m))
            if fr is None:
                ctx.corr_break("tables:owner", {"class": name, "method": m}, "public gemclus method without a frame")
            elif fr["owner"] != owner:
                ctx.corr_break("tables:owner", {"class": name, "method": m}, {"translated": fr["owner"], "live": owner})
        for (c, m) in data["frames"]:
            if c == name and m not in L["owners"]:
                ctx.corr_break("tables:owner", {"class": name, "method": m}, "frame for a method the live class does not define in gemclus")
        # constructor stores, observed with sentinel arguments
        ctx.compared("tables:init")
        args = {p: object() for p in L["hyper"]}
        try:
            obj = ests[name](**args)
        except Exception as e:
            ctx.corr_break("tables:init", {"class": name}, f"constructor raised on sentinels: {e!r}")
            continue
        d = dict(vars(obj))
        stores = data["init"][name]
        bad = []
        if set(d) != set(stores):
            bad.append({"attributes": sorted(d), "translated": sorted(stores)})
        for a, (kind, src) in stores.items():
            if a not in d:
                continue
            if kind == "param" and d[a] is not args.get(src):
                bad.append({"attr": a, "expected": f"parameter {src} itself"})
            if kind == "const" and repr(d[a]) != src:
                bad.append({"attr": a, "expected": src, "got": repr(d[a])})
        if bad:
            ctx.corr_break("tables:init", {"class": name}, bad)


# ================================================================== get_params / set_params / clone round trips
def roundtrip(ctx, rs):
    from sklearn.base import clone
    for name, cls in fl.estimators().items():
        kw, _ = fx.gen_config(rs, name, 3)
        # the same configuration with other legal numeric types: python ints for real-valued parameters, numpy scalars
        variants = [kw,
                    {k: (int(max(1, round(v))) if isinstance(v, float) else v) for k, v in kw.items()},
                    {k: (np.float64(v) if isinstance(v, float) else np.int64(v) if type(v) is int else v) for k, v in kw.items()}]
        for vi, kv in enumerate(variants):
            ctx.count("roundtrip_constructions")
            inp = {"estimator": name, "params": {k: repr(v) for k, v in kv.items()}}
            try:
                e1 = cls(**kv)
                g = e1.get_params(deep=False)
            except Exception as e:
                ctx.violation(f"{name}(**kw) raised {type(e).__name__}: {e}", "roundtrip", inp, key=f"roundtrip:init:{name}",
                              how="cls(**kw)")
                continue
            # constructor -> get_params: the very objects handed in
            for k, v in kv.items():
                if g.get(k, None) is not v:
                    ctx.violation(f"{name}(**kw).get_params()[{k!r}] is not the object passed to the constructor", "roundtrip", inp,
                                  expected=repr(v), actual=repr(g.get(k)), key=f"roundtrip:init:{name}:{k}",
                                  how="cls(**kw).get_params(deep=False)[k] is kw[k]")
            try:
                c1 = clone(e1)
                if fx.fp(c1.get_params(deep=False)) != fx.fp(g):
                    raise RuntimeError("clone has different hyperparameters")
            except Exception as e:
                ctx.violation(f"clone({name}(**kw)) failed: {type(e).__name__}: {e}", "roundtrip", inp, key=f"roundtrip:clone:{name}",
                              how="sklearn.base.clone(cls(**kw))")
        est = cls(**kw)
        p0 = est.get_params(deep=False)
        ctx.count("roundtrip_classes")
        inp = {"estimator": name, "params": {k: repr(v) for k, v in kw.items()}}
        # set_params(**get_params()) is the identity
        est.set_params(**p0)
        p1 = est.get_params(deep=False)
        if set(p1) != set(p0) or any(p1[k] is not p0[k] for k in p0):
            ctx.violation(f"{name}: set_params(**get_params()) changed a hyperparameter", "roundtrip", inp,
                          key=f"roundtrip:identity:{name}", how="est.set_params(**est.get_params(deep=False))")
        # each hyperparameter is settable on its own and read back unchanged, the others untouched
        for k in p0:
            s = object()
            e2 = cls(**kw)
            q0 = e2.get_params(deep=False)
            e2.set_params(**{k: s})
            q1 = e2.get_params(deep=False)
            ctx.count("roundtrip_params")
            if q1[k] is not s or any(q1[j] is not q0[j] for j in q0 if j != k):
                ctx.violation(f"{name}: set_params({k}=v) does not round-trip through get_params", "roundtrip", inp,
                              key=f"roundtrip:set:{name}:{k}", how="est.set_params(**{k: sentinel}); est.get_params(deep=False)")
        # clone keeps every hyperparameter (deep-equal; shared identity for the values scikit-learn does not copy)
        try:
            c = clone(est)
            if type(c) is not type(est) or fx.fp(c.get_params(deep=False)) != fx.fp(est.get_params(deep=False)):
                ctx.violation(f"clone({name}).get_params() differs from the original's", "roundtrip", inp,
                              expected={k: repr(v) for k, v in est.get_params(deep=False).items()},
                              actual={k: repr(v) for k, v in c.get_params(deep=False).items()},
                              key=f"roundtrip:clone:{name}", how="sklearn.base.clone(est).get_params()")
            if vars(c).keys() != vars(est).keys():
                ctx.violation(f"clone({name}) carries different attributes than a fresh object", "roundtrip", inp,
                              key=f"roundtrip:clone-attrs:{name}", how="vars(clone(est)).keys()")
        except Exception as e:
            ctx.violation(f"clone({name}) raised {type(e).__name__}: {e}", "roundtrip", inp, key=f"roundtrip:clone:{name}",
                          how="sklearn.base.clone(est)")


# ================================================================== cases
ALT = {"n_clusters": [2, 3], "max_clusters": [2, 3], "max_iter": [1, 2, 3], "random_state": [1, 2, 3, 5], "learning_rate": [0.01, 0.1],
       "solver": ["adam", "sgd"], "alpha": [0.25, 0.5, 1.0], "reg": [0.0, 0.5], "n_hidden_dim": [2, 3], "ovo": [True, False],
       "temperature": [0.1, 0.5], "n_cuts": [1, 2], "max_depth": [None, 2], "max_leaves": [None, 3], "M": [1.0, 5.0],
       "batch_size": [None, 4], "verbose": [False]}


def gen_case(rs, name, tier):
    """one estimator configuration, its datasets and a random call history (everything JSON-describable from `rs`)"""
    d = int(rs.randint(3, 5))
    kw, pre = fx.gen_config(rs, name, d)
    layouts = ["c", "c", "c", "fortran", "view", "readonly"]
    datasets = []
    for i in range(3):
        n = int(rs.randint(6, 13))
        dd = d if i < 2 or rs.rand() < 0.5 else d + 1      # the third set may have another number of features
        X = fx.gen_data(rs, n, dd, layouts[rs.randint(len(layouts))])
        y = None
        if pre:
            kind = "kernel" if (name == "Kauri" or "kernel" in kw) else "distance"
            y = fx.gen_affinity(rs, X, kind, "readonly" if rs.rand() < 0.2 else "c")
        datasets.append((X, y))
    sparse = name in SPARSE
    path_kw = dict(alpha_multiplier=2.0, min_features=int(rs.randint(1, 3)), max_patience=int(rs.randint(1, 3)),
                   restore_best_weights=bool(rs.rand() < 0.7))
    ops = ["fit", "fit", "fit_predict", "predict", "predict_proba", "score", "set_params", "set_params", "clone", "bad_fit"]
    if name == "Kauri":
        ops.remove("predict_proba")
    if sparse:
        ops += ["path", "path"]
    hist = []
    nsteps = int(rs.randint(1, 9))
    for i in range(nsteps):
        op = ops[rs.randint(len(ops))]
        if i == 0 and rs.rand() < 0.6:      # most histories start from a fitted object
            op = "fit"
        if op == "set_params":
            cands = [p for p in ALT if p in kw or (p == "verbose")]
            p = cands[rs.randint(len(cands))]
            vals = [v for v in ALT[p] if v != kw.get(p, False)] or ALT[p]
            hist.append({"op": "set_params", "param": p, "value": vals[rs.randint(len(vals))], "restore": bool(rs.rand() < 0.8)})
        elif op == "clone":
            hist.append({"op": "clone", "switch": bool(rs.rand() < 0.3)})
        else:
            hist.append({"op": op, "data": int(rs.randint(3))})
    finals = ["fit", "fit", "fit_predict"] + (["path", "path", "path"] if sparse else [])
    final = {"op": finals[rs.randint(len(finals))], "data": int(rs.randint(2))}
    return {"estimator": name, "kw": kw, "pre": pre, "datasets": datasets, "path_kw": path_kw, "history": hist, "final": final}


def describe(case, history=None):
    return {"estimator": case["estimator"], "params": {k: repr(v) for k, v in case["kw"].items()},
            "datasets": [{"X": X.tolist(), "layout": ("F" if X.flags.f_contiguous and not X.flags.c_contiguous else "C"),
                          "writeable": bool(X.flags.writeable), "y": None if y is None else y.tolist()} for X, y in case["datasets"]],
            "path_kwargs": case["path_kw"], "history": case["history"] if history is None else history, "final": case["final"],
            "case_seed": case.get("case_seed")}


# ================================================================== running a history on the real estimator
class Finding(dict):
    pass


def _call(est, op, case, data_index):
    X, y = case["datasets"][data_index]
    if op == "bad_fit":
        return est.fit(X[:1], None if y is None else y[:1, :1])
    if op == "path":
        return est.path(X, y, **case["path_kw"])
    if op in ("fit", "fit_predict", "score"):
        return getattr(est, op)(X, y)
    return getattr(est, op)(X)


def _result_fp(op, est, res):
    if op in ("fit", "bad_fit"):
        return ("self", res is est)
    return fx.fp(res if not isinstance(res, np.ndarray) else np.array(res))


def guarded(fn):
    """(value, None) or (None, exception); a hang becomes an exception"""
    try:
        with fx.time_limit(CALL_LIMIT):
            return fn(), None
    except Exception as e:   # whatever the call raised is part of the history, judged by C04/C16, not here
        return None, e


def execute(case, history, data=None, ctx=None):
    """run `history` then the final call; returns the list of oracle findings.  With `data` (static frames) and `ctx`,
    every call on the history object is also checked against its frame."""
    from sklearn.base import clone
    name = case["estimator"]
    kw0 = copy.deepcopy(case["kw"])
    findings = []
    est = fx.build(name, case["kw"], spy=True)
    expected = dict(copy.deepcopy(kw0))      # constructor arguments + replay of the set_params calls
    pending = []
    path_before = False
    nontrivial = False
    excs = []

    def one_call(est, op, di):
        """a public call with every side-effect check of the property around it"""
        nonlocal path_before, nontrivial
        X, y = case["datasets"][di]
        sx, sy = fx.arr_state(X), fx.arr_state(y)
        p_before = est.get_params(deep=False)
        p_fp = fx.fp(p_before)
        st_before = fx.state_fp(est)
        with fx.recording(est) as log:
            res, exc = guarded(lambda: _call(est, op, case, di))
        st_after = fx.state_fp(est)
        method = "fit" if op == "bad_fit" else op
        # ---- oracle: caller arrays
        if fx.arr_state(X) != sx or fx.arr_state(y) != sy or (exc is not None and "read-only" in str(exc)):
            findings.append(Finding(key=f"inputs-modified:{method}", what=f"{name}.{method} modified (or tried to modify) the caller's "
                                    f"{'data' if fx.arr_state(X) != sx else 'affinity' if fx.arr_state(y) != sy else 'read-only'} array",
                                    detail={"call": op, "data": di, "exception": repr(exc)}))
        # ---- oracle: hyperparameters across a public call
        p_after = est.get_params(deep=False)
        if set(p_after) != set(p_before) or fx.fp(p_after) != p_fp:
            changed = sorted(k for k in p_before if fx.fp(p_after.get(k)) != fx.fp(p_before[k]))
            for k in changed:
                findings.append(Finding(key=f"{method}:{k}-mutated", what=f"{name}.{method} changed constructor hyperparameter {k!r}: "
                                        f"get_params()[{k!r}] was {p_before[k]!r}, is {p_after.get(k)!r}",
                                        detail={"call": op, "data": di, "before": repr(p_before[k]), "after": repr(p_after.get(k)),
                                                "call_raised": repr(exc) if exc is not None else None}))
        elif any(p_after[k] is not p_before[k] for k in p_before) and ctx is not None:
            ctx.count("param_rebound_to_equal_value")
        # ---- tie: the static frame of (class, method)
        if data is not None and ctx is not None:
            check_frame(ctx, data, case, name, method, log, st_before, st_after, exc)
        if exc is None and op in FITTING:
            nontrivial = True
        if exc is not None:
            excs.append(f"{op}:{type(exc).__name__}")
        return res, exc

    for step in history:
        op = step["op"]
        if op == "set_params":
            p, v = step["param"], step["value"]
            if p in expected or p == "verbose":
                old = est.get_params(deep=False).get(p)
                est.set_params(**{p: v})
                if step.get("restore"):
                    pending.append((p, expected.get(p, old)))
                expected[p] = v
        elif op == "clone":
            c, exc = guarded(lambda: clone(est))
            if exc is not None:
                findings.append(Finding(key="clone-raises", what=f"clone({name}) raised {exc!r} after the history", detail={}))
            else:
                if fx.fp(c.get_params(deep=False)) != fx.fp(est.get_params(deep=False)):
                    findings.append(Finding(key="clone-params", what=f"clone({name}) has different hyperparameters than the original",
                                            detail={}))
                if step.get("switch"):
                    est = c
        else:
            one_call(est, op, step["data"])
            if op == "path":
                path_before = True      # attempted, whether it returned or raised
    for p, v in reversed(pending):      # "a changed then restored hyperparameter"
        est.set_params(**{p: v})
        expected[p] = v

    # ---- the final call, on the history object and on the reference objects
    fop, fdi = case["final"]["op"], case["final"]["data"]
    had_fit = nontrivial
    X, y = case["datasets"][fdi]
    params_now = dict(est.get_params(deep=False))
    cl, cl_exc = guarded(lambda: clone(est))
    resA, excA = one_call(est, fop, fdi)

    def outcome(obj, res, exc):
        if exc is not None:
            return {"<raised>": type(exc).__name__}
        sig = fx.model_signature(obj, X, y)
        sig["<result>"] = _result_fp(fop, obj, res)
        return sig
    A = outcome(est, resA, excA)
    refs = {}
    fresh = fx.build(name, expected, spy=False)                     # same constructor arguments (+ set_params), no history
    r, e = guarded(lambda: _call(fresh, fop, case, fdi))
    refs["fresh"] = outcome(fresh, r, e)
    same_cfg = fx.build(name, params_now, spy=False)                # a new object with the hyperparameters the object holds NOW
    r, e = guarded(lambda: _call(same_cfg, fop, case, fdi))
    refs["fresh_current_params"] = outcome(same_cfg, r, e)
    if cl_exc is None:
        r, e = guarded(lambda: _call(cl, fop, case, fdi))
        refs["clone"] = outcome(cl, r, e)
    resA2, excA2 = one_call(est, fop, fdi)                          # the same call a second time on the same object
    refs["again"] = outcome(est, resA2, excA2)

    def differs(tag):
        return fx.sig_diff(A, refs[tag]) if tag in refs else []
    hist_kind = "path" if path_before else "calls"
    dfresh = differs("fresh")
    if dfresh:
        key = ("path:history" if fop == "path" else "fit-after-path:history") if path_before else f"history:{fop}:{name}"
        findings.append(Finding(key=key, what=f"{name}.{fop} after a history of public calls ({hist_kind}) differs from the same call on "
                                f"a fresh object with the same constructor arguments in {dfresh}",
                                detail={"differs_in": dfresh, "params_now": {k: repr(v) for k, v in params_now.items()},
                                        "params_expected": {k: repr(v) for k, v in expected.items()}}))
    dcur = differs("fresh_current_params")
    if dcur:
        findings.append(Finding(key=f"stale-state:{fop}:{name}", what=f"{name}.{fop} after a history differs from the same call on a new "
                                f"object holding the SAME current hyperparameters in {dcur}: the call depends on state left behind",
                                detail={"differs_in": dcur}))
    dclone = differs("clone")
    if dclone:
        findings.append(Finding(key=f"clone:{fop}:{name}", what=f"{name}.{fop} on clone(est) differs from est.{fop} in {dclone}",
                                detail={"differs_in": dclone}))
    dagain = differs("again")
    if dagain:
        key = "path:history" if fop == "path" else f"refit:{fop}:{name}"
        findings.append(Finding(key=key, what=f"calling {name}.{fop} twice in a row on the same object and data gives different models "
                                f"(in {dagain})", detail={"differs_in": dagain, "second_call": True}))
    info = {"nontrivial": nontrivial or bool(history), "had_fit": had_fit, "excs": excs, "raised_final": excA is not None,
            "final_exc": repr(excA) if excA is not None else None}
    return findings, info


def check_frame(ctx, data, case, name, method, log, st_before, st_after, exc):
    fr = data["frames"].get((name, method))
    unit = f"frame:{method}"
    if fr is None:
        ctx.corr_break(unit, {"estimator": name}, "no translated frame for a method that exists on the live class")
        return
    ctx.compared(unit)
    rbw, written = fx.observed(log)
    changed = fx.changed_attrs(st_before, st_after)
    detail = {}
    extra_r = [a for a in rbw if a not in fr["reads"]]
    extra_w = [a for a in written if a not in fr["writes"]]
    extra_n = [a for a in changed if a not in fr["net"] and not (exc is not None and a in fr["netExc"])]
    if extra_r:
        detail["read_before_write_not_in_frame"] = extra_r
    if extra_w:
        detail["written_not_in_frame"] = extra_w
    if extra_n:
        detail["changed_not_in_net"] = extra_n
    if exc is None:
        missing = [a for a in fr["must"] if not a.startswith(fx.PSEUDO) and a not in written]
        if missing:
            detail["must_not_written"] = missing
    ctx.count(f"frame_events:{method}", len(log))
    if detail:
        ctx.corr_break(unit, {"estimator": name, "params": {k: repr(v) for k, v in case["kw"].items()}, "method": method,
                              "raised": repr(exc)}, detail)


def minimise(case, history, key):
    """greedy removal of history steps while the same finding persists"""
    h = list(history)
    for i in reversed(range(len(h))):
        trial = h[:i] + h[i + 1:]
        try:
            f, _ = execute(case, trial)
        except Exception:
            continue
        if any(x["key"] == key for x in f):
            h = trial
    return h


# ================================================================== mlcl-decorated models (anchor gemclus/mlcl.py)
def mlcl_histories(ctx, rs, reps):
    """a model decorated by add_mlcl_constraint keeps state in closures (`_batchify.indices`): refit after a history on the
    same decorated object vs a freshly built and identically decorated object"""
    from gemclus import add_mlcl_constraint
    for name in ("LinearModel", "MLPModel", "CategoricalModel"):
        for _ in range(reps):
            kw, pre = fx.gen_config(rs, name, 3)
            kw["gemini"] = "mmd_ova"
            n = int(rs.randint(7, 12))
            X, X2 = fx.gen_data(rs, n, 3, "c"), fx.gen_data(rs, n, 3, "c")
            ml = [(0, 1), (2, 3)][: int(rs.randint(1, 3))]
            clk = [(4, 5)]
            a = add_mlcl_constraint(fx.build(name, kw, spy=False), must_link=ml, cannot_link=clk, factor=0.5)
            sx = fx.arr_state(X)
            if name != "CategoricalModel":
                a.fit(X2)
                a.predict(X2)
            a.fit(X)
            a.score(X)
            a.fit(X)
            b = add_mlcl_constraint(fx.build(name, kw, spy=False), must_link=ml, cannot_link=clk, factor=0.5).fit(X)
            ctx.case(("mlcl", name, fx.fp(kw), sx), True, None)
            ctx.count("mlcl_histories")
            dif = fx.sig_diff(fx.model_signature(a, X), fx.model_signature(b, X))
            inp = {"estimator": name, "params": {k: repr(v) for k, v in kw.items()}, "X": X.tolist(), "X_earlier": X2.tolist(),
                   "must_link": ml, "cannot_link": clk}
            if dif:
                ctx.violation(f"{name} decorated by add_mlcl_constraint: refit after earlier fits differs from a fresh decorated object in {dif}",
                              "history", inp, key=f"history:mlcl:{name}", how="add_mlcl_constraint(model,...).fit(X2).fit(X) vs fresh .fit(X)")
            if fx.arr_state(X) != sx:
                ctx.violation(f"{name} with must-link/cannot-link modified the caller's data", "inputs", inp,
                              key=f"inputs-modified:mlcl:{name}", how="hash X before/after fit")


# ================================================================== run
def run(ctx):
    ctx.rule = ("18 estimator classes x random valid tiny configurations (all GEMINI names, GEMINI instances, callable / precomputed "
                "kernels and metrics, groups, masks, batch sizes, both solvers) x 3 datasets (n 6..12, d 3..5, C / Fortran / strided view / "
                "read-only layouts) x random histories of 1..8 public calls among fit, fit_predict, predict, predict_proba, score, "
                "set_params (changed then restored, or irrelevant), clone (optionally continuing on the clone), path (sparse), a "
                "failing fit; then a final fit / fit_predict / path compared bit-for-bit with a fresh object, a fresh object with "
                "the current hyperparameters, a clone and a second identical call.  A case is non-trivial when its history is "
                "non-empty; distinct = hash of (class, hyperparameters, history, data bytes)")
    fl.quiet()
    data = regen(ctx)
    ctx.do_prove()
    ctx.trusted += ["soundness of the static dataflow extraction (translator/frames.py): hypothesis `Sound` of "
                    "history_independence; validated here by attribute spies and state fingerprints on every call made",
                    "bit-level determinism of numpy / BLAS (single-threaded) / POT for equal inputs",
                    "mutation through local aliases or of hyperparameter objects by callees is outside the static frames "
                    "(covered dynamically by the deep get_params comparison and the state fingerprints)"]
    ctx.assumptions += ["integer random_state (None / RandomState instances are excluded by the property)",
                        "Kauri runs on the transliteration of the current _utils.pyx (the compiled extension cannot be rebuilt)"]
    quick = ctx.tier == "quick"
    reps = 3 if quick else 150
    rs0 = np.random.RandomState(ctx.seed * PRIME + 1)
    with fx.kauri_on_current_source():
        if data is not None:
            reflect(ctx, data)
        roundtrip(ctx, rs0)
        names = list(fl.estimators())
        k = 0
        seen_keys = set()
        for name in names:
            forced = []
            if name in SPARSE:     # always exercise: path after path, fit after path
                forced = [("path", "path"), ("path", "fit")]
                if name in ("SparseLinearMMD", "SparseMLPMMD"):
                    # and: dynamic mode together with a user matrix (legal: documented warning, dynamic ignored for that call)
                    forced.append(("path", "path", "dynamic+precomputed"))
            for r in range(reps + len(forced)):
                k += 1
                case_seed = ctx.seed * PRIME + 100 + k
                rs = np.random.RandomState(case_seed)
                case = gen_case(rs, name, ctx.tier)
                case["case_seed"] = case_seed
                if r >= reps and len(forced[r - reps]) == 3:
                    for j in range(1, 400):        # the first seed whose configuration has dynamic=True and a precomputed kernel
                        if case["pre"] and case["kw"].get("dynamic"):
                            break
                        case_seed = ctx.seed * PRIME + 100 + k + 100000 * j
                        case = gen_case(np.random.RandomState(case_seed), name, ctx.tier)
                    case["case_seed"] = case_seed
                    ctx.count("forced:dynamic+precomputed" if case["pre"] and case["kw"].get("dynamic") else "forced:dynamic+precomputed:not-found")
                if r >= reps:
                    hop, fop = forced[r - reps][:2]
                    case["history"] = [{"op": hop, "data": 0}]
                    case["final"] = {"op": fop, "data": 0}
                run_case(ctx, data, case, seen_keys)
        mlcl_histories(ctx, np.random.RandomState(ctx.seed * PRIME + 7), 1 if quick else 10)
    return ctx.finish()


def run_case(ctx, data, case, seen_keys):
    name = case["estimator"]
    try:
        findings, info = execute(case, case["history"], data, ctx)
    except fx.CallTimeout as e:
        raise core.MachineryError(f"C12 case {case.get('case_seed')} timed out outside a guarded call: {e}")
    desc = {"estimator": name, "params": {k: repr(v) for k, v in case["kw"].items()},
            "history": [s["op"] + (f"[{s['data']}]" if "data" in s else f"({s.get('param')}={s.get('value')!r})" if s["op"] == "set_params" else "")
                        for s in case["history"]], "final": case["final"],
            "shapes": [list(X.shape) for X, _ in case["datasets"]]}
    canon = (name, fx.fp(case["kw"]), json.dumps(case["history"], sort_keys=True, default=str), json.dumps(case["final"]),
             tuple(fx.arr_state(X) for X, _ in case["datasets"]))
    ctx.case(canon, bool(case["history"]), desc)
    ctx.count(f"cls:{name}")
    ctx.count(f"final:{case['final']['op']}")
    ctx.count("history_calls", len(case["history"]))
    for s in case["history"]:
        ctx.count(f"op:{s['op']}")
    for e in info["excs"]:
        ctx.count(f"raised:{e}")
    if info["had_fit"]:
        ctx.count("histories_with_a_successful_fit")
    if info["raised_final"]:
        ctx.count("final_call_raised")
    ctx.compared("history-differential")
    for f in findings:
        hist = case["history"]
        if f["key"] not in seen_keys:
            seen_keys.add(f["key"])
            try:
                hist = minimise(case, case["history"], f["key"])
                f2, _ = execute(case, hist)
                f = next((x for x in f2 if x["key"] == f["key"]), f)
            except Exception:
                hist = case["history"]
        inp = describe(case, hist)
        ctx.violation(f["what"], "history", inp, expected="identical models / untouched inputs and hyperparameters",
                      actual=f["detail"], key=f["key"],
                      how="./check C12 --replay <this file>  (harness.props.c12.replay re-runs the stored history on the real estimator)")


# ================================================================== replay
def replay(ctx, path):
    rep = json.load(open(path))
    inp = rep.get("input") or {}
    if rep.get("unit") != "history" or inp.get("case_seed") is None:
        print(f"replay {path}: unit {rep.get('unit')!r} — re-run with `{rep.get('how_to_run')}` on the stored input")
        return 2
    fl.quiet()
    name = inp["estimator"]
    case = gen_case(np.random.RandomState(int(inp["case_seed"])), name, "quick")
    case["case_seed"] = inp["case_seed"]
    case["history"] = inp["history"]
    case["final"] = inp["final"]
    case["path_kw"] = inp.get("path_kwargs", case["path_kw"])
    with fx.kauri_on_current_source():
        findings, info = execute(case, case["history"])
    print(f"{name}({', '.join(f'{k}={v!r}' for k, v in case['kw'].items())})")
    print(f"history: {[s['op'] for s in case['history']]}  final: {case['final']}")
    for f in findings:
        print(f"  {f['key']}: {f['what']}")
    if any(f["key"] == rep.get("key") for f in findings):
        print(f"REPRODUCED {rep.get('key')}")
        return 1
    print("replay: the stored finding does not occur on this tree now")
    return 0
