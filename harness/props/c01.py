"""C01 — GEMINI scores equal their defining statistical distances."""
import numpy as np

from .. import core, gemini_lib as gl
from translator import tables


def regen(ctx):
    """regenerate (1) Gen/Registry.lean, the name -> (class, ovo) table of `_str_to_gemini`, (2) Gen/Geminis.lean, the
    straight-line NumPy code of the `evaluate` methods (KL, TV, Hellinger, chi2, MMD; one definition per (ovo, return_grad))
    as the source says now, and (3) Gen/Wass.lean, `WassersteinGEMINI.evaluate` (loops as folds, `ot.emd2` a parameter);
    Props/C01Gen.lean resp. Props/C01WassGen.lean prove (2) and (3) equal to the hand models the C01 / C02 / C13 theorems are
    stated about.  Returns the registry data (None when the registry could not be translated)."""
    from translator import geminis as tg
    ctx.translation = {"units": [], "regenerated": 0, "identical_to_committed": True}
    failures = []
    data = None
    try:
        data, text = tables.registry()
        changed = core.write_if_changed(core.LEAN + "/GemVerif/Gen/Registry.lean", text)
        ctx.translation["units"].append("gemini/_utils.py::_str_to_gemini -> Gen/Registry.lean")
        ctx.translation["regenerated"] += 1
        ctx.translation["identical_to_committed"] &= not changed
    except tables.TranslationFailure as e:
        failures.append(f"registry: {e}")
    try:
        gdata, gtext = tg.geminis()
        changed = core.write_if_changed(core.LEAN + "/GemVerif/Gen/Geminis.lean", gtext)
        ctx.translation["units"] += [f"{u['file']}::{u['class']}.evaluate[ovo={u['ovo']}, return_grad={u['return_grad']}]"
                                     f" -> Gen/Geminis.lean::{name}" for name, u in gdata.items()]
        ctx.translation["regenerated"] += len(gdata)
        ctx.translation["identical_to_committed"] &= not changed
    except (tables.TranslationFailure, SyntaxError, OSError) as e:
        failures.append(f"geminis: {e}")
    # (3) Gen/Wass.lean: WassersteinGEMINI.evaluate (Python loops; POT's `ot.emd2` is a parameter), proved equal to
    # `wassScore` / `wassGrad` by Props/C01WassGen.lean
    try:
        from translator import wass as tw
        wdata, wtext = tw.wass()
        changed = core.write_if_changed(core.LEAN + "/GemVerif/Gen/Wass.lean", wtext)
        ctx.translation["units"] += [f"{u['file']}::{u['class']}.evaluate[ovo={u['ovo']}, return_grad={u['return_grad']}]"
                                     f" -> Gen/Wass.lean::{name}" for name, u in wdata.items()]
        ctx.translation["regenerated"] += len(wdata)
        ctx.translation["identical_to_committed"] &= not changed
    except (tables.TranslationFailure, SyntaxError, OSError) as e:
        failures.append(f"wass: {e}")
    if failures:
        ctx.extra["translation_failure"] = "; ".join(failures)
    return data


def cases(ctx, depth):
    rs = np.random.RandomState(ctx.seed * 7919 + 1)
    out = []
    shapes = [(1, 2), (2, 2), (3, 2), (3, 3), (4, 3), (5, 2), (5, 4), (6, 3), (7, 5), (8, 6), (10, 4), (9, 2)]
    for cls, ovo in gl.CONFIGS:
        reps = depth if cls != "wass" else max(2, depth // 2)
        for r in range(reps):
            n, K = shapes[rs.randint(len(shapes))] if r >= 3 else shapes[r]
            if cls == "wass" and n > 7:
                n = 7
            regime = gl.P_REGIMES[rs.randint(len(gl.P_REGIMES))] if r >= len(gl.P_REGIMES) else gl.P_REGIMES[r]
            P = gl.gen_P(rs, n, K, regime)
            A = None
            kind = ""
            if cls == "mmd":
                kind = gl.KERNELS[r % len(gl.KERNELS)]
                A = gl.gen_affinity(rs, n, kind)
            if cls == "wass":
                kind = gl.METRICS[r % len(gl.METRICS)]
                A = gl.gen_affinity(rs, n, kind)
            out.append((cls, ovo, n, K, regime, kind, P, A))
    return out


def score_unit(cls, A):
    """the natural magnitude of a score: 1 for the f-divergences, sqrt(|kernel|) for MMD, |cost| for Wasserstein (both are
    positively homogeneous in the affinity); tolerances are taken relative to it so that tiny and huge affinities are judged
    as strictly as ordinary ones"""
    if A is None or cls not in ("mmd", "wass"):
        return 1.0
    m = float(np.abs(A).max())
    if m == 0:
        return 1.0
    return float(np.sqrt(m)) if cls == "mmd" else m


def score_tol(cls, A):
    u = score_unit(cls, A)
    return {"mmd": 2e-6 * u, "wass": 1e-7 * u}.get(cls, 1e-9)


def reuse_sequences(ctx, eps, grad=False):
    """`evaluate` is a function of its arguments: ONE objective object evaluated on a sequence of different inputs of the
    same shape (different predictions, different affinities, with and without return_grad in between) must give, at every
    step, the documented value for THAT input.  Returns [(cls, ovo, P, A, result of the shared object, object)]."""
    rs = np.random.RandomState(ctx.seed * 7919 + 77)
    out = []
    how = "one gemclus.gemini.<Class> object evaluated on the listed inputs in order; the last one is judged"
    for cls, ovo in gl.CONFIGS:
        for rep in range(3 if ctx.tier == "quick" else 10):
            n, K = [(4, 2), (5, 3), (6, 3), (7, 4)][rs.randint(4)]
            g = gl.real_gemini(cls, ovo, eps)
            hist, held = [], []
            # variants: fresh arrays / ONE buffer refilled in place (same Python object, new content) / affinities obtained
            # from a second object's compute_affinity interleaved with the evaluations
            variant = ["fresh", "buffer", "fresh"][rep % 3] if cls in ("mmd", "wass") else "fresh"
            buf = np.zeros((n, n)) if variant == "buffer" else None
            # magnitudes of the affinity: MMD down to 1e-16; Wasserstein only to 1e-6 (POT's network simplex itself returns plans
            # ~10% too expensive for costs of magnitude 1e-16 — the transport solver is a parameter of the property, not its subject)
            mag = 1.0
            if cls == "mmd":
                mag = float(rs.choice([1.0, 1.0, 1e-16, 1e-8, 1e6]))
            if cls == "wass":
                mag = float(rs.choice([1.0, 1.0, 1e-6, 1e4]))
            for step in range(3):
                P = gl.gen_P(rs, n, K, ["soft", "dirichlet", "sharp"][rs.randint(3)])
                A = None
                if cls == "mmd":
                    A = gl.gen_affinity(rs, n, gl.KERNELS[rs.randint(len(gl.KERNELS))]) * mag
                if cls == "wass":
                    A = gl.gen_affinity(rs, n, gl.METRICS[rs.randint(len(gl.METRICS))]) * mag
                if buf is not None:
                    buf[...] = A
                    arg = buf
                else:
                    arg = None if A is None else A.copy()
                wg = bool(rs.randint(2)) if not grad else True
                hist.append({"P": P.tolist(), "A": None if A is None else A.tolist(), "return_grad": wg,
                             "affinity_object": variant})
                try:
                    r = g.evaluate(P.copy(), arg, return_grad=wg)
                except Exception as e:
                    ctx.violation(f"evaluate raised {type(e).__name__}: {e} on a reused object", "score:reuse",
                                  {"config": f"{cls}_{'ovo' if ovo else 'ova'}", "sequence": hist}, key=f"reuse-raise:{cls}", how=how)
                    break
                sc = float(r[0] if wg else r)
                # results handed out earlier by this object stay what they were (no shared work array behind them)
                for (g_arr, g_copy, k_step) in held:
                    if not np.array_equal(g_arr, g_copy, equal_nan=True):
                        ctx.violation(f"the gradient returned by evaluation number {k_step + 1} was overwritten by evaluation number {step + 1} "
                                      f"on the same object", "score:reuse", {"config": f"{cls}_{'ovo' if ovo else 'ova'}", "sequence": hist},
                                      key=f"returned-array-overwritten:{cls}_{'ovo' if ovo else 'ova'}", how=how)
                        held = []
                        break
                if wg:
                    held.append((r[1], np.array(r[1], copy=True), step))
                ctx.compared("score:reuse")
                ctx.count("reuse:" + variant + (":scaled" if mag != 1.0 else ""))
                ctx.case(("reuse", cls, ovo, P.tobytes(), None if A is None else A.tobytes(), step), step > 0, None)
                out.append((cls, ovo, P, A, r if wg else None, list(hist)))
                try:
                    want = gl.spec_score(cls, ovo, P, A)
                except RuntimeError:
                    continue
                tol = score_tol(cls, A)
                if not core.close(sc, want, rtol=tol, atol=tol):
                    ctx.violation(f"evaluation number {step + 1} on one object: score {sc!r} differs from the documented "
                                  f"definition {want!r} for that input", "score:reuse",
                                  {"config": f"{cls}_{'ovo' if ovo else 'ova'}", "sequence": hist}, expected=want, actual=sc,
                                  key=f"reuse:{cls}_{'ovo' if ovo else 'ova'}", how=how)
                    break
    if not grad:
        model_level_scores(ctx, rs)
        affinity_then_evaluate(ctx, eps, rs)
        integer_costs(ctx, eps, rs)
        large_n(ctx, eps, rs)
    return out


def model_level_scores(ctx, rs):
    """the score a MODEL reports is the documented objective of its predictions on the whole of X, whatever the training
    hyperparameters (batch_size among them) are: every registry name through LinearModel.score"""
    from gemclus.linear import LinearModel
    from gemclus.gemini._utils import AVAILABLE_GEMINIS
    from sklearn.metrics import pairwise_kernels, pairwise_distances
    how = "LinearModel(gemini=name, batch_size=b, max_iter=1).fit(X).score(X) vs harness.gemini_lib.spec_score(predict_proba(X), affinity of X)"
    for name in sorted(AVAILABLE_GEMINIS):
        n, d, K = int(rs.randint(9, 14)), 2, int(rs.randint(2, 4))
        X = rs.randn(n, d)
        bs = [None, 4, n - 1][rs.randint(3)]
        try:
            m = LinearModel(n_clusters=K, gemini=name, batch_size=bs, max_iter=1, random_state=int(rs.randint(100))).fit(X)
            got = float(m.score(X))
            P = np.asarray(m.predict_proba(X))
        except Exception as e:
            ctx.violation(f"LinearModel(gemini={name!r}, batch_size={bs}).fit/score raised {type(e).__name__}: {e}", "score:model",
                          {"name": name, "batch_size": bs, "X": X.tolist()}, key=f"model-score-raise:{name}", how=how)
            continue
        cls = "kl" if name == "mi" else name.split("_")[0].replace("wasserstein", "wass")
        ovo = name.endswith("_ovo")
        A = pairwise_kernels(X, metric="linear") if cls == "mmd" else (pairwise_distances(X, metric="euclidean") if cls == "wass" else None)
        try:
            want = gl.spec_score(cls, ovo, P, A)
        except RuntimeError:
            continue
        ctx.compared("score:model-level")
        ctx.case(("model-score", name, bs, X.tobytes()), True, None)
        tol = score_tol(cls, A)
        if not core.close(got, want, rtol=tol, atol=tol):
            ctx.violation(f"LinearModel(gemini={name!r}, batch_size={bs}).score(X) = {got!r}, the documented objective of predict_proba(X) "
                          f"on the whole of X is {want!r}", "score:model", {"name": name, "batch_size": bs, "X": X.tolist()},
                          expected=want, actual=got, key=f"model-score:{name}", how=how)


def affinity_then_evaluate(ctx, eps, rs):
    """two cooperating calls on ONE object: compute_affinity on two data sets of the same size, then the score with each
    of the two matrices — the value must be the definition for the matrix that was PASSED, whatever was computed last"""
    import gemclus.gemini as G
    how = "g = <Class>(kernel/metric=name); A1 = g.compute_affinity(X1); A2 = g.compute_affinity(X2); g(P, A1); g(P, A2)"
    from sklearn.metrics import pairwise_kernels, pairwise_distances
    import copy as _copy
    for cls, ovo in [c for c in gl.CONFIGS if c[0] in ("mmd", "wass")]:
        # EVERY name scikit-learn offers (each has its own defaults: gamma = 1/n_features for rbf, laplacian, poly, sigmoid, but 1 for chi2)
        for name in (["linear", "rbf", "laplacian", "poly", "polynomial", "sigmoid", "cosine", "chi2", "additive_chi2"] if cls == "mmd"
                     else ["euclidean", "manhattan", "l1", "l2", "cityblock", "cosine"]):
            n, K, d = int(rs.randint(4, 8)), int(rs.randint(2, 4)), int(rs.randint(1, 4))
            # a parameter dictionary WITHOUT the data-dependent default (gamma = 1/n_features): it belongs to the caller and the
            # two data sets have different numbers of features
            params = {"poly": {"degree": 2}, "sigmoid": {"coef0": 0.5}, "rbf": {}, "laplacian": None}.get(name) if cls == "mmd" else None
            given = _copy.deepcopy(params)
            if cls == "mmd":
                g = G.MMDGEMINI(ovo=ovo, kernel=name, kernel_params=params, epsilon=eps)
            else:
                g = G.WassersteinGEMINI(ovo=ovo, metric=name, epsilon=eps)
            X1, X2 = rs.randn(n, d), rs.randn(n, d + 2) * 3 + 1
            if name in ("chi2", "additive_chi2"):       # defined for non-negative data
                X1, X2 = np.abs(X1) + 0.1, np.abs(X2) + 0.1
            A1, A2 = g.compute_affinity(X1), g.compute_affinity(X2)
            if params != given:
                ctx.violation(f"compute_affinity changed the caller's parameter dictionary from {given!r} to {params!r}", "score:reuse",
                              {"config": f"{cls}_{'ovo' if ovo else 'ova'}", "name": name, "kernel_params": given}, key=f"params-mutated:{cls}", how=how)
            for tag, Xd, Ad in (("first", X1, A1), ("second", X2, A2)):
                ref = (pairwise_kernels(Xd, metric=name, **(given or {})) if cls == "mmd" else pairwise_distances(Xd, metric=name))
                if not np.allclose(np.asarray(Ad, float), ref, rtol=1e-12, atol=1e-14):
                    ctx.violation(f"the {tag} affinity computed by one object is not scikit-learn's {name} with the parameters given "
                                  f"({given!r}): max deviation {float(np.abs(np.asarray(Ad, float) - ref).max()):.3g}", "score:reuse",
                                  {"config": f"{cls}_{'ovo' if ovo else 'ova'}", "name": name, "kernel_params": given, "X": Xd.tolist()},
                                  key=f"affinity-then-evaluate:params:{cls}", how=how)
                    break
            P = gl.gen_P(rs, n, K, "soft")
            for tag, A in (("first", A1), ("second", A2), ("first again", A1)):
                got = float(g(P.copy(), A))
                ctx.compared("score:affinity-then-evaluate")
                ctx.case(("ate", cls, ovo, name, P.tobytes(), A.tobytes(), tag), True, None)
                try:
                    want = gl.spec_score(cls, ovo, P, np.asarray(A, float))
                except RuntimeError:
                    continue
                tol = score_tol(cls, A)
                if not core.close(got, want, rtol=tol, atol=tol):
                    ctx.violation(f"score with the {tag} of two matrices computed by the same object is {got!r}, the definition for the "
                                  f"matrix passed gives {want!r}", "score:reuse",
                                  {"config": f"{cls}_{'ovo' if ovo else 'ova'}", "name": name, "X1": X1.tolist(), "X2": X2.tolist(),
                                   "P": P.tolist(), "which": tag}, expected=want, actual=got,
                                  key=f"affinity-then-evaluate:{cls}_{'ovo' if ovo else 'ova'}", how=how)
                    break


def integer_costs(ctx, eps, rs):
    """a precomputed distance matrix with integer entries (hop counts, Manhattan distances on a grid) handed over as int64 /
    int32 / float64: the value is the definition for those numbers whatever their dtype"""
    how = "WassersteinGEMINI(metric='precomputed')(P, D) with D an integer-valued matrix of the listed dtype"
    for ovo in (False, True):
        n, K = int(rs.randint(4, 7)), int(rs.randint(2, 4))
        pts = rs.randint(0, 5, size=(n, 2))
        D = np.abs(pts[:, None, :] - pts[None, :, :]).sum(-1)
        P = gl.gen_P(rs, n, K, "soft")
        want = gl.spec_score("wass", ovo, P, D.astype(float))
        for dt in (np.float64, np.int64, np.int32):
            g = gl.real_gemini("wass", ovo, eps)
            try:
                got = float(g(P.copy(), D.astype(dt)))
            except Exception as e:
                ctx.violation(f"evaluate raised {type(e).__name__}: {e} on a {np.dtype(dt).name} distance matrix", "score",
                              {"config": f"wass_{'ovo' if ovo else 'ova'}", "dtype": np.dtype(dt).name, "P": P.tolist(), "D": D.tolist()},
                              key=f"dtype-raise:wass", how=how)
                continue
            ctx.compared("score:integer-cost")
            ctx.case(("intcost", ovo, np.dtype(dt).name, P.tobytes(), D.tobytes()), True, None)
            tol = score_tol("wass", D.astype(float))
            if not core.close(got, want, rtol=tol, atol=tol):
                ctx.violation(f"integer-valued distance matrix given as {np.dtype(dt).name}: score {got!r}, the definition gives {want!r}", "score",
                              {"config": f"wass_{'ovo' if ovo else 'ova'}", "dtype": np.dtype(dt).name, "P": P.tolist(), "D": D.tolist()},
                              expected=want, actual=got, key=f"score-dtype:wass_{'ovo' if ovo else 'ova'}", how=how)


def large_n(ctx, eps, rs):
    """sample counts far beyond the correspondence sizes (the Lean driver is interpreted): oracle only.  Sizes straddle
    powers of two, rows are sorted by confidence (an implementation that processes the samples in blocks must still weigh
    every sample equally); with and without return_grad"""
    sizes = [257, 300, 513] if ctx.tier == "quick" else [255, 256, 257, 300, 511, 513, 640, 777, 1025]
    wide = [(500, 12), (300, 16), (150, 30)] if ctx.tier == "quick" else [(500, 12), (456, 12), (300, 16), (1200, 8), (150, 30), (700, 10)]
    how = "gemclus.gemini.<Class>(ovo).evaluate(P, A, return_grad) on a large sample vs harness.gemini_lib.spec_score"
    for cls, ovo in [c for c in gl.CONFIGS if c[0] != "wass"]:
        shapes = [(n, int(rs.randint(2, 5))) for n in ([sizes[rs.randint(len(sizes))]] if ctx.tier == "quick" else sizes)]
        shapes += [wide[rs.randint(len(wide))]] if ctx.tier == "quick" else wide      # many clusters: N x K x K intermediates
        for n, K in shapes:
            P = gl.gen_P(rs, n, K, "soft")
            P = P[np.argsort(P.max(1))]
            A = gl.gen_affinity(rs, n, "rbf") if cls == "mmd" else None
            g = gl.real_gemini(cls, ovo, eps)
            want = gl.spec_score(cls, ovo, P, A)
            tol = score_tol(cls, A)
            for wg in (False, True):
                r = g.evaluate(P.copy(), A, return_grad=wg)
                got = float(r[0] if wg else r)
                ctx.compared("score:large-n")
                ctx.case(("large", cls, ovo, n, K, wg), True, None)
                if not core.close(got, want, rtol=tol, atol=tol):
                    ctx.violation(f"n={n}: score {got!r} (return_grad={wg}) differs from the documented definition {want!r}", "score",
                                  {"config": f"{cls}_{'ovo' if ovo else 'ova'}", "n": n, "K": K, "return_grad": wg, "P": P.tolist(),
                                   "A": None if A is None else "rbf kernel of the stored seed"}, expected=want, actual=got,
                                  key=f"score-large-n:{cls}_{'ovo' if ovo else 'ova'}", how=how)
                    break


def run(ctx):
    ctx.rule = ("12 configurations (6 classes x ovo) x shapes n in 1..10, K in 2..6 x simplex regimes "
                "(near-uniform ... near one-hot 1e-9) x kernels/metrics (incl. non-PSD sigmoid, random symmetric); "
                "a case is non-trivial when P is not constant across rows; distinct = distinct (config, P, affinity) hash")
    data = regen(ctx)
    ctx.do_prove()
    depth = 8 if ctx.tier == "quick" else 60
    eps = 1e-12
    cs = cases(ctx, depth)
    impl, lines, recs = [], [], []
    for (cls, ovo, n, K, regime, kind, P, A) in cs:
        try:
            r, calls = gl.impl_eval(cls, ovo, eps, P, A, grad=False)
            r = float(r)
        except Exception as e:  # the implementation must not raise on an interior P
            r, calls = e, None
        impl.append(r)
        recs.append(calls)
        emd = gl.emd_tables_or_none(calls, n, K, ovo) if (cls == "wass" and calls is not None) else None
        if cls == "wass" and emd is None:
            if calls is not None:
                ctx.corr_break("score:wass:pot-calls", {"config": f"wass_{'ovo' if ovo else 'ova'}", "n": n, "K": K},
                               f"{len(calls)} ot.emd2 calls recorded: not the calls the model is parameterised by")
            emd = np.zeros((K * K + K, 1 + 2 * n))
        lines.append(gl.model_line("score", cls, ovo, eps, P, A, emd))
    try:
        outs = core.run_driver("Gemini", lines)
    except core.DriverBuildError as e:
        ctx.proof["broken"].append({"theorem": "model build", "reason": str(e)[-400:]})
        outs = [None] * len(lines)
    for (cls, ovo, n, K, regime, kind, P, A), r, o, calls in zip(cs, impl, outs, recs):
        nontriv = bool(np.ptp(P, axis=0).max() > 1e-6)
        desc = {"config": f"{cls}_{'ovo' if ovo else 'ova'}", "n": n, "K": K, "regime": regime, "affinity": kind}
        ctx.case((cls, ovo, P.tobytes(), None if A is None else A.tobytes()), nontriv,
                 {**desc, "P": P.round(6).tolist()})
        ctx.count(f"cfg:{desc['config']}")
        ctx.count(f"regime:{regime}")
        inp = {**desc, "P": P.tolist(), "A": None if A is None else A.tolist(), "epsilon": eps}
        how = "gemclus.gemini.<Class>(ovo=..., kernel/metric='precomputed')(P, A) vs harness.gemini_lib.spec_score"
        if isinstance(r, Exception):
            ctx.violation(f"evaluate raised {type(r).__name__}: {r}", "score", inp, key=f"raise:{desc['config']}", how=how)
            continue
        # correspondence with the Lean model
        if o is not None:
            m = core.unhex(o)
            ctx.compared("score:" + desc["config"])
            scale = 1.0 if A is None else max(1.0, float(np.abs(A).max()))
            # MMD: square root of a cancelling difference, see c13.py
            if not core.close(r, m, rtol=1e-9 * scale, atol=2e-7 * np.sqrt(scale) if cls == "mmd" else 1e-12):
                ctx.corr_break("score:" + desc["config"], inp, {"impl": r, "model": m})
        # POT weights are the cluster conditionals (model: wassWeights)
        if cls == "wass" and calls:
            pi, cond = gl.cond_dists(np.clip(P, eps, 1 - eps))
            for c in calls:
                ok = any(np.allclose(c[0], cond[k], rtol=1e-12, atol=0) for k in range(K))
                okb = np.allclose(c[1], 1.0 / n, rtol=1e-12) if not ovo else any(np.allclose(c[1], cond[k], rtol=1e-12, atol=0) for k in range(K))
                if not (ok and okb):
                    ctx.violation("a weight vector handed to ot.emd2 is not a cluster-conditional / the data distribution",
                                  "wass-weights", inp, key=f"wassw:{desc['config']}", how=how)
                    break
        # independent oracle: the documented definition
        try:
            s = gl.spec_score(cls, ovo, P, A)
        except RuntimeError:
            ctx.count("oracle_skipped")
            continue
        scale = 1.0 if A is None else max(1.0, float(np.abs(A).max()))
        tol = {"mmd": 2e-6 * np.sqrt(scale), "wass": 1e-7 * scale}.get(cls, 1e-9)
        if not core.close(r, s, rtol=tol, atol=tol):
            ctx.violation(f"score {r!r} differs from the documented distance-based definition {s!r}", "score",
                          inp, expected=s, actual=r, key=f"score:{desc['config']}", how=how)
    reuse_sequences(ctx, eps)
    # registry: translated table vs the live objects, and names vs documented meaning
    if True:   # the oracle runs even when the registry could not be translated (`data is None`): it needs no model
        from gemclus.gemini._utils import _str_to_gemini, AVAILABLE_GEMINIS
        import gemclus.gemini as G
        doc = {"mmd_ova": ("MMDGEMINI", False), "mmd_ovo": ("MMDGEMINI", True),
               "wasserstein_ova": ("WassersteinGEMINI", False), "wasserstein_ovo": ("WassersteinGEMINI", True),
               "kl_ova": ("KLGEMINI", False), "kl_ovo": ("KLGEMINI", True), "mi": ("KLGEMINI", False),
               "tv_ova": ("TVGEMINI", False), "tv_ovo": ("TVGEMINI", True),
               "hellinger_ova": ("HellingerGEMINI", False), "hellinger_ovo": ("HellingerGEMINI", True),
               "chi2_ova": ("ChiSquareGEMINI", False), "chi2_ovo": ("ChiSquareGEMINI", True)}
        rs = np.random.RandomState(ctx.seed + 5)
        P = gl.gen_P(rs, 5, 3, "soft")
        X = rs.randn(5, 2)
        for name in doc:
            ctx.compared("registry")
            try:
                g = _str_to_gemini(name)
            except Exception as e:
                ctx.violation(f"registry name {name} rejected: {e}", "registry", {"name": name}, key=f"registry:{name}")
                continue
            # which evaluate runs?
            ev_cls = next(c.__name__ for c in type(g).__mro__ if "evaluate" in c.__dict__)
            live = (ev_cls, bool(g.ovo))
            if data is not None and data["entries"].get(name) != live:
                ctx.corr_break("registry", {"name": name}, {"translated": data["entries"].get(name), "live": live})
            A = g.compute_affinity(X)
            want = gl.spec_score(gl.REV[doc[name][0]], doc[name][1], P, A)
            got = float(g(P, A))
            tol = 1e-6 if "mmd" in name or "wass" in name else 1e-9
            if live != doc[name] or not core.close(got, want, rtol=tol, atol=tol):
                ctx.violation(f"registry name {name!r} gives {live}, score {got}; documented {doc[name]}, score {want}",
                              "registry", {"name": name, "P": P.tolist(), "X": X.tolist()}, expected=want, actual=got,
                              key=f"registry:{name}")
        if data is not None and sorted(AVAILABLE_GEMINIS) != sorted(data["available"]):
            ctx.corr_break("registry", {}, {"translated": data["available"], "live": AVAILABLE_GEMINIS})
        # MI() is KLGEMINI(ovo=False)
        if float(G.MI()(P, None)) != float(G.KLGEMINI(ovo=False)(P, None)):
            ctx.violation("MI() differs from KLGEMINI(ovo=False)", "registry", {"P": P.tolist()}, key="registry:MI")
    return ctx.finish()
