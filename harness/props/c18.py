"""C18 — predictions are per-sample functions of the fitted model."""
import json
import warnings

import numpy as np

from .. import core, fit_lib as fl, rowlocal_lib as rl
from . import c15

PRIME = 7927
HOW = ("X, Z = harness.rowlocal_lib.make_data(input['data']); m = harness.rowlocal_lib.build(input['estimator'], input['params'], X); "
       "A = X if input['array'] == 'train' else Z; s = input['sigma']; compare m.predict_proba(A[s]) with m.predict_proba(A)[s] "
       "(and predict / labels_)   —   or: ./check C18 --replay <this file>")


FITTED = ("W_", "b_", "W1_", "b1_", "W2_", "b2_", "W_skip_", "cut_points_list_", "leaf_scores_", "tree_", "input_data_", "labels_")


class PredictRaised(Exception):
    pass


# ------------------------------------------------------------------ helpers
def snapshot(model):
    """everything `fit` stored, by value"""
    out = {}
    for k, v in vars(model).items():
        if k not in FITTED:      # what the forward pass reads, and what fit reported (caches such as H_ are not part of it)
            continue
        if k == "cut_points_list_":
            out[k] = [(int(f), np.array(c, copy=True)) for f, c in v]
        elif k == "tree_":
            out[k] = json.dumps([list(map(repr, getattr(v, a))) for a in ("children_left", "children_right", "target", "thresholds", "features")])
        elif isinstance(v, np.ndarray):
            out[k] = v.copy()
    return out


def same_snapshot(a, b):
    if a.keys() != b.keys():
        return False
    for k in a:
        if k == "cut_points_list_":
            if len(a[k]) != len(b[k]) or any(f != g or not np.array_equal(c, e) for (f, c), (g, e) in zip(a[k], b[k])):
                return False
        elif isinstance(a[k], np.ndarray):
            if not np.array_equal(a[k], b[k], equal_nan=True):
                return False
        elif a[k] != b[k]:
            return False
    return True


def distinct_rows(P):
    return len({np.asarray(r).tobytes() for r in P})


class Asker:
    def __init__(self):
        self.q = {"Nets": ([], []), "Douglas": ([], []), "RowLocal": ([], [])}

    def ask(self, drv, line, fn):
        self.q[drv][0].append(line)
        self.q[drv][1].append(fn)

    def run(self, ctx):
        for drv, (lines, fns) in self.q.items():
            if not lines:
                continue
            try:
                outs = core.run_driver(drv, lines)
            except core.DriverBuildError as e:
                ctx.proof["broken"].append({"theorem": f"model build ({drv})", "reason": str(e)[-400:]})
                continue
            for fn, o in zip(fns, outs):
                fn(o)


def floats_of(ans):
    if ans.strip() in ("error", "bad-op"):
        return None
    return np.array([core.unhex(v) for v in ans.split()], dtype=float)


# ------------------------------------------------------------------ Lean correspondence for one (model, array, sigma)
def ask_model(ctx, asker, fam, model, Xtrain, A, sigma, P_full, P_sub, y_full, inp, tol):
    """the Lean forward pass on A and on A[sigma] with the fitted weights: agrees with the real predict_proba (1e-12) and
    commutes with sigma bit for bit (the theorem, instantiated at Float)"""
    kind = rl.kind_of(fam)
    B = np.ascontiguousarray(A[sigma])
    got = {}

    def pair(drv, mk, unit, bitwise=True):
        def h_full(ans):
            v = floats_of(ans)
            got["full"] = v
            ctx.compared("model:" + unit)
            if v is None or rl.max_rel(v.reshape(P_full.shape) if v.size == P_full.size else v, P_full) > tol:
                ctx.corr_break("model:" + unit, inp, {"impl": P_full.tolist(), "model": None if v is None else v.tolist()})

        def h_sub(ans):
            v = floats_of(ans)
            ctx.compared("model:" + unit)
            if v is None or rl.max_rel(v.reshape(P_sub.shape) if v.size == P_sub.size else v, P_sub) > tol:
                ctx.corr_break("model:" + unit, {**inp, "on": "A[sigma]"}, {"impl": P_sub.tolist(), "model": None if v is None else v.tolist()})
            # theorem *_index_map at Float: bit-for-bit
            full = got.get("full")
            if bitwise and v is not None and full is not None and full.size == P_full.size and v.size == P_sub.size:
                ctx.compared("model:float-index-map")
                a = full.reshape(P_full.shape)[sigma]
                if a.tobytes() != v.reshape(P_sub.shape).tobytes() and not np.array_equal(a, v.reshape(P_sub.shape), equal_nan=True):
                    ctx.corr_break("model:float-index-map", inp, {"model(A)[sigma]": a.tolist(), "model(A[sigma])": v.tolist()})
        asker.ask(drv, mk(A), h_full)
        asker.ask(drv, mk(B), h_sub)

    if kind == "linear":
        pair("Nets", lambda M: rl.line_linear(M, model.W_, model.b_), "infer-linear")
    elif kind == "mlp":
        pair("Nets", lambda M: rl.line_mlp(M, model), "infer-mlp")
    elif kind == "smlp":
        pair("Nets", lambda M: rl.line_smlp(M, model), "infer-smlp")
    elif kind == "douglas":
        pair("Douglas", lambda M: rl.line_douglas(M, model), "infer-douglas")
    elif kind == "krim":
        with warnings.catch_warnings():
            warnings.simplefilter("ignore")
            KA, KB = np.asarray(model._compute_kernel(A), dtype=float), np.asarray(model._compute_kernel(B), dtype=float)
        # scikit-learn's kernel of another batch shape may differ in the last bits (BLAS): the bit-for-bit statement is about the
        # model on identical inputs, so it is only checked when the two kernel computations happen to agree exactly
        same_bits = np.array_equal(KA[sigma], KB)
        ctx.count("krim:sklearn-kernel-rows:" + ("bit-identical across shapes" if same_bits else "differ in the last bits across shapes"))
        pair("Nets", lambda M: rl.line_linear(KA if M is A else KB, model.W_, model.b_), "infer-krim(kernel rows)", bitwise=same_bits)
        if model.base_kernel == "linear" and not model.base_kernel_params:
            got = {}
            pair("RowLocal", lambda M: rl.line_krim(M, Xtrain, model.W_, model.b_), "infer-krim(linear kernel, from raw rows)")
    # predict = first arg-max, on the bit-exact probabilities of the real code
    if np.isfinite(P_full).all():
        def h_arg(ans, y=y_full):
            ctx.compared("model:argmax")
            if [int(v) for v in ans.split()] != [int(v) for v in y]:
                ctx.corr_break("model:argmax", inp, {"impl": [int(v) for v in y], "model": ans})
        asker.ask("RowLocal", rl.line_argmax(P_full), h_arg)


def ask_tree(ctx, asker, model, A, y_real, inp):
    def h(ans):
        mask, route = rl.parse_tree(ans)
        ctx.compared("model:tree-predict(mask recursion)")
        ctx.compared("model:tree-route(per row)")
        y = [int(v) for v in y_real]
        if mask != y:
            ctx.corr_break("model:tree-predict(mask recursion)", inp, {"impl": y, "model": mask})
        if route != y:
            ctx.corr_break("model:tree-route(per row)", inp, {"impl": y, "model": route})
    asker.ask("RowLocal", rl.line_tree(np.asarray(A, dtype=float), model.tree_), h)


# ------------------------------------------------------------------ one fitted estimator
def check_fit(ctx, rs, asker, fam, kw, desc, n_lean):
    kind = rl.kind_of(fam)
    X, Z = rl.make_data(desc)
    base = {"estimator": fam, "params": kw, "data": desc}
    try:
        model = rl.build(fam, kw, X)
    except Exception as e:
        ctx.case((fam, repr(kw), repr(desc)), False, None)
        ctx.count(f"fit_raised:{fam}:{type(e).__name__}")
        ctx.extra.setdefault("fit_errors", []).append(f"{fam} {kw}: {type(e).__name__}: {e}"[:300])
        return
    ctx.count("fit:" + fam)
    if kind == "krim":
        ctx.count("krim:kernel:" + str(kw["base_kernel"]) + ("+params" if kw["base_kernel_params"] else ""))
    has_proba = kind != "kauri"
    snap0 = snapshot(model)
    n = len(X)

    def proba(M):
        with warnings.catch_warnings():
            warnings.simplefilter("ignore")
            try:
                return np.asarray(model.predict_proba(M))
            except Exception as e:
                raise PredictRaised(f"predict_proba on a {np.shape(M)} array raised {type(e).__name__}: {e}")

    def labels(M):
        with warnings.catch_warnings():
            warnings.simplefilter("ignore")
            try:
                return np.asarray(model.predict(M))
            except Exception as e:
                raise PredictRaised(f"predict on a {np.shape(M)} array raised {type(e).__name__}: {e}")

    try:
        _check_fitted(ctx, rs, asker, fam, kind, kw, desc, model, X, Z, base, has_proba, proba, labels, n_lean)
    except PredictRaised as e:
        ctx.violation(f"{fam}: {e}", "raises", base, key=f"predict-raised:{fam}", how=HOW)
        return
    # ---- KernelRIM: the kernel is taken against the stored training points; training predictions = those of fit
    if kind == "krim":
        try:
            check_krim(ctx, rs, model, kw, X, Z, base)
        except Exception as e:
            ctx.violation(f"KernelRIM: prediction raised {type(e).__name__}: {e}", "raises", base, key="predict-raised:KernelRIM", how=HOW)
    # ---- an extreme row in the array must not change the answers for the ordinary rows next to it
    if has_proba:
        try:
            mag = float(rs.choice([1e3, 1e4, 1e6]))
            out_row = (Z[:1] if len(Z) else X[:1]) * mag + mag
            if desc.get("nonneg"):
                out_row = np.abs(out_row)
            A_mix = np.ascontiguousarray(np.vstack([Z, out_row]))
            P_alone, P_mix = proba(Z), proba(A_mix)[:-1]
            tol = rl.tol_for(rl.cond_scale(model, kind, Z))
            ctx.compared("oracle:outlier-row")
            ok = np.isfinite(P_alone).all() and (rl.max_rel(P_mix, P_alone) <= tol)
            if np.isfinite(P_alone).all() and not ok:
                ctx.violation(f"{fam}: appending one extreme row (x{mag:g}) to the array changes predict_proba of the other rows by "
                              f"{rl.max_rel(P_mix, P_alone):.3g} (relative)", "index-map", {**base, "array": "new+outlier", "outlier_scale": mag},
                              key=f"outlier-row:proba:{fam}", how=HOW)
        except PredictRaised as e:
            ctx.count("outlier-row:predict-raised")
    # ---- predicting did not touch the fitted model
    if not same_snapshot(snap0, snapshot(model)):
        ctx.violation(f"{fam}: predict/predict_proba changed the fitted attributes", "stateless", base, key=f"mutates-model:{fam}", how=HOW)


def _check_fitted(ctx, rs, asker, fam, kind, kw, desc, model, X, Z, base, has_proba, proba, labels, n_lean):

    lean_budget = n_lean
    for arr_name, A in (("train", X), ("new", Z)):
        P_full = proba(A) if has_proba else None
        y_full = labels(A)
        M = rl.cond_scale(model, kind, A)
        tol = rl.tol_for(M)
        ctx.count("tolerance:1e-12" if tol == rl.RTOL else "tolerance:widened (saturated soft-max, M > 100)" if tol < 0.9e-4
                  else "tolerance:capped at 1e-4 (diverged weights, M > 1e10)")
        ctx.extra["max_cond_scale_M"] = max(ctx.extra.get("max_cond_scale_M", 0.0), M)
        # the answer is a function of the array and the fitted model: asking twice changes nothing
        if has_proba and not np.array_equal(proba(A), P_full, equal_nan=True) or not np.array_equal(labels(A), y_full):
            ctx.violation(f"{fam}: two identical predict/predict_proba calls on the same array differ", "stateless", {**base, "array": arr_name},
                          key=f"stateful:{fam}", how=HOW)
        if has_proba:
            ties_full = rl.tie_rows(P_full, tol)
            ctx.count("rows_with_tied_top_probabilities", int(ties_full.sum()))
            bad = (np.argmax(P_full, axis=1) != y_full) & ~ties_full
            if bad.any():
                ctx.violation(f"{fam}: predict differs from argmax(predict_proba) on the same array at rows {np.where(bad)[0].tolist()}", "predict",
                              {**base, "array": arr_name}, expected=np.argmax(P_full, axis=1).tolist(), actual=y_full.tolist(),
                              key=f"predict-vs-proba:{fam}", how=HOW)
        # ---- predicting the training data reproduces what fit stored
        if arr_name == "train":
            ctx.compared("oracle:train-labels")
            mism = y_full != np.asarray(model.labels_)
            if has_proba:
                ctx.count("train_label_flips_on_ties", int((mism & ties_full).sum()))
                mism = mism & ~ties_full
            if mism.any():
                ctx.violation(f"{fam}: predict(X_train) differs from labels_ at rows {np.where(mism)[0].tolist()}", "train", {**base, "array": "train"},
                              expected=np.asarray(model.labels_).tolist(), actual=y_full.tolist(), key=f"train-labels:{fam}", how=HOW)
        # ---- Kauri: each row walked through the tree on its own (oracle from the property text)
        if kind == "kauri":
            ctx.compared("oracle:tree-per-row", len(A))
            walk = [rl.route_row(model.tree_, A[i]) for i in range(len(A))]
            if walk != [int(v) for v in y_full]:
                ctx.violation(f"Kauri.predict differs from walking each row through the tree: {y_full.tolist()} vs {walk}", "tree",
                              {**base, "array": arr_name}, expected=walk, actual=y_full.tolist(), key="kauri:per-row-walk", how=HOW)
            ctx.count(f"kauri:nodes:{min(model.tree_.n_nodes, 9)}")
            if lean_budget > 0:
                ask_tree(ctx, asker, model, A, y_full, {**base, "array": arr_name})
        # ---- index maps
        for s_name, sigma in rl.index_maps(rs, len(A)):
            layout, B = rl.take(rs, A, sigma)
            B0 = np.array(B, copy=True)
            inp = {**base, "array": arr_name, "sigma_kind": s_name, "sigma": sigma.tolist(), "layout": layout}
            y_sub = labels(B)
            P_sub = proba(B) if has_proba else None
            identity = len(sigma) == len(A) and np.array_equal(sigma, np.arange(len(A)))
            nontriv = (not identity) and (distinct_rows(P_full[sigma]) >= 2 if has_proba else len(set(y_full[sigma].tolist())) >= 2 or model.tree_.n_nodes > 1)
            ctx.case((fam, repr(sorted(kw.items(), key=str)), repr(desc), arr_name, sigma.tobytes(), layout), nontriv,
                     {"estimator": fam, "array": arr_name, "sigma": s_name, "len": len(sigma), "layout": layout,
                      "params": {k: (v if not callable(v) else "callable") for k, v in kw.items()}} if s_name in ("perm", "repeats") else None)
            ctx.count("sigma:" + s_name)
            ctx.count("layout:" + layout)
            if not np.array_equal(B, B0):
                ctx.violation(f"{fam}: predict/predict_proba modified its input array", "input", inp, key=f"mutates-input:{fam}", how=HOW)
            if has_proba:
                ctx.compared("oracle:proba-index-map")
                r = rl.max_rel(P_sub, P_full[sigma])
                ctx.count("proba:bit-identical" if r == 0.0 else "proba:within-tolerance" if r <= tol else "proba:beyond-tolerance")
                ctx.extra["max_rel_dev_proba"] = max(ctx.extra.get("max_rel_dev_proba", 0.0), r if np.isfinite(r) else 1.0)
                ctx.extra["max_dev_over_tolerance"] = max(ctx.extra.get("max_dev_over_tolerance", 0.0), (r if np.isfinite(r) else 1.0) / tol)
                if r > tol:
                    ctx.violation(f"{fam}: predict_proba(A[σ]) differs from predict_proba(A)[σ] by {r:.3g} (relative), σ={s_name}", "index-map", inp,
                                  expected=P_full[sigma].tolist(), actual=np.asarray(P_sub).tolist(), key=f"index-map:proba:{fam}", how=HOW)
                ties = rl.tie_rows(P_full[sigma], tol) | rl.tie_rows(P_sub, tol)
            else:
                ties = np.zeros(len(sigma), dtype=bool)
            ctx.compared("oracle:label-index-map")
            mism = y_sub != y_full[sigma]
            ctx.count("label_flips_on_ties", int((mism & ties).sum()))
            if (mism & ~ties).any():
                ctx.violation(f"{fam}: predict(A[σ]) differs from predict(A)[σ] at positions {np.where(mism & ~ties)[0].tolist()}, σ={s_name}", "index-map",
                              inp, expected=y_full[sigma].tolist(), actual=y_sub.tolist(), key=f"index-map:labels:{fam}", how=HOW)
            if lean_budget > 0 and s_name in ("perm", "repeats", "single"):
                lean_budget -= 1
                if has_proba:
                    ask_model(ctx, asker, fam, model, X, A, sigma, P_full, P_sub, y_full, inp, tol)
                else:
                    ask_tree(ctx, asker, model, np.ascontiguousarray(A[sigma]), y_sub, inp)


def check_krim(ctx, rs, model, kw, X, Z, base):
    name, params = kw["base_kernel"], kw["base_kernel_params"]
    n = len(X)
    calls = model._c18_calls
    if not calls or calls[-1][0].shape != (n, n):
        ctx.corr_break("krim:capture", base, {"detail": "last _infer call of fit is not on the full n x n training kernel",
                                              "shapes": [list(c[0].shape) for c in calls[-3:]]})
        return
    K_fit, P_fit = calls[-1]
    with warnings.catch_warnings():
        warnings.simplefilter("ignore")
        P_train = np.asarray(model.predict_proba(X))
    ctx.compared("oracle:krim-train-proba")
    r = rl.max_rel(P_train, P_fit)
    ctx.count("krim:train-proba:bit-identical" if r == 0.0 else "krim:train-proba:within-tolerance")
    if r > rl.tol_for(rl.cond_scale(model, "krim", X)):
        ctx.violation(f"KernelRIM: predict_proba(X_train) differs from the _infer(training_kernel) of fit by {r:.3g}", "krim-train",
                      {**base, "array": "train"}, expected=P_fit.tolist(), actual=P_train.tolist(), key="krim:train-proba", how=HOW)
    if not np.array_equal(np.argmax(P_fit, axis=1), model.labels_):
        ctx.corr_break("krim:capture", base, {"detail": "labels_ is not the arg-max of the captured call"})
    # the kernel fit trained on is the kernel between the training points
    ctx.compared("oracle:krim-training-kernel")
    K_spec = rl.kernel_matrix(name, params, X, X)
    if rl.max_rel(K_fit, K_spec) > 1e-9 and np.max(np.abs(K_fit - K_spec)) > 1e-12 * max(1.0, float(np.max(np.abs(K_spec)))):
        ctx.violation("KernelRIM: the matrix fit trained on is not the kernel between the training points", "krim-train", base,
                      expected=K_spec.tolist(), actual=K_fit.tolist(), key="krim:training-kernel", how=HOW)
    if model.W_.shape[0] != n:
        ctx.violation(f"KernelRIM: W_ has {model.W_.shape[0]} rows for {n} training points", "krim-train", base, key="krim:W-shape", how=HOW)
        return
    # new points: kernel against the STORED TRAINING points, then the linear model (independent computation)
    for arr_name, A in (("train", X), ("new", Z), ("new-single", Z[:1]), ("mixed", np.vstack([Z[:2], X[rs.permutation(n)[:3]]]))):
        with warnings.catch_warnings():
            warnings.simplefilter("ignore")
            P = np.asarray(model.predict_proba(A))
        spec = rl.softmax_rows(rl.kernel_matrix(name, params, A, X) @ model.W_ + model.b_)
        ctx.compared("oracle:krim-formula")
        r = rl.max_rel(P, spec)
        ctx.extra["max_rel_dev_krim_formula"] = max(ctx.extra.get("max_rel_dev_krim_formula", 0.0), r if np.isfinite(r) else 1.0)
        if r > rl.tol_for(rl.cond_scale(model, "krim", A)):
            ctx.violation(f"KernelRIM: predict_proba({arr_name}) differs from softmax(K(A, X_train) @ W_ + b_) by {r:.3g}", "krim-formula",
                          {**base, "array": arr_name, "A": np.asarray(A).tolist()}, expected=spec.tolist(), actual=P.tolist(),
                          key=f"krim:formula:{name if isinstance(name, str) else 'callable'}", how=HOW)


# ------------------------------------------------------------------ malformed trees: the model rejects what the code rejects
class bounded:
    """time and address-space limit around one call of the code under test (a runaway must not take the harness down)"""

    def __init__(self, seconds, gigabytes):
        self.seconds, self.bytes = seconds, int(gigabytes * (1 << 30))

    def __enter__(self):
        import resource, signal
        self.old_limit = resource.getrlimit(resource.RLIMIT_AS)
        soft = self.bytes if self.old_limit[1] in (-1, resource.RLIM_INFINITY) else min(self.bytes, self.old_limit[1])
        resource.setrlimit(resource.RLIMIT_AS, (soft, self.old_limit[1]))

        def on_alarm(signum, frame):
            raise TimeoutError(f"more than {self.seconds} s")
        self.old_handler = signal.signal(signal.SIGALRM, on_alarm)
        signal.alarm(self.seconds)
        return self

    def __exit__(self, *exc):
        import resource, signal
        signal.alarm(0)
        signal.signal(signal.SIGALRM, self.old_handler)
        resource.setrlimit(resource.RLIMIT_AS, self.old_limit)
        return False


def malformed_trees(ctx, rs, asker, reps):
    from gemclus.tree.kauri import Tree

    def mk(left, right, target, feat, thr, n_nodes=None):
        t = Tree()
        t.children_left, t.children_right, t.target, t.features, t.thresholds = list(left), list(right), list(target), list(feat), list(thr)
        t.n_nodes = len(left) if n_nodes is None else n_nodes
        t.categorical_nodes = [False] * len(left)
        t.depths = [0] * len(left)
        t.gains = [0] * len(left)
        return t
    for rep in range(reps):
        A = np.round(rs.randn(int(rs.randint(1, 6)), 2) * 2) / 2.0
        thr = float(rs.choice([-0.5, 0.0, 0.5]))
        trees = {
            "ok-3": mk([1, -1, -1], [2, -1, -1], [0, 0, 1], [int(rs.randint(2)), None, None], [thr, None, None]),
            "ok-5": mk([1, -1, 3, -1, -1], [2, -1, 4, -1, -1], [0, 2, 0, 1, 0], [0, None, 1, None, None], [thr, None, 0.25, None, None]),
            "ok-root": mk([-1], [-1], [3], [None], [None]),
            "thr-none": mk([1, -1, -1], [2, -1, -1], [0, 0, 1], [0, None, None], [None, None, None]),
            "feat-none": mk([1, -1, -1], [2, -1, -1], [0, 0, 1], [None, None, None], [thr, None, None]),
            "right-minus-one": mk([1, -1, -1], [-1, -1, -1], [0, 0, 1], [0, None, None], [thr, None, None]),
            "child-eq-n_nodes": mk([1, -1, -1], [3, -1, -1], [0, 0, 1], [0, None, None], [thr, None, None]),
            "child-beyond": mk([1, -1, -1], [7, -1, -1], [0, 0, 1], [0, None, None], [thr, None, None]),
            "cycle": mk([0, -1, -1], [2, -1, -1], [0, 0, 1], [0, None, None], [thr, None, None]),
            "target-short": mk([1, -1, -1], [2, -1, -1], [0, 0], [0, None, None], [thr, None, None]),
        }
        for name, t in trees.items():
            try:
                with warnings.catch_warnings(), bounded(seconds=10, gigabytes=4):
                    warnings.simplefilter("ignore")
                    real = [int(v) for v in t.predict(A)]
            except (ValueError, IndexError, TypeError, RecursionError) as e:
                real = None
                ctx.count(f"malformed:{name}:{type(e).__name__}")
            except (MemoryError, TimeoutError) as e:
                # a malformed tree (cycle, child beyond the arrays) must be REJECTED; running away on it is not a rejection
                real = None
                ctx.violation(f"Tree.predict on a malformed tree ({name}) does not terminate within 10 s / 4 GB: {type(e).__name__}", "tree",
                              {"tree": name, "X": A.tolist()}, expected="an error", actual=type(e).__name__, key=f"malformed-runaway:{name}",
                              how="gemclus.tree.kauri.Tree with the listed arrays; .predict(X)")
            ctx.case(("malformed", name, A.tobytes(), thr), name.startswith("ok"), None)

            def h(ans, real=real, name=name, A=A):
                mask, _ = rl.parse_tree(ans)
                ctx.compared("model:tree-rejects" if real is None else "model:tree-predict(mask recursion)")
                if mask != real:
                    ctx.corr_break("model:tree-rejects", {"tree": name, "X": A.tolist()}, {"impl": real, "model": mask})
            asker.ask("RowLocal", rl.line_tree(A, t, fuel=len(t.children_left) + 1), h)


# ------------------------------------------------------------------ deeper trees grown with the real `Tree._add_child`
def random_trees(ctx, rs, asker, reps):
    from types import SimpleNamespace
    from gemclus.tree.kauri import Tree
    for rep in range(reps):
        d = int(rs.randint(1, 4))
        t = Tree()
        leaves = [0]
        for _ in range(int(rs.randint(1, 9))):
            father = leaves.pop(rs.randint(len(leaves)))
            sp = SimpleNamespace(threshold=float(rs.randint(-3, 4)) / 2.0, feature=int(rs.randint(d)), gain=1.0, is_categorical=False,
                                 left_target=int(rs.randint(4)), right_target=int(rs.randint(4)))
            t._add_child(father, sp)
            leaves += [t.n_nodes - 2, t.n_nodes - 1]
        A = np.round(rs.randn(int(rs.randint(1, 13)), d) * 3) / 2.0
        desc = {"left": t.children_left, "right": t.children_right, "target": t.target, "features": t.features,
                "thresholds": t.thresholds, "X": A.tolist()}
        try:
            y = [int(v) for v in t.predict(A)]
        except Exception as e:
            ctx.violation(f"Tree.predict raised {type(e).__name__}: {e} on a tree grown with _add_child", "tree", desc, key="tree:raises", how="Tree.predict")
            continue
        walk = [rl.route_row(t, A[i]) for i in range(len(A))]
        ctx.compared("oracle:tree-per-row", len(A))
        ctx.count(f"random-tree:nodes:{t.n_nodes}")
        if walk != y:
            ctx.violation(f"Tree.predict differs from walking each row through the tree: {y} vs {walk}", "tree", desc, expected=walk, actual=y,
                          key="tree:per-row-walk", how="build gemclus.tree.kauri.Tree from the stored lists; tree.predict(X) vs harness.rowlocal_lib.route_row")
        for s_name, sigma in rl.index_maps(rs, len(A)):
            ys = [int(v) for v in t.predict(np.ascontiguousarray(A[sigma]))]
            ctx.compared("oracle:label-index-map")
            ctx.case(("random-tree", json.dumps(desc, default=str), sigma.tobytes()), len(set(ys)) >= 2, None)
            if ys != [y[i] for i in sigma]:
                ctx.violation(f"Tree.predict(X[σ]) differs from Tree.predict(X)[σ], σ={s_name}", "tree", {**desc, "sigma": sigma.tolist()},
                              expected=[y[i] for i in sigma], actual=ys, key="tree:index-map", how="Tree.predict on X[sigma]")

        def h(ans, y=y, desc=desc):
            mask, route = rl.parse_tree(ans)
            ctx.compared("model:tree-predict(mask recursion)")
            ctx.compared("model:tree-route(per row)")
            if mask != y:
                ctx.corr_break("model:tree-predict(mask recursion)", desc, {"impl": y, "model": mask})
            if route != y:
                ctx.corr_break("model:tree-route(per row)", desc, {"impl": y, "model": route})
        asker.ask("RowLocal", rl.line_tree(A, t), h)


# ------------------------------------------------------------------ things noted, not judged by C18
def side_notes(ctx):
    from gemclus.linear import KernelRIM
    rs = np.random.RandomState(5)
    X = rs.randn(8, 2)
    with warnings.catch_warnings():
        warnings.simplefilter("ignore")
        Xc = X.copy()
        m = KernelRIM(max_iter=1, random_state=0, base_kernel="rbf").fit(Xc)
        p0 = m.predict_proba(X)
        aliased = m.input_data_ is Xc
        Xc[:] = 0.0
        moved = float(np.max(np.abs(m.predict_proba(X) - p0)))
        try:
            KernelRIM(max_iter=1, random_state=0).fit(X.tolist())
            lst = "accepted"
        except Exception as e:
            lst = f"{type(e).__name__}: {e}"
        try:
            KernelRIM().predict_proba(X)
            unf = "no error"
        except Exception as e:
            unf = type(e).__name__
    ctx.notes.append(f"KernelRIM.fit keeps the caller's array object as input_data_ (aliased={aliased}); overwriting that array after fit moved "
                     f"predict_proba by {moved:.3g}. Not judged by C18 (the fitted model is what fit stored; same convention as scikit-learn's neighbours).")
    ctx.notes.append(f"KernelRIM.fit on a nested list: {lst} (C16/C04 matter: input_data_ is the unvalidated object).")
    ctx.notes.append(f"KernelRIM.predict_proba on an unfitted estimator raises {unf} (no check_is_fitted/check_array: C16).")
    ctx.notes.append("Tree.predict's categorical branch (`== self.thresholds`, the whole list) is unreachable: fit never sets categorical_nodes; not modelled.")
    ctx.count("note:krim_input_data_aliases_caller_array", int(aliased))


# ------------------------------------------------------------------ main
def run(ctx):
    fl.quiet()
    quick = ctx.tier == "quick"
    ctx.rule = ("real fits (max_iter 1..3, integer seeds, adam/sgd, batch sizes None/2/n, 13 GEMINIs) of LinearModel, LinearMMD, LinearWasserstein, RIM, "
                "SparseLinear{Model,MMD,MI}, KernelRIM (13 base kernels: linear, rbf, poly, polynomial, laplacian, sigmoid, cosine, chi2, additive_chi2 with and "
                "without parameters, a callable, a callable with ignored parameters), MLP{Model,MMD,Wasserstein}, SparseMLP{Model,MMD}, Douglas (masks, 1..3 cuts; plus dedicated fits on 3..4 features whose mask skips an early feature), "
                "Kauri (depth/leaf limits; plus unlimited trees on 10..20 samples; plus trees of 3..17 nodes grown by the real Tree._add_child with random splits, "
                "predicted on half-integer points sitting on the thresholds; plus malformed trees that must be rejected) on 5..14 x 1..4 data (blobs / half-integer grid / duplicated rows, scales 0.3, 1, 3); arrays = training data and new "
                "points (one equal to a training row; on the grid new points sit on thresholds); index maps = identity, permutation, reversal, sorted and "
                "shuffled subsets, draws with repetition up to 2n, single rows, one row repeated; layouts C / Fortran / strided / negative stride.  "
                "probabilities compared at 1e-12 relative (values below 1e-280 against 1e-280), widened to 1e-12*M/100 when the largest intermediate "
                "magnitude M entering an exponential exceeds 100 (saturated soft-max; counted), capped at 1e-4 (weights diverged by sgd; counted); labels exactly unless the two top probabilities tie "
                "within that tolerance (counted).  "
                "non-trivial = sigma is not the identity and the selected predictions contain >= 2 distinct rows; distinct = hash of (estimator, parameters, "
                "data, array, sigma, layout)")
    c15.regen(ctx)          # Gen/Douglas.lean follows the current source before the Douglas theorems + companion C15Gen are re-checked
    ctx.do_prove()
    ctx.trusted = [t for t in ctx.trusted if "over the reals" not in t] + [
        "C18 theorems are generic in the number type (they hold at Float bit for bit for the model's fixed summation order); what BLAS does on another "
        "batch shape is measured on the real code (1e-12 relative), not proved",
        "scikit-learn's pairwise_kernels is row-wise (entry (i,j) depends on row i, row j and the parameters): assumption of the KernelRIM theorems, "
        "checked numerically by the formula oracle"]
    ctx.assumptions.append("a callable base_kernel is row-wise (k(A, B)[i, j] depends on A[i], B[j] only)")
    rs = np.random.RandomState(ctx.seed * PRIME + 18)
    asker = Asker()
    reps = 2 if quick else 200
    fams = rl.FAMILIES + ["KernelRIM", "KernelRIM"]
    for rep in range(reps):
        for fam in fams:
            kw, desc = rl.gen_config(rs, fam)
            check_fit(ctx, rs, asker, fam, kw, desc, n_lean=2 if quick else 3)
    # every base kernel at least once per run, whatever the draws above
    for name, params in rl.KERNELS:
        kw, desc = rl.gen_config(rs, "KernelRIM")
        kw["base_kernel"], kw["base_kernel_params"] = name, params
        desc["nonneg"] = name in ("chi2", "additive_chi2")
        check_fit(ctx, rs, asker, "KernelRIM", kw, desc, n_lean=1)
    # Douglas with masks that skip an early feature: the position of a binned feature in cut_points_list_ then differs from its column
    for rep in range(4 if quick else 60):
        kw, desc = rl.gen_config(rs, "Douglas")
        desc["d"] = d = int(rs.randint(3, 5))
        mask = np.zeros(d, dtype=bool)
        mask[rs.choice(np.arange(1, d), size=2, replace=False)] = True
        if rep % 2:
            mask[0] = rs.rand() < 0.3
            if mask.all():
                mask[1] = False
        kw["feature_mask"] = [bool(b) for b in mask]
        kw["n_cuts"] = int(rs.randint(1, 3))
        # well-separated data and a few real steps, so that the labels fit stored are decided by the masked columns
        desc["n"], desc["data"], desc["scale"] = int(rs.randint(10, 15)), "blobs", 3.0
        kw["max_iter"], kw["solver"], kw["learning_rate"] = int(rs.randint(2, 6)), "adam", 0.05
        check_fit(ctx, rs, asker, "Douglas", kw, desc, n_lean=1)
    for rep in range(8 if quick else 300):      # more, and deeper, Kauri trees (cheap)
        kw, desc = rl.gen_config(rs, "Kauri")
        kw["max_depth"], kw["max_leaves"], kw["max_clusters"] = None, None, int(rs.randint(3, 6))
        desc["n"] = int(rs.randint(10, 21))
        check_fit(ctx, rs, asker, "Kauri", kw, desc, n_lean=1)
    random_trees(ctx, rs, asker, 30 if quick else 1200)
    malformed_trees(ctx, rs, asker, 2 if quick else 20)
    side_notes(ctx)
    asker.run(ctx)
    return ctx.finish()


def replay(ctx, path):
    """re-run the failing input of a replay file on the real implementation"""
    fl.quiet()
    rep = json.load(open(path))
    inp = rep.get("input") or {}
    if "estimator" not in inp or "data" not in inp:
        print(f"replay {path}: nothing to rebuild; see how_to_run: {rep.get('how_to_run')}")
        return 2
    fam, kw, desc = inp["estimator"], inp["params"], inp["data"]
    X, Z = rl.make_data(desc)
    m = rl.build(fam, kw, X)
    A = Z if str(inp.get("array", "train")).startswith("new") else X
    sigma = np.asarray(inp.get("sigma", list(range(len(A)))), dtype=int)
    bad = False
    y_full, y_sub = m.predict(A), m.predict(np.ascontiguousarray(A[sigma]))
    if hasattr(m, "predict_proba"):
        P_full, P_sub = m.predict_proba(A), m.predict_proba(np.ascontiguousarray(A[sigma]))
        r = rl.max_rel(P_sub, P_full[sigma])
        print(f"predict_proba(A[σ]) vs predict_proba(A)[σ]: max relative deviation {r:.3g}")
        tol = rl.tol_for(rl.cond_scale(m, rl.kind_of(fam), A))
        ties = rl.tie_rows(P_full[sigma], tol) | rl.tie_rows(P_sub, tol)
        bad |= r > tol
    else:
        ties = np.zeros(len(sigma), dtype=bool)
    mism = (y_sub != y_full[sigma]) & ~ties
    print(f"predict(A[σ]) = {y_sub.tolist()}  predict(A)[σ] = {y_full[sigma].tolist()}")
    bad |= bool(mism.any())
    yt = m.predict(X)
    tt = rl.tie_rows(m.predict_proba(X)) if hasattr(m, "predict_proba") else np.zeros(len(X), dtype=bool)
    print(f"predict(X_train) = {yt.tolist()}  labels_ = {np.asarray(m.labels_).tolist()}")
    bad |= bool(((yt != m.labels_) & ~tt).any())
    if fam == "KernelRIM":
        r = rl.max_rel(m.predict_proba(X), m._c18_calls[-1][1])
        print(f"KernelRIM predict_proba(X_train) vs _infer(training_kernel) of fit: {r:.3g}")
        bad |= r > rl.tol_for(rl.cond_scale(m, "krim", X))
    if bad:
        print(f"REPRODUCED {rep.get('key')}")
        return 1
    print("replay: the property holds on this input now")
    return 0
