"""C10 — Mini-batches partition the data and stay aligned with the affinity matrix.

Real code (instrumented in-process, see harness/batch_lib.py)  vs  Lean model `GemVerif.Model.Batch` (driver `Batch`)
vs an oracle written from the property text.
"""
import json

import numpy as np

from .. import core, batch_lib as bl

HOW = ("./check C10 --replay <this file>   (= harness.batch_lib.run_real(spec, X, y) on the real code, then "
       "harness.props.c10.judge: oracle_epoch + step/epoch counts + validation blocks)")


# ------------------------------------------------------------------ case generation
def shape_class(n, bs, categorical):
    if categorical:
        return "categorical(full batch)"
    if bs is None:
        return "bs=None"
    if bs > n:
        return "bs>n"
    if bs == n:
        return "bs=n"
    if bs == 1:
        return "bs=1"
    return "1<bs<n,even" if n % bs == 0 else "1<bs<n,partial-last"


def pairs_for(rs, n, randomise):
    """a couple of must-link / cannot-link pairs over distinct samples (none when n is too small)"""
    if n < 2:
        return [], []
    if not randomise or n < 5:
        return [[0, 1]], ([[2, 3]] if n >= 4 else [])
    p = rs.permutation(n)
    ml = [[int(p[0]), int(p[1])]]
    cl = [[int(p[2]), int(p[3])]]
    if {cl[0][0], cl[0][1]} <= {0, 1}:          # would alias BFS positions of the single ML pair (C14's subject)
        cl = [[int(p[2]), int(p[4])]]
    return ml, cl


def make_spec(rs, model, gem, n, bs, decorated, op="fit", randomise=False):
    spec = {"model": model, "gemini": gem, "bs": bs, "max_iter": int(rs.randint(1, 4)), "seed": int(rs.randint(0, 10 ** 6)),
            "decorated": bool(decorated), "op": op, "n_clusters": 2 if n >= 2 else 1,
            "solver": "adam" if rs.rand() < 0.7 else "sgd"}
    if decorated:
        spec["ml"], spec["cl"] = pairs_for(rs, n, randomise)
    if op == "path":
        spec.update(gemini_instance=True, alpha=1.0, lr=0.1,
                    path_kw={"alpha_multiplier": 4.0, "min_features": 2, "max_patience": 2})
    return spec


def d_for(rs, spec):
    if spec["op"] == "path":
        return 3
    if spec["model"] == "douglas":
        return int(rs.randint(1, 3))
    return int(rs.randint(1, 4))


# ------------------------------------------------------------------ judging one run
class Pending:
    """Lean requests of one run, compared after the driver answered"""

    def __init__(self):
        self.items = []      # (unit, line, impl_canon, inp)


def expected_full_affinity(spec, X, y):
    if spec["gemini"] == "precomputed":
        return "user", y
    if spec["gemini"] == "mmd_ova":
        return "linear", X @ X.T
    return "none", None


def judge(ctx, spec, X, y, out, pend, inp):
    """oracle on the real run + Lean request lines.  Returns True when the run was a normal (non-rejected) one."""
    n = len(X)
    log = out["log"]
    model = out["model"]
    cat = spec["model"] == "categorical"
    bs = None if cat else spec["bs"]
    dec = spec["decorated"]
    op = spec["op"]
    V = lambda msg, key, exp=None, act=None: ctx.violation(msg, op, inp, expected=exp, actual=act, key=key, how=HOW)

    invalid = (bs is not None and bs < 1) or spec["max_iter"] < 1
    if invalid:
        # correspondence only: the model rejects what `_validate_params` rejects
        impl = "InvalidParameterError" if (out["error"] is not None and type(out["error"]).__name__ == "InvalidParameterError"
                                           and not bl.calls_of(log)) else f"accepted-or-other:{type(out['error']).__name__}"
        pend.items.append(("reject", bl.fit_line(cat, n, spec["max_iter"], bs, []), impl, inp))
        ctx.count("rejected-hyperparameters")
        return False
    runaway = isinstance(out["error"], bl.Runaway)
    if out["error"] is not None and not runaway:
        e = out["error"]
        V(f"{op} raised {type(e).__name__}: {e}", f"{op}:raise:{type(e).__name__}")
        return False
    nviol0 = len(ctx.violations) + sum(v for k, v in ctx.counters.items() if k.startswith("violation:"))

    calls = bl.calls_of(log)
    perms = bl.perms_of(log)
    nb = 1 if (bs is None or cat) else bl.ceil_div(n, bs)

    # ---- full affinity handed to the batching (computed or user-supplied)
    kind, want_A = expected_full_affinity(spec, X, y)
    for ci, c in enumerate(calls):
        if not (c["X"].shape == X.shape and np.array_equal(c["X"], X)):
            V(f"epoch {ci}: _batchify did not receive the training data", "full-data")
            break
        if kind == "none":
            if c["A"] is not None:
                V(f"epoch {ci}: an affinity was computed for a GEMINI without affinity", "aff-full")
                break
        elif kind == "user":
            if c["A"] is None or not np.array_equal(c["A"], want_A):
                V(f"epoch {ci}: the affinity handed to the batches is not the user-supplied matrix", "aff-full")
                break
        else:
            if c["A"] is None or np.asarray(c["A"]).shape != (n, n) or not np.allclose(c["A"], want_A, rtol=1e-12, atol=1e-12):
                V(f"epoch {ci}: the affinity handed to the batches is not the linear kernel of the data", "aff-full")
                break

    # ---- every epoch: partition / size / block / recorded indices
    epochs_idx = []
    for ci, c in enumerate(calls):
        bad, seen = bl.oracle_epoch(X, c["A"], c, bs, cat, dec)
        for key, msg in bad:
            V(f"epoch {ci}: {msg}", f"epoch:{key}")
        epochs_idx.append([[(-1 if i is None else i) for i in b] for b in seen])
        if len(seen) >= 2:
            ctx.count("epochs-with>=2-batches")
    ctx.count("epochs", len(calls))
    ctx.count("batches", sum(len(e) for e in epochs_idx))

    if runaway:
        # the harness stopped the run; the epochs seen so far were judged above.  A runaway with clean epochs is a
        # time-out of the machinery, never a verdict.
        ctx.count("runaway-stopped")
        now = len(ctx.violations) + sum(v for k, v in ctx.counters.items() if k.startswith("violation:"))
        if now == nviol0:
            raise core.MachineryError(f"run stopped by the harness ({out['error']}) and no clause of C10 failed on the epochs seen: {spec}")
        return False

    # ---- steps
    upd = bl.n_updates(log)
    disc = bl.step_discipline(log)
    if disc:
        V(f"a yielded batch was followed by {disc[0]} optimiser steps instead of exactly 1", "steps:per-batch")
    if op == "fit":
        if len(calls) != spec["max_iter"]:
            V(f"fit ran {len(calls)} epochs, max_iter = {spec['max_iter']}", "fit:epochs", spec["max_iter"], len(calls))
        if upd != spec["max_iter"] * nb:
            V(f"fit made {upd} optimiser steps, expected max_iter*ceil(n/bs) = {spec['max_iter']}*{nb}", "fit:steps",
              spec["max_iter"] * nb, upd)
        if getattr(model, "n_iter_", None) != spec["max_iter"]:
            V(f"n_iter_ = {getattr(model, 'n_iter_', None)} after max_iter = {spec['max_iter']} epochs", "fit:n_iter_")
        lab = getattr(model, "labels_", None)
        if lab is None or np.asarray(lab).shape != (n,):
            V("fit did not produce labels_ for every training sample", "fit:labels_")
    else:
        T = len(out["path_out"][3])
        mi = spec["max_iter"]
        if upd != len(calls) * nb:
            V(f"path made {upd} optimiser steps over {len(calls)} epochs, expected {len(calls)}*{nb}", "path:steps", len(calls) * nb, upd)
        if not (mi + T <= len(calls) <= mi * (1 + T + 1)):
            V(f"path ran {len(calls)} epochs for max_iter={mi} and {T} path steps", "path:epochs")
        # validation sweeps (predict_proba on consecutive chunks of X): one after the initial fit, one at the start of every
        # path step, one after EVERY training epoch.  Each sweep is therefore preceded by 0 optimiser steps (start of a path step)
        # or by one full epoch of ceil(n/bs) steps, and  #sweeps = 1 + #path steps started + #epochs trained  with
        # #epochs trained = #optimiser steps of the path / ceil(n/bs)  and #path steps started = T (or T+1 after a NaN abort)
        runs, since, in_run, n_valx = [], 0, False, 0      # runs = maximal blocks of validation calls (sweeps back to back merge)
        for k, _ in log:
            if k == "val_x":
                n_valx += 1
                if not in_run:
                    runs.append(since)
                    since, in_run = 0, True
            elif k != "val_aff":        # the GEMINI calls of a sweep sit between its predict_proba calls
                in_run = False
                if k == "update":
                    since += 1
        fit_updates = runs[0] if runs else upd
        odd = [(i, u) for i, u in enumerate(runs[1:], start=1) if u != nb]
        if odd:
            V(f"between two validations path() made {odd[0][1]} optimiser steps instead of one epoch of {nb} "
              f"(block #{odd[0][0]})", "path:steps-per-epoch", nb, odd[0][1])
        elif runs and nb and n_valx % nb == 0:
            n_sweeps = n_valx // nb
            trained = (upd - fit_updates) // nb
            started = n_sweeps - 1 - trained
            if started not in (T, T + 1):
                V(f"path(): {n_sweeps} validation sweeps and {trained} trained epochs leave {started} sweeps for the start of path "
                  f"steps, but {T} steps were recorded: some epochs were validated without being trained", "path:epochs-without-training",
                  T, started)
        judge_val(ctx, spec, X, y, log, pend, inp, V)

    # ---- Lean requests
    if not cat and len(perms) != len(calls):
        ctx.corr_break("rng", inp, {"detail": f"{len(perms)} permutations drawn for {len(calls)} _batchify calls"})
    for p in perms:
        if sorted(p) != list(range(n)):
            V(f"RandomState.permutation({n}) returned {p}", "rng:not-a-permutation")
    if op == "fit":
        pend.items.append(("fit-trace", bl.fit_line(cat, n, spec["max_iter"], bs, perms),
                           bl.canon_fit(epochs_idx, upd, getattr(model, "n_iter_", None)), inp))
    else:
        for ci, c in enumerate(calls):
            if ci < len(perms):
                pend.items.append(("path-epoch-idx", "idx " + bl.opt(bs) + f" {n} " + " ".join(map(str, perms[ci])),
                                   "|".join(" ".join(map(str, b)) for b in epochs_idx[ci]) or "-", inp))
    kindname = (("cat" if cat else "") + ("dec" if dec else "")) or "plain"
    # data-level comparison for the first and the last epoch
    for ci in sorted({0, len(calls) - 1}):
        if 0 <= ci < len(calls) and (cat or ci < len(perms)):
            c = calls[ci]
            perm = list(range(n)) if cat else perms[ci]
            pend.items.append(("yield", bl.yield_line(kindname, bs, X, c["A"], perm), bl.canon_yields(c, dec), inp))
    return True


def judge_val(ctx, spec, X, y, log, pend, inp, V):
    """compute_val_score: consecutive blocks j:j+bs of the data and of a user-supplied affinity"""
    n = len(X)
    bsv = n if spec["bs"] is None else spec["bs"]
    nb = bl.ceil_div(n, bsv)
    ev = [(k, v) for k, v in log if k in ("val_x", "val_aff")]
    pairs = []
    if len(ev) % 2 != 0 or any(ev[i][0] != "val_x" or ev[i + 1][0] != "val_aff" for i in range(0, len(ev) - 1, 2)):
        V("validation: predict_proba / GEMINI evaluations are not paired", "val:pairing")
        return
    for i in range(0, len(ev), 2):
        pairs.append((ev[i][1], ev[i + 1][1]))
    if len(pairs) % nb != 0 or not pairs:
        V(f"validation evaluated {len(pairs)} blocks, not a multiple of ceil(n/bs) = {nb}", "val:count")
        return
    ctx.count("val-passes", len(pairs) // nb)
    # Lean: first pass (all passes are the same function of X, y, bs)
    blocks = "|".join(" ".join(str(i) for i in range(k * bsv, min((k + 1) * bsv, n))) for k in range(nb))
    if spec["gemini"] == "precomputed":
        impl = "blocks " + blocks + " batches " + " ; ".join(
            "X " + core.fl(xb) + " A " + ("None" if ab is None else core.fl(ab)) for xb, ab in pairs[:nb])
        pend.items.append(("val", bl.val_line(bsv, X, y), impl, inp))
    else:
        # only the row blocks are comparable (the affinity is recomputed per block by the GEMINI)
        got = "|".join(" ".join(str(i) for i in bl.rows_to_indices(X, xb)) for xb, _ in pairs[:nb])
        pend.items.append(("val-idx", "idx " + str(bsv) + f" {n} " + " ".join(map(str, range(n))), got, inp))
    linear = X @ X.T
    for p in range(len(pairs) // nb):
        for k in range(nb):
            xb, ab = pairs[p * nb + k]
            idx = list(range(k * bsv, min((k + 1) * bsv, n)))
            if xb.shape != (len(idx), X.shape[1]) or not np.array_equal(xb, X[idx]):
                V(f"validation pass {p} block {k}: data rows are not samples {idx[0]}..{idx[-1]}", "val:rows")
                return
            if spec["gemini"] == "precomputed":
                want = y[idx][:, idx]
                if ab is None or ab.shape != want.shape or not np.array_equal(ab, want):
                    V(f"validation pass {p} block {k}: affinity is not rows and columns {idx[0]}..{idx[-1]} of the supplied matrix", "val:aff-block")
                    return
            elif spec["gemini"] == "mmd_ova":
                want = linear[np.ix_(idx, idx)]
                if ab is None or ab.shape != want.shape or not np.allclose(ab, want, rtol=1e-12, atol=1e-12):
                    V(f"validation pass {p} block {k}: affinity is not the kernel of samples {idx[0]}..{idx[-1]}", "val:aff-block")
                    return
            elif ab is not None:
                V("validation: affinity delivered to a GEMINI without affinity", "val:aff-none")
                return


def flush(ctx, pend):
    lines = [it[1] for it in pend.items]
    try:
        outs = core.run_driver("Batch", lines)
    except core.DriverBuildError as e:
        ctx.proof["broken"].append({"theorem": "model build", "reason": str(e)[-400:]})
        return
    for (unit, line, impl, inp), o in zip(pend.items, outs):
        ctx.compared(unit)
        if o != impl:
            ctx.corr_break(unit, inp, {"impl": impl[:600], "model": o[:600], "request": line[:300]})
    pend.items = []


def one(ctx, rs, pend, model, gem, n, bs, decorated, op="fit", randomise=False, sample=False, bs_at_decoration="same"):
    spec = make_spec(rs, model, gem, n, bs, decorated, op, randomise)
    if bs_at_decoration != "same":
        spec["bs_at_decoration"] = bs_at_decoration
        ctx.count("batch_size changed by set_params after the decoration")
    X, y = bl.make_data(rs, n, d_for(rs, spec), gem)
    inp = {"spec": spec, "X": X.tolist(), "y": None if y is None else y.tolist()}
    out = bl.run_real(spec, X, y)
    ok = judge(ctx, spec, X, y, out, pend, inp)
    cat = model == "categorical"
    sc = shape_class(n, bs, cat)
    nb = 1 if (bs is None or cat or bs < 1) else bl.ceil_div(n, bs)
    ctx.case((model, gem, n, bs, decorated, op, spec["max_iter"], spec["seed"], X.tobytes()), ok and (nb >= 2 or cat),
             {"model": model, "gemini": gem, "n": n, "batch_size": bs, "decorated": decorated, "op": op,
              "max_iter": spec["max_iter"], "batches_per_epoch": nb} if sample else None)
    ctx.count("model:" + model)
    ctx.count("gemini:" + gem)
    ctx.count("shape:" + sc)
    ctx.count("decorated" if decorated else "plain")
    ctx.count("op:" + op)


def run(ctx):
    quick = ctx.tier == "quick"
    nmax_full = 8 if quick else 12
    ctx.rule = ("instrumented real fits/paths on tiny data with distinct rows; (n, batch_size) enumerated completely for n in 1..12, "
                "batch_size in 1..n+2 and None; per (n, batch_size): every model in {LinearModel, MLPModel, SparseLinearModel, SparseMLPModel, "
                "Douglas, CategoricalModel} x GEMINI in {mmd_ova (computed affinity), kl_ova (no affinity), MMD with a user-supplied "
                f"non-symmetric all-distinct precomputed matrix}} x {{plain, add_mlcl_constraint}} in full for n <= {nmax_full} and a seeded "
                "2-of-6 rotation of (GEMINI, decoration) above; max_iter in 1..3, adam/sgd; SparseLinearModel/SparseMLPModel.path runs; "
                "invalid batch_size/max_iter (model must reject as the code does); non-trivial = >= 2 batches per epoch or a nonparametric "
                "model (full-batch override); distinct = distinct (model, gemini, n, batch_size, decoration, op, max_iter, seed, data)")
    ctx.do_prove()
    if not quick and ctx.proof["build_ok"]:
        ok, lg = core.leanchecker(["GemVerif.Model.Batch", "GemVerif.Lemmas.Batch", "GemVerif.Props.C10"])
        ctx.extra["leanchecker"] = "ok" if ok else lg
        if not ok:
            ctx.proof["broken"].append({"theorem": "*", "reason": "leanchecker: " + lg[-300:]})
    rs = np.random.RandomState(ctx.seed * 7919 + 10)
    pend = Pending()
    combos = [(g, d) for g in bl.GEMINIS for d in (False, True)]
    nsamp = 0
    for n in range(1, 13):
        for bs in list(range(1, n + 3)) + [None]:
            for mi, model in enumerate(bl.MODELS):
                if n <= nmax_full:
                    todo = combos
                else:
                    k = int(rs.randint(0, 6))
                    todo = [combos[(k + mi) % 6], combos[(k + mi + 3) % 6]]
                for gem, dec in todo:
                    nsamp += 1
                    one(ctx, rs, pend, model, gem, n, bs, dec, "fit", randomise=(rs.rand() < 0.5), sample=(nsamp % 397 == 1))
        if len(pend.items) > 1500:
            flush(ctx, pend)
    ctx.exhaustive = True
    ctx.extra["exhaustive_over"] = "all (n, batch_size) with n in 1..12, batch_size in 1..n+2 or None, for every batched model class"
    # larger n, sampled (thorough)
    if not quick:
        for _ in range(1500):
            n = int(rs.randint(13, 41))
            bs = [None, 1, int(rs.randint(2, n)), int(rs.randint(2, n)), n, n + 1, n - 1][rs.randint(7)]
            model = bl.MODELS[rs.randint(len(bl.MODELS))]
            gem, dec = combos[rs.randint(6)]
            one(ctx, rs, pend, model, gem, n, bs, dec, "fit", randomise=True)
        flush(ctx, pend)
    # batch_size set AFTER the model was built / decorated (None -> k, k -> None, k -> k')
    for t in range(12 if quick else 120):
        model = ["linear", "mlp", "sparse_linear"][t % 3]
        n = int(rs.randint(5, 10))
        bs0, bs1 = [(None, int(rs.randint(1, n))), (int(rs.randint(1, n)), None), (int(rs.randint(1, n)), int(rs.randint(1, n + 2)))][t % 3]
        one(ctx, rs, pend, model, "mmd_ova", n, bs1, decorated=(t % 2 == 0), op="fit", randomise=True, bs_at_decoration=bs0)
    # path runs
    npath = 40 if quick else 800
    for t in range(npath):
        n = int(rs.randint(3, 13))
        bs = [None, 1, 2, 3, int(rs.randint(1, n + 3)), n, n + 1][rs.randint(7)]
        model = ("sparse_linear", "sparse_mlp")[t % 2] if not quick else ("sparse_linear" if t % 4 else "sparse_mlp")
        gem = bl.GEMINIS[rs.randint(3)]
        dec = rs.rand() < 0.25
        one(ctx, rs, pend, model, gem, n, bs, dec, "path", randomise=True, sample=(t == 0))
    # hyper-parameters outside the constraints: rejected by the code and by the model
    for model in bl.MODELS:
        for bs, mi in ((0, 2), (-1, 1), (2, 0), (3, -2)):
            if model == "categorical" and mi >= 1:
                continue
            spec = make_spec(rs, model, "mmd_ova", 5, bs, False)
            spec["max_iter"] = mi
            X, y = bl.make_data(rs, 5, 2, "mmd_ova")
            inp = {"spec": spec, "X": X.tolist(), "y": None}
            out = bl.run_real(spec, X, y)
            judge(ctx, spec, X, y, out, pend, inp)
            ctx.case(("invalid", model, bs, mi), False, None)
    flush(ctx, pend)
    ctx.trusted += ["numpy RandomState.permutation returns a permutation of range(n) (checked on every recorded draw)",
                    "scikit-learn optimisers: update_params is one optimiser step (only the number and order of calls is observed)",
                    "instrumentation: model._batchify, check_random_state, BaseOptimizer.update_params, predict_proba are wrapped in-process"]
    return ctx.finish()


def replay(ctx, path):
    rep = json.load(open(path))
    inp = rep.get("input") or {}
    if "spec" not in inp:
        print(f"replay {path}: no concrete input (kind={rep.get('kind')})")
        return 2
    spec = inp["spec"]
    X = np.array(inp["X"], dtype=float)
    y = None if inp.get("y") is None else np.array(inp["y"], dtype=float)
    ctx.proof = {"theorems": [], "discharged": [], "broken": [], "build_ok": True, "log": ""}
    pend = Pending()
    out = bl.run_real(spec, X, y)
    judge(ctx, spec, X, y, out, pend, inp)
    flush(ctx, pend)
    for v in ctx.violations:
        print(f"REPRODUCED {v['key']}: {v['what']}")
    for b in ctx.corr_breaks:
        print(f"MODEL-DISAGREES {b['unit']}: {json.dumps(b['detail'])[:400]}")
    if not ctx.violations and not ctx.corr_breaks:
        print("replay: the property holds on this input now")
    return 1 if (ctx.violations or ctx.corr_breaks) else 0
