"""C07 — the regularisation path honours its stopping, history and best-weights contract."""
import json
import math
import time

import numpy as np

from .. import core, fit_lib as fl, sparse_lib as sl

HOW = ("harness.props.c07.run_path(cfg, path_args) : real <estimator>(**params).path(X, y, **path_args) instrumented from outside "
       "(harness.sparse_lib.instrument); oracle: harness.props.c07.oracle ; re-run: ./check C07 --replay <this file>")
W_MULT, W_KEEP, W_MINF, W_MINGE = "alpha multiplier is lower", "threshold to keep the best", "min_features to stop", "greater or equal to the number of features"
W_RESTORE, W_PRECOMP = "restore_best_weights is incompatible", "incompatible with a precomputed metric"


def effective(pa):
    """the documented replacement of out-of-range arguments"""
    m = pa["alpha_multiplier"] if pa["alpha_multiplier"] > 1 else 1.05
    k = pa["keep_threshold"] if 0 <= pa["keep_threshold"] <= 1 else 0.9
    f = pa["min_features"] if pa["min_features"] > 0 else 2
    return m, k, f


def expected_calls(alpha0, lr, m, max_iter):
    """a generous prediction of how many `compute_val_score` calls a terminating path needs: the threshold alpha*lr grows
    by m per step; at 1e3 (weights are O(1)) every row is gone"""
    steps = math.ceil(math.log(max(1e3 / max(alpha0 * lr, 1e-300), 2.0)) / math.log(m)) + 2
    return steps * (max_iter + 1) + 1


def run_path(cfg, pa, budget=None, inject=None):
    """-> dict(outcome='ok'|'budget'|'raise', res, rec, warns, final, alpha_after, exc)"""
    fl.quiet()
    model = sl.build(cfg)
    rec = sl.Recorder()
    rec.keep_updates = False
    out = {"model": model, "rec": rec}
    X = np.array(cfg["X"], float)
    y = None if cfg["y"] is None else np.array(cfg["y"], float)
    try:
        with sl.instrument(model, rec, budget_calls=budget, inject_nan_at=inject):
            res, warns = sl.quiet_call(model.path, X, y, **pa)
        out.update(outcome="ok", res=res, warns=warns, final=sl._state(model), alpha_after=model.alpha)
    except sl.Budget:
        out.update(outcome="budget")
    except Exception as e:  # noqa
        out.update(outcome="raise", exc=e)
    return out


def nz_rows(W):
    """number of selected features as the estimators define it: rows whose Euclidean norm is not 0.  (A row of entries around
    1e-170 has a norm that underflows to 0: it counts as unselected here as it does in `_n_selected_features` — C07 is about
    the bookkeeping of that count, the meaning of selection is C06's subject.)"""
    return int((np.linalg.norm(np.asarray(W, dtype=float), axis=1, ord=2) != 0).sum())


def pen_of(W):
    return math.fsum(math.sqrt(math.fsum(float(x) * float(x) for x in row)) for row in np.asarray(W))


def same(a, b):
    return len(a) == len(b) and all(x.shape == y.shape and x.tobytes() == y.tobytes() for x, y in zip(a, b))


def skip_index(cfg):
    return 2 if sl.is_mlp(cfg["estimator"]) else 0


def oracle(ctx, cfg, pa, run, init, steps, inp):
    """the clauses of C07 read off the property text, on the real return tuple and the recorded snapshots.
    returns the number of violations"""
    nv = 0

    def bad(msg, key, expected=None, actual=None):
        nonlocal nv
        nv += 1
        ctx.violation(msg, "path", inp, expected=expected, actual=actual, key=key, how=HOW)
    bw, gem, pens, alphas, nfeat = run["res"]
    warns = run["warns"]
    d = np.asarray(cfg["X"]).shape[1]
    alpha0 = cfg["kw"]["alpha"]
    m, thr, minf = effective(pa)
    T = len(alphas)
    si = skip_index(cfg)
    # ---- four histories of equal length
    if not (len(gem) == len(pens) == len(alphas) == len(nfeat)):
        bad(f"history lengths differ: geminis {len(gem)}, penalties {len(pens)}, alphas {len(alphas)}, n_features {len(nfeat)}", "histories:length")
        return nv
    # ---- documented defaults, with a warning
    for cond, sub, what in ((pa["alpha_multiplier"] <= 1, W_MULT, "alpha_multiplier"),
                            (not (0 <= pa["keep_threshold"] <= 1), W_KEEP, "keep_threshold"),
                            (pa["min_features"] <= 0, W_MINF, "min_features")):
        got = any(sub in w for w in warns)
        if cond and not got:
            bad(f"out-of-range {what}={pa[what]} replaced without a warning", f"defaults:no-warning:{what}")
        if got and not cond:
            bad(f"in-range {what}={pa[what]} triggered the out-of-range warning", f"defaults:spurious-warning:{what}")
    # ---- alphas start at the model's alpha and grow by exactly alpha_multiplier
    if T:
        if core.fhex(alphas[0]) != core.fhex(alpha0):
            bad(f"alphas[0] = {alphas[0]!r}, the model's alpha is {alpha0!r}", "alphas:start", alpha0, alphas[0])
        for t in range(T - 1):
            if core.fhex(alphas[t + 1]) != core.fhex(alphas[t] * m):
                bad(f"alphas[{t + 1}] = {alphas[t + 1]!r} is not alphas[{t}] * {m} = {alphas[t] * m!r}", "alphas:ratio", alphas[t] * m, alphas[t + 1])
                break
    # ---- which steps completed (NaN abort = the score of the last epoch observed is nan)
    aborted = bool(steps) and bool(steps[-1]["epochs"]) and steps[-1]["epochs"][-1]["score"] != steps[-1]["epochs"][-1]["score"]
    done = steps[:-1] if aborted else steps
    if len(done) != T:
        bad(f"{T} recorded steps for {len(done)} completed steps (aborted on NaN: {aborted})", "histories:steps" if not aborted else "nan:appended")
        return nv
    snaps = [init["weights"]] + [s["epochs"][-1]["weights"] for s in done]
    # ---- each recorded feature count and penalty is that of the model at that step
    for t in range(T):
        W = snaps[t + 1][si]
        if nfeat[t] != nz_rows(W):
            bad(f"n_features[{t}] = {nfeat[t]} but the model had {nz_rows(W)} non-zero rows after step {t}", "histories:count", nz_rows(W), nfeat[t])
            break
        if not core.close(float(pens[t]), pen_of(W), rtol=1e-10):
            bad(f"group_penalties[{t}] = {pens[t]!r} but the model's penalty after step {t} is {pen_of(W)!r}", "histories:penalty", pen_of(W), float(pens[t]))
            break
    # ---- last feature count at most min_features unless aborted on NaN
    if not aborted:
        lastc = nfeat[-1] if T else nz_rows(init["weights"][si])
        if lastc > minf:
            bad(f"path stopped with {lastc} selected features > min_features = {minf} (no NaN abort)", "stop:count", f"<= {minf}", lastc)
    # ---- best weights: last step whose score reached keep_threshold * (best score seen with all features, initial fit included)
    B = init["score"]
    acc = 0
    Bs = []
    for t in range(T):
        if gem[t] >= B and nfeat[t] == d:
            B = gem[t]
        Bs.append(B)
        if gem[t] >= thr * B:
            acc = t + 1
    # the other reading (global best over all-features steps): how often would it differ?
    allf = [init["score"]] + [gem[t] for t in range(T) if nfeat[t] == d]
    Bglob = max(allf)
    acc_glob = 0
    for t in range(T):
        if gem[t] >= thr * Bglob:
            acc_glob = t + 1
    if acc_glob != acc:
        ctx.count("reading: global-best reading would pick another step")
    if len(bw) != len(snaps[acc]) or not same(bw, snaps[acc]):
        ids = [k for k, s in enumerate(snaps) if same(bw, s)]
        bad(f"best_weights are not the weights after step {acc} (0 = initial fit), the last step with score >= {thr} * running best; "
            f"they equal the snapshots {ids}", "best:weights", acc, ids)
    ctx.count("best = initial fit" if acc == 0 else ("best = last step" if acc == T else "best = intermediate step"))
    # ---- restoration
    dyn = bool(cfg["kw"].get("dynamic", False))
    last_state = (steps[-1]["epochs"][-1]["weights"] if steps and steps[-1]["epochs"] else
                  (steps[-1]["val"]["weights"] if steps else init["weights"]))
    if pa["restore_best_weights"] and not dyn:
        if not same(run["final"], bw):
            bad("restore_best_weights=True on a non-dynamic model: the estimator's weights are not the returned best weights", "restore:state")
        ctx.count("restored")
    else:
        if not same(run["final"], last_state):
            bad("no restoration requested/possible, yet the estimator's weights are not those of the last path step", "restore:unexpected")
        if pa["restore_best_weights"] and dyn and not any(W_RESTORE in w for w in warns):
            bad("restore_best_weights ignored in dynamic mode without the documented warning", "restore:no-warning")
    return nv


def compare_model(ctx, cfg, pa, run, init, steps, ans, inp):
    """exact comparison of `_path`'s bookkeeping with the Lean model run on the recorded trace"""
    m = sl.parse_path_answer(ans)
    bw, gem, pens, alphas, nfeat = run["res"]
    warns = run["warns"]
    aborted = bool(steps) and bool(steps[-1]["epochs"]) and steps[-1]["epochs"][-1]["score"] != steps[-1]["epochs"][-1]["score"]
    diffs = []
    if m["exit"] != ("nanAbort" if aborted else "normal"):
        diffs.append(("exit", "nanAbort" if aborted else "normal", m["exit"]))
    if m["steps"] != [len(s["epochs"]) for s in steps]:
        diffs.append(("epochs per step", [len(s["epochs"]) for s in steps], m["steps"]))
    for name, real, mod in (("alphas", [sl.hx(a) for a in alphas], m["alphas"]), ("n_features", [int(x) for x in nfeat], m["nfeat"]),
                            ("geminis", [sl.hx(g) for g in gem], m["geminis"]), ("penalties", [sl.hx(p) for p in pens], m["pens"])):
        if real != mod:
            diffs.append((name, real, mod))
    snaps = [init["weights"]] + [(s["epochs"][-1] if s["epochs"] else s["val"])["weights"] for s in steps]
    if not (m["best"] < len(snaps) and same(bw, snaps[m["best"]])):
        diffs.append(("best_weights", [k for k, s in enumerate(snaps) if same(bw, s)], m["best"]))
    if not (m["final"] < len(snaps) and same(run["final"], snaps[m["final"]])):
        diffs.append(("final estimator weights", [k for k, s in enumerate(snaps) if same(run["final"], s)], m["final"]))
    if sl.hx(run["alpha_after"]) != m["clfalpha"]:
        diffs.append(("clf.alpha after path", sl.hx(run["alpha_after"]), m["clfalpha"]))
    real_warn = "".join("1" if any(sub in w for w in warns) else "0" for sub in (W_MULT, W_KEEP, W_MINF, W_MINGE, W_RESTORE, W_PRECOMP))
    if real_warn != m["warn"]:
        diffs.append(("warnings", real_warn, m["warn"]))
    # the values `_path` read from `_n_selected_features()`: while-test, append, (short-circuited) best-score test
    exp = [init["nsel"]]
    B = init["score"]
    d = np.asarray(cfg["X"]).shape[1]
    for t in range(min(len(alphas), len(nfeat), len(gem))):   # malformed histories are the oracle's business, not a crash
        c = int(nfeat[t])
        exp += [c]
        if gem[t] >= B:
            exp += [c]
            if c == d:
                B = gem[t]
        exp += [c]
    # how OFTEN `_path` asks is not behaviour (the count is a pure function of the weights; a refactoring may keep it in a local):
    # compared are the successive distinct values it was given
    def runs(v):
        return [x for k, x in enumerate(v) if k == 0 or x != v[k - 1]]
    if runs(run["rec"].nsel) != runs(exp):
        diffs.append(("_n_selected_features() values seen by _path (successive distinct values)", runs(exp), runs(run["rec"].nsel)))
    if sl.hx(B) != m["bestscore"]:
        diffs.append(("best_gemini_score", sl.hx(B), m["bestscore"]))
    ctx.compared("path-bookkeeping")
    if diffs:
        ctx.corr_break("path-bookkeeping", inp, {"differences": [{"what": a, "impl": b, "model": c} for a, b, c in diffs[:4]]})
    # per-call consistency of the trace itself: l1 = penalty * clf.alpha, clf.alpha = the path's alpha
    for t, s in enumerate(steps):
        for c in [s["val"]] + s["epochs"]:
            a_t = alphas[t] if t < len(alphas) else (alphas[-1] * effective(pa)[0] if alphas else cfg["kw"]["alpha"])
            if sl.hx(c["alpha"]) != sl.hx(a_t) or sl.hx(c["l1"]) != sl.hx(c["pen"] * c["alpha"]):
                ctx.corr_break("trace:l1", inp, {"step": t, "clf.alpha": c["alpha"], "path alpha": a_t, "l1": c["l1"], "pen": c["pen"]})
                return


def alpha0_probe(ctx, seed):
    """`alpha = 0` passes validation; `alpha *= m` keeps 0, so nothing ever pushes features out.  Bounded run:
    budget = 100 x the calls the same configuration needs with alpha = 5."""
    rs = np.random.RandomState(seed * 31 + 7)
    X = fl.small_data(rs, 8, 3)
    kw = dict(n_clusters=2, learning_rate=0.5, max_iter=2, random_state=0, alpha=5.0)
    pa = dict(alpha_multiplier=2.0, min_features=2, max_patience=1)
    cfg = {"estimator": "SparseLinearModel", "kw": kw, "X": X, "y": None}
    t0 = time.time()
    ref = run_path(cfg, pa, budget=5000)
    nref = len(ref["rec"].calls)
    if ref["outcome"] != "ok":
        ctx.notes.append(f"alpha=0 probe: reference run with alpha=5 ended with {ref['outcome']}")
        return
    cfg0 = {**cfg, "kw": {**kw, "alpha": 0.0}}
    budget = 100 * nref
    r0 = run_path(cfg0, pa, budget=budget)
    ctx.case(("alpha0-probe", X.tobytes()), True, None)
    ctx.extra["alpha0_probe"] = {"reference_calls_alpha5": nref, "budget": budget, "outcome": r0["outcome"],
                                 "calls": len(r0["rec"].calls), "wall_s": round(time.time() - t0, 2)}
    if r0["outcome"] == "budget":
        inp = sl.cfg_json(cfg0, pa)
        inp["alpha"] = 0.0
        calls = r0["rec"].calls
        ctx.violation(f"path() with alpha=0 (accepted by validation) did not terminate within {budget} compute_val_score calls "
                      f"(= 100 x the {nref} calls of the same run with alpha=5); selected features stayed at "
                      f"{calls[-1]['nsel']} with clf.alpha = {calls[-1]['alpha']}", "path", inp,
                      expected=f"termination (<= {nref} calls with alpha=5)", actual=f"> {budget} calls, still running",
                      key="path:alpha0-nonterminating", how=HOW)
    elif r0["outcome"] == "raise":
        ctx.violation(f"path() with alpha=0 raised {type(r0['exc']).__name__}: {r0['exc']}", "path", sl.cfg_json(cfg0, pa),
                      key=f"path:raise:{type(r0['exc']).__name__}", how=HOW)
    else:
        ctx.count("alpha0 path terminated")


def classify_raise(cfg, pa, e, rec):
    msg = str(e)
    if isinstance(e, ValueError) and "0 feature(s)" in msg and cfg["kw"].get("dynamic"):
        return "path:dynamic-empty-selection-raises"
    return f"path:raise:{type(e).__name__}"


def one_case(ctx, cfg, pa, inject, lines, pending, sample):
    d = np.asarray(cfg["X"]).shape[1]
    m, thr, minf = effective(pa)
    budget = 100 * expected_calls(cfg["kw"]["alpha"], cfg["kw"]["learning_rate"], m, cfg["kw"]["max_iter"])
    inp = sl.cfg_json(cfg, pa)
    if inject is not None:
        inp["injected_nan_at_compute_val_score_call"] = inject
    run = run_path(cfg, pa, budget=budget, inject=inject)
    canon = (cfg["estimator"], json.dumps(inp["params"], sort_keys=True, default=str), json.dumps(pa, sort_keys=True),
             np.asarray(cfg["X"]).tobytes(), inject)
    if run["outcome"] == "budget":
        ctx.case(canon, True, None)
        ctx.violation(f"path() exceeded {budget} compute_val_score calls (100 x the predicted need)", "path", inp,
                      key="path:budget-exceeded", how=HOW)
        return
    if run["outcome"] == "raise":
        e = run["exc"]
        ctx.case(canon, True, None)
        if isinstance(e, UnboundLocalError) and pa.get("max_patience", 10) <= 0:
            # max_patience <= 0 is outside the documented domain: no verdict, but the model must say the same
            # (`iteration_gemini_score` read before assignment) and `clf.alpha` must be restored by the `finally`
            ctx.count("out of scope: max_patience <= 0 -> UnboundLocalError (modelled as unboundScore)")
            if run["rec"].calls:
                init, steps = sl.segment(run["rec"].calls)
                lines.append(sl.path_line(d, cfg["kw"]["max_iter"], cfg["kw"]["alpha"], pa, bool(cfg["kw"].get("dynamic", False)),
                                          cfg["y"] is not None, init, steps))
                pending.append((cfg, pa, {"unbound": True, "alpha_after": run["model"].alpha}, init, steps, inp))
            return
        ctx.count(f"path raised {type(e).__name__}")
        ctx.violation(f"path() raised {type(e).__name__}: {str(e)[:300]}", "path", inp, key=classify_raise(cfg, pa, e, run["rec"]), how=HOW)
        return
    init, steps = sl.segment(run["rec"].calls)
    T = len(run["res"][3])
    ctx.case(canon, T >= 1, sample({"estimator": cfg["estimator"], "params": {k: v for k, v in cfg["kw"].items()}, "path_args": pa,
                                    "n": len(cfg["X"]), "d": d, "steps": T, "n_features": [int(x) for x in run["res"][4]]}))
    ctx.count(f"family:{cfg['estimator']}")
    ctx.count("steps:" + ("0" if T == 0 else "1" if T == 1 else "2-5" if T <= 5 else "6+"))
    if cfg["kw"].get("dynamic"):
        ctx.count("dynamic")
    if cfg["y"] is not None:
        ctx.count("precomputed affinity")
    if any(len(s["epochs"]) < cfg["kw"]["max_iter"] for s in steps):
        ctx.count("early stopping fired")
    if steps and steps[-1]["epochs"] and steps[-1]["epochs"][-1]["score"] != steps[-1]["epochs"][-1]["score"]:
        ctx.count("nan abort" + (" (injected)" if inject is not None else " (genuine)"))
    if pa["alpha_multiplier"] <= 1 or not (0 <= pa["keep_threshold"] <= 1) or pa["min_features"] <= 0:
        ctx.count("out-of-range argument")
    if run["alpha_after"] != cfg["kw"]["alpha"]:
        ctx.count("side effect (see C12): clf.alpha changed by path" + (" to 0" if run["alpha_after"] == 0 else ""))
    else:
        ctx.count("clf.alpha back at its initial value after path")
    if init is None:
        ctx.corr_break("path-trace", inp, "path() finished without a single compute_val_score call: the initial fit was not scored the way "
                                          "the steps are (the model of _path starts from that call)")
        return
    oracle(ctx, cfg, pa, run, init, steps, inp)
    lines.append(sl.path_line(d, cfg["kw"]["max_iter"], cfg["kw"]["alpha"], pa, bool(cfg["kw"].get("dynamic", False)),
                              cfg["y"] is not None, init, steps))
    pending.append((cfg, pa, run, init, steps, inp))


def run(ctx):
    fl.quiet()
    ctx.rule = ("real path() runs of SparseLinearModel/MMD/MI and SparseMLPModel/MMD on 6..12 x 2..6 blobs (15% with a zero column) x 13 "
                "GEMINIs / MMD ova,ovo x kernels linear,rbf,precomputed x alpha .01..50 x lr .05..5 x max_iter 2..8 x adam,sgd x batch "
                "sizes None,2,3,n-1,n x dynamic x groups None/partial/partition x M; path args: multiplier 1.25..3 and out-of-range "
                "{1, .5, -2}, min_features 1..3 and {0,-1,d-1,d,d+1}, keep_threshold {0,.5,.9,.99,1} and {-.1,1.5,7}, "
                "early_stopping_factor {.5,.9,.99,1}, max_patience {1,2,3,10}, restore on/off; 15% of runs with a NaN score injected at "
                "a random compute_val_score call.  Every run is recorded from outside and its trace replayed through the Lean model "
                "(bit-exact floats).  Non-trivial = the path recorded >= 1 step; distinct = hash of all inputs.")
    ctx.do_prove()
    quick = ctx.tier == "quick"
    rs = np.random.RandomState(ctx.seed * 7919 + 7)
    alpha0_probe(ctx, ctx.seed)
    npaths = 160 if quick else 1500
    lines, pending = [], []
    k = [0]

    def sample(s):
        k[0] += 1
        return s if k[0] % 9 == 1 else None
    t0 = time.time()
    for it in range(npaths):
        cfg = sl.gen_config(rs, True, quick, family=sl.SPARSE[it % len(sl.SPARSE)])
        d = cfg["X"].shape[1]
        pa = sl.gen_path_args(rs, d)
        if cfg["kw"]["alpha"] < 0.1 and (pa["alpha_multiplier"] <= 1.3):
            pa["alpha_multiplier"] = 2.0        # keep tiny-alpha x slow-growth paths out of the quick budget
        inject = int(rs.randint(1, 14)) if rs.rand() < 0.15 else None
        one_case(ctx, cfg, pa, inject, lines, pending, sample)
        if quick and time.time() - t0 > 40:
            ctx.notes.append(f"quick tier: stopped generating after {it + 1} paths (time box)")
            break
    # mini-batches with a demanding keep_threshold: the reference best score (initial fit included) and the scores of the steps are
    # the SAME kind of number (the block-wise validation score), so a step just above keep_threshold * best is kept
    for it in range(20 if quick else 100):
        cfg = sl.gen_config(rs, True, quick, family=sl.SPARSE[it % len(sl.SPARSE)])
        n = len(cfg["X"])
        cfg["kw"]["batch_size"] = int(rs.choice([2, 3, max(2, n // 2)]))
        cfg["kw"]["alpha"] = float(rs.choice([0.02, 0.05, 0.2]))     # several steps keep every feature, with scores close to the initial one
        if "dynamic" in cfg["kw"]:
            cfg["kw"]["dynamic"] = False
        pa = dict(alpha_multiplier=float(rs.choice([1.5, 2.0])), min_features=1, keep_threshold=float(rs.choice([1.0, 0.995, 0.99])),
                  early_stopping_factor=0.99, max_patience=int(rs.choice([1, 2])), restore_best_weights=True)
        ctx.count("dedicated:mini-batch x keep_threshold~1")
        one_case(ctx, cfg, pa, None, lines, pending, sample)
    # outside the documented domain, model-only: max_patience = 0
    cfg = sl.gen_config(rs, True, quick, family="SparseLinearModel")
    cfg["kw"]["dynamic"] = False
    pa = dict(alpha_multiplier=2.0, min_features=1, keep_threshold=0.9, early_stopping_factor=0.99, max_patience=0, restore_best_weights=True)
    one_case(ctx, cfg, pa, None, lines, pending, sample)
    try:
        answers = core.run_driver("Path", lines)
    except core.DriverBuildError as e:
        ctx.proof["broken"].append({"theorem": "model build", "reason": str(e)[-400:]})
        answers = []
    for (cfg, pa, run_, init, steps, inp), ans in zip(pending, answers):
        if run_.get("unbound"):
            ctx.compared("path-unbound")
            m = sl.parse_path_answer(ans)
            if m["exit"] != "unboundScore" or m["clfalpha"] != sl.hx(run_["alpha_after"]):
                ctx.corr_break("path-unbound", inp, {"impl": ["UnboundLocalError", sl.hx(run_["alpha_after"])], "model": ans[:200]})
            continue
        try:
            compare_model(ctx, cfg, pa, run_, init, steps, ans, inp)
        except (IndexError, KeyError, ValueError) as e:
            ctx.corr_break("path-bookkeeping", inp, {"comparison failed": f"{type(e).__name__}: {e}"})
    ctx.notes.append("outer-loop termination is proved only under the stated hypothesis on the observed counts (path_terminates_if_count_drops_partial); "
                     "alpha = 0 keeps alpha*m^t = 0 (alpha_zero_stays_zero) and is reported by the bounded probe")
    ctx.assumptions.append("the trace recorded by wrapping compute_val_score/_update_weights/_n_selected_features is what _path observed "
                           "(checked: l1 = penalty*clf.alpha per call, sequence of _n_selected_features() values)")
    return ctx.finish()


def replay(ctx, path):
    rep = json.load(open(path))
    inp = rep.get("input")
    if not isinstance(inp, dict) or "estimator" not in inp:
        print(f"replay {path}: kind={rep.get('kind')} (nothing to re-run: {json.dumps(rep)[:400]})")
        return 1
    fl.quiet()
    cfg = {"estimator": inp["estimator"], "kw": inp["params"], "X": np.array(inp["X"], float),
           "y": None if inp.get("y") is None else np.array(inp["y"], float)}
    pa = inp.get("path_args", {})
    full = dict(alpha_multiplier=1.05, min_features=2, keep_threshold=0.9, early_stopping_factor=0.99, max_patience=10, restore_best_weights=True)
    full.update(pa)
    m, _, _ = effective(full)
    a0 = cfg["kw"].get("alpha", 1e-2)
    budget = 100 * expected_calls(a0, cfg["kw"].get("learning_rate", 1e-3), m, cfg["kw"].get("max_iter", 1000)) if a0 > 0 else 3000
    run_ = run_path(cfg, pa, budget=budget, inject=inp.get("injected_nan_at_compute_val_score_call"))
    print("outcome:", run_["outcome"], "compute_val_score calls:", len(run_["rec"].calls))
    if run_["outcome"] == "budget":
        print(f"VIOLATION path() still running after {budget} compute_val_score calls")
        return 1
    if run_["outcome"] == "raise":
        print("VIOLATION path() raised", type(run_["exc"]).__name__, run_["exc"])
        return 1
    init, steps = sl.segment(run_["rec"].calls)
    n = oracle(ctx, cfg, full, run_, init, steps, inp)
    for v in ctx.violations:
        print("VIOLATION", v["what"])
    print("oracle verdict:", "violated" if n else "held")
    return 1 if n else 0
