"""C02 — GEMINI gradients are the exact derivative of the returned score."""
import numpy as np

from .. import core, gemini_lib as gl
from . import c01


def dir_derivative(g, P, A, W, eps_step=(2e-4, 1e-4)):
    """Richardson-extrapolated central difference of t -> score(softmax(log P + t W)); also one-sided slopes"""
    Z = np.log(P)
    f = lambda t: float(g.evaluate(gl.softmax(Z + t * W), A))
    h1, h2 = eps_step
    d1 = (f(h1) - f(-h1)) / (2 * h1)
    d2 = (f(h2) - f(-h2)) / (2 * h2)
    rich = (4 * d2 - d1) / 3
    f0 = f(0.0)
    right = (f(h2) - f0) / h2
    left = (f0 - f(-h2)) / h2
    return rich, left, right, abs(d1 - d2)


SCALES = ((2e-4, 1e-4), (2e-5, 1e-5), (2e-6, 1e-6))


def judge_direction(g, P, A, W, an, s, unit=1.0):
    """-> ('ok' | 'kink' | 'mismatch' | 'error', best estimate).  The analytic value `an` is accepted as soon as ONE step size
    gives agreeing one-sided slopes and a central difference equal to it: piecewise-smooth scores (TV, Wasserstein, MMD at zero
    distances) may have kinks INSIDE a coarse difference stencil although the score is differentiable at the point itself
    (seen on tv_ovo, regime onehot1e-3: kinks at |t| ~ 3e-5).  A wrong gradient disagrees at every step size."""
    verdict, est = "kink", None
    if type(g).__name__ == "MMDGEMINI" and gl.mmd_conditioning(P, A, bool(g.ovo)) < 1e-6:
        # the double-precision SCORE is noise at this point (a distance^2 of 1e-16*scale under the square root): its
        # difference quotients are not the derivative (checked in 60-digit arithmetic on mmd_ova, n=3, regime onehot1e-6,
        # random symmetric kernel: analytic -7.68e-7, exact -7.74e-7, double-precision quotient -3.87e-7)
        return "illconditioned", None
    for steps in SCALES:
        try:
            rich, left, right, spread = dir_derivative(g, P, A, W, steps)
        except Exception:
            return "error", None
        # `unit` = natural magnitude of the score (c01.score_unit): every absolute term is taken relative to it
        if abs(left - right) > 1e-3 * max(abs(left), abs(right), 1e-9 * unit) + 1e-7 * unit * (1e-4 / steps[1]):
            continue
        scale = max(abs(an), abs(rich), 1e-6 * max(unit, abs(s)))
        # rounding of the score enters a difference quotient as ~1e-16*|s|/h
        if abs(an - rich) <= 2e-5 * scale + 10 * spread + 1e-9 * unit + 4e-16 * max(unit, abs(s)) / steps[1]:
            return "ok", rich
        verdict, est = "mismatch", (rich if est is None else est)
    return verdict, est


def run(ctx):
    ctx.rule = ("12 configurations x shapes n in 1..8, K in 2..6 x simplex regimes (soft ... near one-hot 1e-6; 1e-9 for the "
                "model correspondence only) x kernels/metrics; directions: random logit directions W (so P stays on the simplex); "
                "points where left and right slopes differ (TV kinks, OT basis changes, MMD zero distances) are counted and skipped; "
                "non-trivial = gradient not identically zero")
    c01.regen(ctx)          # Gen/Geminis.lean (and the registry) follow the current source before the theorems are re-checked
    ctx.do_prove()
    eps = 1e-12
    depth = 10 if ctx.tier == "quick" else 300
    rs = np.random.RandomState(ctx.seed * 7919 + 2)
    cs = c01.cases(ctx, depth)
    # the same MMD / Wasserstein cases with affinities of other magnitudes (the property holds for every kernel and metric:
    # a threshold with an ABSOLUTE tolerance inside the gradient code shows up only far from magnitude 1)
    scaled = []
    for (cls, ovo, n, K, regime, kind, P, A) in cs:
        if cls in ("mmd", "wass") and len(scaled) < (8 if ctx.tier == "quick" else 60) and rs.rand() < 0.5:
            mag = float(rs.choice([1e-16, 1e-8, 1e6]) if cls == "mmd" else rs.choice([1e-6, 1e4]))
            scaled.append((cls, ovo, n, K, regime, f"{kind}*{mag:g}", P, A * mag))
    cs = cs + scaled
    def sweep(cs, eps):
        lines, impl, recs = [], [], []
        how = "gemclus.gemini.<Class>(...).evaluate(P, A, return_grad=True)[1] vs central differences through softmax(log P + tW)"
        for (cls, ovo, n, K, regime, kind, P, A) in cs:
            try:
                (s, G), calls = gl.impl_eval(cls, ovo, eps, P, A, grad=True)
                s0, _ = gl.impl_eval(cls, ovo, eps, P, A, grad=False)
            except Exception as e:
                impl.append(e)
                lines.append(None)
                continue
            impl.append((float(s), np.asarray(G, float), float(s0)))
            emd = gl.emd_tables_or_none(calls, n, K, ovo) if cls == "wass" else None
            if cls == "wass" and emd is None:
                ctx.corr_break("grad:wass:pot-calls", {"config": f"wass_{'ovo' if ovo else 'ova'}", "n": n, "K": K},
                               f"{len(calls or [])} ot.emd2 calls recorded: not the calls the model is parameterised by")
                lines.append(None)
                continue
            lines.append(gl.model_line("grad", cls, ovo, eps, P, A, emd))
        try:
            outs = iter(core.run_driver("Gemini", [l for l in lines if l is not None]))
            outs = [next(outs) if l is not None else None for l in lines]
        except core.DriverBuildError as e:
            ctx.proof["broken"].append({"theorem": "model build", "reason": str(e)[-400:]})
            outs = [None] * len(lines)
        for (cls, ovo, n, K, regime, kind, P, A), r, o in zip(cs, impl, outs):
            cfg = f"{cls}_{'ovo' if ovo else 'ova'}"
            desc = {"config": cfg, "n": n, "K": K, "regime": regime, "affinity": kind}
            inp = {**desc, "P": P.tolist(), "A": None if A is None else A.tolist(), "epsilon": eps}
            if isinstance(r, Exception):
                ctx.case((cfg, P.tobytes()), False, None)
                ctx.violation(f"evaluate(return_grad=True) raised {type(r).__name__}: {r}", "grad", inp, key=f"raise:{cfg}", how=how)
                continue
            s, G, s0 = r
            ctx.case((cfg, P.tobytes(), None if A is None else A.tobytes()), bool(np.abs(G).max() > 0), {**desc, "P": P.round(6).tolist()})
            ctx.count("cfg:" + cfg)
            if G.shape != P.shape:
                ctx.violation(f"gradient shape {G.shape} != predictions shape {P.shape}", "grad", inp, key=f"shape:{cfg}", how=how)
                continue
            if s != s0 and not (s != s and s0 != s0):
                ctx.violation(f"score with return_grad ({s}) differs from score without ({s0})", "grad", inp, key=f"score-path:{cfg}", how=how)
            if o is not None and cls == "mmd" and gl.mmd_conditioning(P, A, ovo, eps) < 1e-6:
                ctx.count("illconditioned_not_compared:mmd-near-zero-distance")
            elif o is not None:
                m = [core.unhex(x) for x in o.split()]
                ctx.compared("grad:" + cfg)
                if not core.close_vec(G.ravel().tolist(), m, rtol=1e-7):
                    ctx.corr_break("grad:" + cfg, inp, {"impl": G.ravel().tolist(), "model": m})
            # numeric derivative oracle
            if regime == "onehot1e-9":
                continue
            g = gl.real_gemini(cls, ovo, eps)
            for _ in range(2):
                W = rs.randn(n, K)
                dP = P * (W - (P * W).sum(1, keepdims=True))
                an = float((G * dP).sum())
                verdict, rich = judge_direction(g, P, A, W, an, s, c01.score_unit(cls, A))
                if verdict == "error":
                    ctx.count("oracle_error")
                    continue
                if verdict == "illconditioned":
                    ctx.count("illconditioned_skipped:mmd-near-zero-distance")
                    continue
                if verdict == "kink":
                    ctx.count("nondifferentiable_skipped:" + cls)
                    continue
                ctx.count("derivative_checked")
                if verdict == "mismatch":
                    ctx.violation(f"<grad, dP> = {an!r} but the score's directional derivative is {rich!r} (at every step size "
                                  f"with agreeing one-sided slopes)", "grad",
                                  {**inp, "W": W.tolist()}, expected=rich, actual=an, key=f"derivative:{cfg}", how=how)
                    break
    sweep(cs, eps)
    # the same for a clipping bound that really bites (epsilon = 1e-2, 1e-3) on predictions with saturated rows: clipped entries
    # have zero gradient, the others must still carry the derivative of the score computed on the CLIPPED predictions
    big = [c for c in cs if c[4] in ("sharp", "onehot1e-3", "onehot1e-6", "dirichlet") and "*" not in c[5]]
    for e2 in (1e-2, 1e-3):
        sel = [big[i] for i in rs.permutation(len(big))[: (12 if ctx.tier == "quick" else 120)]]
        # every configuration at least twice on predictions that MIX soft rows with saturated ones (entries below the bound)
        for cls, ovo in gl.CONFIGS:
            for _ in range(2 if ctx.tier == "quick" else 10):
                n, K = int(rs.randint(5, 8)), int(rs.randint(2, 4))
                P = gl.gen_P(rs, n, K, "soft")
                sat = gl.gen_P(rs, n, K, "onehot1e-3")
                rows = rs.rand(n) < 0.5
                rows[0], rows[-1] = True, False
                P[rows] = sat[rows]
                A = None
                kind = ""
                if cls == "mmd":
                    kind = "rbf"; A = gl.gen_affinity(rs, n, kind)
                if cls == "wass":
                    kind = "euclidean"; A = gl.gen_affinity(rs, n, kind)
                sel.append((cls, ovo, n, K, "mixed-saturated", kind, P, A))
        ctx.count(f"epsilon={e2:g}:cases", len(sel))
        sweep(sel, e2)
    # one object, several inputs: the gradient returned at each step is the derivative of the score AT THAT INPUT
    for (cls, ovo, P, A, r, hist) in c01.reuse_sequences(ctx, eps, grad=True):
        if r is None:
            continue
        cfg = f"{cls}_{'ovo' if ovo else 'ova'}"
        G = np.asarray(r[1], float)
        g = gl.real_gemini(cls, ovo, eps)
        n, K = P.shape
        for _ in range(2):
            W = rs.randn(n, K)
            dP = P * (W - (P * W).sum(1, keepdims=True))
            an = float((G * dP).sum())
            verdict, rich = judge_direction(g, P, A, W, an, float(r[0]), c01.score_unit(cls, A))
            if verdict == "error":
                ctx.count("oracle_error")
                continue
            if verdict == "illconditioned":
                ctx.count("illconditioned_skipped:mmd-near-zero-distance")
                continue
            if verdict == "kink":
                ctx.count("nondifferentiable_skipped:" + cls)
                continue
            ctx.count("derivative_checked:reuse")
            if verdict == "mismatch":
                ctx.violation(f"evaluation number {len(hist)} on one object: <grad, dP> = {an!r} but the score's directional "
                              f"derivative at that input is {rich!r}", "grad:reuse", {"config": cfg, "sequence": hist, "W": W.tolist()},
                              expected=rich, actual=an, key=f"derivative-reuse:{cfg}",
                              how="one gemclus.gemini.<Class> object evaluated (return_grad=True) on the listed inputs in order")
                break
    # clipped entries receive zero gradient (closed simplex rows with exact 0/1 entries)
    how = "gemclus.gemini.<Class>(ovo, epsilon, kernel/metric='precomputed').evaluate(P, A, return_grad=True)"
    for cls, ovo in gl.CONFIGS:
        cfg = f"{cls}_{'ovo' if ovo else 'ova'}"
        n, K = 5, 3
        P = gl.gen_P(rs, n, K, "soft")
        P[0] = [1.0, 0.0, 0.0]
        P[1] = [0.0, 1 - 1e-13, 1e-13]
        A = gl.gen_affinity(rs, n, "rbf" if cls == "mmd" else "euclidean") if cls in ("mmd", "wass") else None
        try:
            (s, G), _ = gl.impl_eval(cls, ovo, eps, P, A, grad=True)
        except Exception as e:
            ctx.violation(f"evaluate raised on a closed-simplex P: {type(e).__name__}: {e}", "grad", {"config": cfg, "P": P.tolist()}, key=f"raise-closed:{cfg}", how=how)
            continue
        ctx.compared("clipped-zero:" + cfg)
        G = np.asarray(G)
        if not (G[0] == 0).all() or not (G[1] == 0).all():
            ctx.violation("entries clipped at the epsilon bounds received a non-zero gradient", "grad",
                          {"config": cfg, "P": P.tolist(), "A": None if A is None else A.tolist()}, actual=G[:2].tolist(), key=f"clipped:{cfg}", how=how)
        # the same predictions in other memory layouts (column-major, a transposed view, a strided view): the gradient is a function of the
        # VALUES of P, so it must be the same array of numbers, clipped entries included
        wide = np.zeros((n, 2 * K)); wide[:, ::2] = P
        for lname, Pl in (("fortran", np.asfortranarray(P)), ("transposed-view", np.ascontiguousarray(P.T).T), ("strided", wide[:, ::2])):
            try:
                gobj = gl.real_gemini(cls, ovo, eps)
                _, Gl = gobj.evaluate(Pl, A if cls in ("mmd", "wass") else None, return_grad=True)
            except Exception as e:
                ctx.violation(f"evaluate raised on a {lname} prediction matrix: {type(e).__name__}: {e}", "grad",
                              {"config": cfg, "layout": lname, "P": P.tolist()}, key=f"raise-layout:{cfg}", how=how)
                continue
            ctx.compared("layout:" + cfg)
            Gl = np.asarray(Gl, float)
            if Gl.shape != G.shape or not np.allclose(Gl, G, rtol=1e-9, atol=1e-12 * max(1.0, float(np.abs(G).max()))):
                ctx.violation(f"the gradient depends on the memory layout of the predictions ({lname}): clipped rows get {Gl[:2].tolist()}", "grad",
                              {"config": cfg, "layout": lname, "P": P.tolist(), "A": None if A is None else A.tolist()},
                              expected=G[:2].tolist(), actual=Gl[:2].tolist(), key=f"layout:{cfg}", how=how)
                break
    # the same clause for objectives built with a NON-default epsilon (seeded change C02-13: one class clipped at the default bound
    # whatever epsilon it was given): entries outside [epsilon, 1 - epsilon] — not clipped at 1e-12 — must have exactly zero gradient
    for e2 in (1e-3, 1e-2):
        for cls, ovo in gl.CONFIGS:
            cfg = f"{cls}_{'ovo' if ovo else 'ova'}"
            n, K = 6, 3
            P = gl.gen_P(rs, n, K, "soft")
            P[0] = [1 - 2e-6, 1e-6, 1e-6]
            P[1] = [e2 / 4, 1 - e2 / 2, e2 / 4]
            P[2] = [0.5, 0.5 - e2 / 10, e2 / 10]
            A = gl.gen_affinity(rs, n, "rbf" if cls == "mmd" else "euclidean") if cls in ("mmd", "wass") else None
            try:
                (s, G), _ = gl.impl_eval(cls, ovo, e2, P, A, grad=True)
            except Exception as e:
                ctx.violation(f"evaluate raised with epsilon={e2:g}: {type(e).__name__}: {e}", "grad", {"config": cfg, "P": P.tolist(), "epsilon": e2},
                              key=f"raise-eps:{cfg}", how=how)
                continue
            ctx.compared("clipped-zero-eps:" + cfg)
            G = np.asarray(G, float)
            out = (P < e2) | (P > 1 - e2)
            if G.shape != P.shape or (G[out] != 0).any():
                ctx.violation(f"entries clipped at the bounds of epsilon={e2:g} received a non-zero gradient", "grad",
                              {"config": cfg, "epsilon": e2, "P": P.tolist(), "A": None if A is None else A.tolist()},
                              expected="G[(P < epsilon) | (P > 1 - epsilon)] == 0", actual=G[:3].tolist() if G.shape == P.shape else list(G.shape),
                              key=f"clipped-eps:{cfg}", how=how)
    # another objective created in between (with another epsilon) is none of this object's business: score and gradient of the FIRST
    # object must still be those of its own epsilon
    for cls, ovo in gl.CONFIGS:
        cfg = f"{cls}_{'ovo' if ovo else 'ova'}"
        n, K = int(rs.randint(5, 8)), int(rs.randint(2, 4))
        P = gl.gen_P(rs, n, K, "soft")
        sat = gl.gen_P(rs, n, K, "onehot1e-3")
        P[: n // 2] = sat[: n // 2]
        A = gl.gen_affinity(rs, n, "rbf" if cls == "mmd" else "euclidean") if cls in ("mmd", "wass") else None
        g = gl.real_gemini(cls, ovo, eps)
        decoys = [gl.real_gemini(c2, o2, 1e-2) for c2, o2 in (("tv", False), (cls, ovo))]
        try:
            s, G = g.evaluate(P.copy(), A, return_grad=True)
        except Exception as e:
            ctx.violation(f"evaluate raised after another objective was created: {type(e).__name__}: {e}", "grad", {"config": cfg, "P": P.tolist()},
                          key=f"raise-decoy:{cfg}", how=how)
            continue
        try:
            spec = gl.spec_score(cls, ovo, np.clip(P, eps, 1 - eps), A)
        except RuntimeError:
            spec = None
        ctx.compared("decoy:" + cfg)
        if spec is not None and not core.close(float(s), spec, rtol=c01.score_tol(cls, A) * 10, atol=c01.score_tol(cls, A) * 10):
            ctx.violation(f"score {float(s)!r} of an object with epsilon={eps:g} after objectives with epsilon=0.01 were created; its definition gives {spec!r}",
                          "grad", {"config": cfg, "P": P.tolist(), "A": None if A is None else A.tolist(), "decoy_epsilon": 1e-2}, expected=spec, actual=float(s),
                          key=f"decoy-score:{cfg}", how="g = <Class>(epsilon=1e-12); <Other>(epsilon=1e-2); g.evaluate(P, A, return_grad=True)")
            continue
        G = np.asarray(G, float)
        for _ in range(2):
            W = rs.randn(n, K)
            dP = P * (W - (P * W).sum(1, keepdims=True))
            an = float((G * dP).sum())
            verdict, rich = judge_direction(g, P, A, W, an, float(s), c01.score_unit(cls, A))
            if verdict == "mismatch":
                ctx.violation(f"after objectives with another epsilon were created: <grad, dP> = {an!r} but the score's directional derivative is {rich!r}",
                              "grad", {"config": cfg, "P": P.tolist(), "A": None if A is None else A.tolist(), "W": W.tolist(), "decoy_epsilon": 1e-2},
                              expected=rich, actual=an, key=f"decoy-derivative:{cfg}",
                              how="g = <Class>(epsilon=1e-12); <Other>(epsilon=1e-2); g.evaluate(P, A, return_grad=True)")
                break
        del decoys
    return ctx.finish()
