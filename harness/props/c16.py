"""C16 — invalid hyperparameters and malformed inputs are rejected, never trained on."""
import copy
import inspect

import numpy as np

from .. import core, fit_lib, constraints_lib as cl
from translator import constraints as tr
from translator.tables import TranslationFailure

PRIME = 7919


def regen(ctx):
    try:
        data, text = tr.constraints()
    except TranslationFailure as e:
        ctx.extra["translation_failure"] = f"constraints: {e}"
        return None
    changed = core.write_if_changed(core.LEAN + "/GemVerif/Gen/Constraints.lean", text)
    ctx.translation = {"units": ["every _parameter_constraints / @constraint_params table, Kauri leaf/split test, Douglas "
                                 "mask-length test, check_groups -> Gen/Constraints.lean"],
                       "regenerated": 1, "identical_to_committed": not changed}
    return data


def _split(line):
    return [x for x in line.split(" ; ") if x.strip()]


def _vkey(v):
    return cl.value_token(v).replace(" ", "=") if v[0] != "str" else f"str={v[1]!r}"


def _exc(e):
    return None if e is None else f"{type(e).__name__}: {str(e)[:160]}"


class Sweep:
    """one (owner, param, value) triple evaluated on the real code, the Lean model and the documented domains"""

    def __init__(self, ctx, unvalidated):
        self.ctx = ctx
        self.unvalidated = unvalidated

    def judge(self, owner, param, v, label, obj, verdict, res, how):
        """oracle written from the property statement: `res` is what the real fit / call did"""
        ctx = self.ctx
        inp = {"owner": owner, "param": param, "value": cl.value_repr(v), "realised_as": label, "documented": verdict}
        who = f"{owner}({param}={label}:{cl.value_repr(v)})"
        vk = _vkey(v)
        if res["outcome"] == "timeout":
            ctx.violation(f"{who}: no answer within the time limit", "sweep", inp, expected="accept or reject",
                          actual="timeout", key=f"timeout:{param}:{vk}", how=how)
            return
        raised = res["outcome"] == "raise"
        if verdict == "unspec" and v[0] == "gemini":
            # an object that is merely callable handed over as a kernel: what happens inside the user's callable is the
            # user's business (any exception type, at whatever point of fit it is first called) — counted, not judged
            ctx.count("call:opaque-callable-" + ("raised" if raised else "ran"))
            return
        if verdict == "in" and raised:
            ctx.violation(f"{who} is inside the documented domain and is rejected: {_exc(res['exc'])}", "sweep", inp,
                          expected="accepted", actual=_exc(res["exc"]), key=f"false-reject:{param}:{vk}", how=how)
            return
        if verdict == "out" and not raised:
            ctx.violation(f"{who} is outside the documented domain and is accepted (trained on / executed)", "sweep", inp,
                          expected="ValueError/TypeError", actual="completed", key=f"false-accept:{param}:{vk}", how=how)
            return
        if raised:
            if not res["family"]:
                ctx.violation(f"{who} is rejected with {_exc(res['exc'])}, not a ValueError/TypeError", "sweep", inp,
                              expected="ValueError/TypeError family", actual=_exc(res["exc"]),
                              key=f"wrong-exception:{param}:{vk}", how=how)
            if res.get("learned"):
                ctx.violation(f"{who} is rejected ({type(res['exc']).__name__}) but leaves {res['learned']} on the estimator",
                              "sweep", inp, expected="no fitted model", actual=res["learned"],
                              key=f"model-after-reject:{param}:{vk}", how=how)


def run(ctx):
    ctx.rule = ("every (owner, parameter) of the 18 estimators, 7 GEMINI constructors and 7 decorated functions x every "
                "representative value exported by the Lean Spec (every Python type; just-inside / on / just-outside every "
                "extracted and documented bound; every option of every string set, unknown and wrongly-cased strings; None) "
                "x its concrete realisations (int/np.int64, float/np.float64/np.float32, ...); table level = the real "
                "validator objects vs `Model.accepts` on the regenerated table; call level = real fit(max_iter=1) / call vs "
                "the documented domains.  check_groups: all lists of <=2 groups of length <=3 and of <=3 groups of length <=2 "
                "with indices in -1..4 on d in 0..4 features (quick tier: <=2 groups of length <=2 and single groups of "
                "length <=3), each against the Lean model and the documented behaviour.  Every fit / call runs in a forked "
                "worker so that a crash of the interpreter is reported as a finding.  A case is non-trivial when the value is not of a type that "
                "no constraint of that parameter could accept trivially (i.e. a constraint of the row inspects it); "
                "distinct = distinct (owner, param, value, realisation)")
    ctx.trusted += [
        "scikit-learn's validators (`Interval`, `StrOptions`, `_InstancesOf`, `_RandomStates`, `_ArrayLikes`, `check_array`, "
        "`validate_data`, `check_is_fitted`) are modelled (`Model.Constraints.satisfies`), not verified; the model is compared "
        "with the installed validator objects on every (parameter, value, realisation) of every run",
        "members of scikit-learn's PAIRWISE_KERNEL_FUNCTIONS / PAIRWISE_DISTANCE_FUNCTIONS / PAIRED_DISTANCES are listed in "
        "Model/Constraints.lean and compared with the installed scikit-learn on every run",
        "translator/constraints.py (ast -> Gen/Constraints.lean) is validated by the table-level correspondence and by the "
        "signature / table-key comparison with the live classes",
        "documented domains (Lemmas/Constraints.lean, `Spec.Constraints.documented`) are a hand reading of the docstrings; "
        "values the docstrings do not settle (bool for an int/float, numpy.bool_ for a bool, bare callables, a few boundary "
        "points) are `unspecified` and only required to end cleanly"]
    ctx.assumptions += ["representative values stand for their class: each class is realised by 1-3 concrete Python objects",
                        "fit is run on one 12x3 non-negative data set with max_iter=1; integers above 1000 are not run through "
                        "fit / the generators (table level only), except as seeds"]
    import time
    t0 = time.time()
    phases = ctx.extra.setdefault("phase_seconds", {})

    def mark(name):
        nonlocal t0
        phases[name] = round(time.time() - t0, 1)
        t0 = time.time()
    fit_lib.quiet()
    data = regen(ctx)
    ctx.do_prove()
    mark("regenerate+prove")
    if data is None:
        # the tables could not be translated (the tie is broken and reported): the oracles that need no table still search
        # for a failing input — group lists, consistency tests, malformed data, use before fit (the Lean side of their
        # comparisons is then the model of the PREVIOUS source: a disagreement there is one more broken correspondence)
        try:
            X = cl.tiny_X(ctx.seed)
            rs = np.random.RandomState(ctx.seed * PRIME + 1)
            tail_parts(ctx, X, rs, fit_lib.estimators(), mark)
        except core.DriverBuildError as e:
            ctx.proof["broken"].append({"theorem": "model build", "reason": str(e)[-600:]})
        return ctx.finish()
    try:
        meta = core.run_driver("Constraints", ["universe", "keys", "dockeys", "dead", "late", "known", "unval"])
    except core.DriverBuildError as e:
        ctx.proof["broken"].append({"theorem": "model build", "reason": str(e)[-600:]})
        return ctx.finish()
    universe = [cl.parse_value(t) for t in _split(meta[0])]
    keys = [tuple(k.split()) for k in _split(meta[1])]
    dockeys = [tuple(k.split()) for k in _split(meta[2])]
    late = [(t.split()[0], t.split()[1], cl.parse_value(" ".join(t.split()[2:]))) for t in _split(meta[4])]
    known = [(t.split()[0], t.split()[1], cl.parse_value(" ".join(t.split()[2:]))) for t in _split(meta[5])]
    unval = [tuple(k.split()) for k in _split(meta[6])]
    ctx.extra["universe_size"] = len(universe)
    ctx.extra["late_rejected_entries"] = len(late)
    ctx.extra["known_deviation_entries"] = len(known)

    ests = fit_lib.estimators()
    funcs = cl.functions()

    # ---------------------------------------------------------------- static facts: translator vs live objects
    static_checks(ctx, data, ests, funcs, keys, dockeys)

    # ---------------------------------------------------------------- the sweep
    X = cl.tiny_X(ctx.seed)
    rs = np.random.RandomState(ctx.seed * PRIME + 1)
    triples = [(o, p, v) for (o, p) in keys for v in universe]
    lines = [f"acc {o} {p} {cl.value_token(v)}" for o, p, v in triples] + \
            [f"doc {o} {p} {cl.value_token(v)}" for o, p, v in triples]
    mark("meta+static")
    outs = core.run_driver("Constraints", lines)
    mark("driver(acc+doc)")
    acc = dict(zip(triples, outs[:len(triples)]))
    doc = dict(zip(triples, outs[len(triples):]))
    jobs = []
    for owner in sorted({o for o, _ in keys}):
        if owner not in ests and owner not in funcs:
            ctx.corr_break("tables", {"owner": owner}, "owner of a translated table is not a public estimator / function of the harness")
            continue
        cases = []
        for (o, p, v) in triples:
            if o != owner:
                continue
            verdict, model_acc = doc[(o, p, v)], acc[(o, p, v)]
            if model_acc == "nokey" or verdict == "nodoc":
                ctx.corr_break("tables", {"owner": o, "param": p}, {"model": model_acc, "doc": verdict})
                continue
            run_call = not cl.is_huge(v, p) and (ctx.tier != "quick" or _selected(rs, v, verdict, model_acc))
            cases.append((p, v, verdict, model_acc, run_call, (o, p, v) in late, (o, p, v) in known))
        jobs.append((owner, sweep_owner, (owner, cases, X)))
    cl.isolated(ctx, jobs)
    for (o, p, v) in late:
        if not ctx.counters.get(f"late-entry:{o}:{p}:{cl.value_token(v)}"):
            ctx.corr_break("lateRejected", {"entry": [o, p, cl.value_repr(v)]}, "entry was not exercised on the real code")
    for (o, p, v) in known:
        if not ctx.counters.get(f"known-entry:{o}:{p}:{cl.value_token(v)}"):
            ctx.corr_break("knownDeviations", {"entry": [o, p, cl.value_repr(v)]}, "entry was not exercised on the real code")
    mark("sweep")
    tail_parts(ctx, X, rs, ests, mark)
    return ctx.finish()


def tail_parts(ctx, X, rs, ests, mark):
    # ---------------------------------------------------------------- scalar tests, groups, data, before-fit
    grid = [(l, s) for l in range(1, 7) for s in range(2, 13)]
    scalar_outs = core.run_driver("Constraints", [f"kauri {l} {s}" for l, s in grid] + [f"mask {m} {cl.N_FEATURES}" for m in range(0, 7)])
    check_groups_part(ctx)
    mark("check_groups")
    sparse = [n for n in ests if n.startswith("Sparse")]
    cl.isolated(ctx, [("defaults", defaults_fit, (X,)),
                      ("kauri+mask", kauri_and_mask, (X, grid, scalar_outs))]
                + [("groups-through-fit:" + n, groups_through_fit, (n, X, int(rs.randint(2 ** 31)))) for n in sparse]
                + [("groups-content", groups_content, (X,)), ("precomputed", precomputed_without_affinity, (X,)),
                   ("malformed-data", malformed_data, ()), ("before-fit", before_fit, (X,))])
    mark("kauri+mask, groups, data, before-fit")


def sweep_owner(ctx, o, cases, X):
    """worker (forked): every (param, value, realisation) of one owner on the real code"""
    ests = fit_lib.estimators()
    funcs = cl.functions()
    is_est = o in ests
    sweep = Sweep(ctx, [])
    for (p, v, verdict, model_acc, run_call, in_late, in_known) in cases:
        try:
            reals = cl.realise(v, o, p)
        except Exception as e:     # noqa
            ctx.corr_break("realise", {"owner": o, "param": p, "value": cl.value_repr(v)}, repr(e))
            continue
        # a value whose type no constraint of the row looks at is a trivial case
        nontrivial = v[0] in ("int", "float", "posinf", "neginf", "nan", "bool", "npbool", "str", "none") or model_acc == "1" \
            or verdict != "out"
        for label, obj in reals:
            ctx.case((o, p, cl.value_token(v), label), nontrivial,
                     {"owner": o, "param": p, "value": cl.value_repr(v), "as": label, "documented": verdict, "model_accepts": model_acc})
            ctx.count(f"doc:{verdict}")
            # ---- table level: the real validator objects vs the Lean model on the regenerated table
            try:
                real_acc = cl.table_accepts_estimator(ests[o], p, obj) if is_est else cl.table_accepts_function(funcs[o][0], p, obj)
            except Exception as e:     # noqa
                ctx.corr_break("table:" + o, {"owner": o, "param": p, "value": cl.value_repr(v), "as": label}, f"validator raised {e!r}")
                continue
            ctx.compared("table:" + ("estimators" if is_est else "functions"))
            ctx.count("table:accept" if real_acc else "table:reject")
            if real_acc != (model_acc == "1"):
                ctx.corr_break("table:" + o, {"owner": o, "param": p, "value": cl.value_repr(v), "as": label},
                               {"real_validator_accepts": real_acc, "model_accepts": model_acc})
            # ---- call level: what does fit / the call do, and is that what the documentation promises
            if cl.is_huge(v, p):
                ctx.count("call:skipped-huge")
                continue
            if not run_call:
                ctx.count("call:not-sampled(quick)")
                continue
            how = (f"{o}(**{{{p!r}: <{label} {cl.value_repr(v)}>}}).fit(X 12x3)" if is_est
                   else f"{o}(..., {p}=<{label} {cl.value_repr(v)}>)")
            ctx.mark(how)
            if is_est:
                res = cl.fit_estimator(o, ests[o], p, obj, X)
            else:
                res = cl.call_function(funcs[o][0], funcs[o][1], p, obj)
                if res["outcome"] == "base-failed":
                    ctx.violation(f"{o}: the well-formed reference call cannot be built: {_exc(res['exc'])}", "sweep",
                                  {"owner": o}, expected="a default configuration works", actual=_exc(res["exc"]),
                                  key=f"reference-call-failed:{o}", how=how)
                    continue
                # the decorator must be what rejects exactly the values its table rejects
                if res["outcome"] == "raise" and cl.rejected_by_decorator(res["exc"], p) == real_acc and o not in ("gstm", "celeux_one", "celeux_two"):
                    ctx.corr_break("decorator:" + o, {"owner": o, "param": p, "value": cl.value_repr(v)},
                                   {"table_accepts": real_acc, "raised": _exc(res["exc"])})
            ctx.compared("call:" + ("fit" if is_est else "function"))
            ctx.count(f"call:{res['outcome']}")
            if res["outcome"] == "raise":
                ctx.count("exc:" + type(res["exc"]).__name__)
            sweep.judge(o, p, v, label, obj, verdict, res, how)
            if in_late:
                ctx.count(f"late-entry:{o}:{p}:{cl.value_token(v)}")
                ok = real_acc and res["outcome"] == "raise" and res["family"]
                ctx.count("lateRejected:confirmed" if ok else "lateRejected:NOT-confirmed")
                if not real_acc:
                    ctx.corr_break("lateRejected", {"owner": o, "param": p, "value": cl.value_repr(v)},
                                   "listed as passing the table, but the real table rejects it")
            if in_known:
                ctx.count(f"known-entry:{o}:{p}:{cl.value_token(v)}")
                still = (not real_acc) and verdict == "in"
                ctx.count("knownDeviation:still-present" if still else "knownDeviation:GONE")
                if not still:
                    ctx.corr_break("knownDeviations", {"owner": o, "param": p, "value": cl.value_repr(v)},
                                   "listed as a deviation of the current code, but the real table now accepts it: remove the entry")
    if not is_est:
        # second pass over the decorated function, in the same process, AFTER every value of the sweep (valid ones included)
        # has been seen once: validation has no memory, so each value must meet the same fate as on a first call
        # (an equal-comparing value of the wrong type — 0 for False, 1.0 for 1 — after a valid one is the classic failure)
        for (p, v, verdict, model_acc, run_call, in_late, in_known) in cases:
            if not run_call or cl.is_huge(v, p):
                continue
            try:
                reals = cl.realise(v, o, p)
            except Exception:     # noqa
                continue
            for label, obj in reals:
                how = f"{o}(..., {p}=<{label} {cl.value_repr(v)}>) called again after the whole sweep of {o} in the same process"
                res = cl.call_function(funcs[o][0], funcs[o][1], p, obj)
                if res["outcome"] == "base-failed":
                    continue
                ctx.compared("call:function:second-pass")
                sweep.judge(o, p, v, label, obj, verdict, res, how)


def _selected(rs, v, verdict, model_acc):
    """quick tier: every value some constraint accepts or the documentation does not exclude is run through fit;
    of the plainly rejected ones (out of domain AND rejected by the table) one in three is run"""
    if verdict != "out" or model_acc == "1":
        return True
    return rs.rand() < 1.0 / 3.0


# ------------------------------------------------------------------------------------------------------------------
def static_checks(ctx, data, ests, funcs, keys, dockeys):
    # the translated tables cover exactly the public estimators and the decorated functions the harness knows
    if sorted(data["estimators"]) != sorted(ests):
        ctx.corr_break("tables", {}, {"translated_estimators": sorted(data["estimators"]), "live": sorted(ests)})
    if sorted(data["functions"]) != sorted(funcs):
        ctx.corr_break("tables", {}, {"translated_functions": sorted(data["functions"]), "live": sorted(funcs)})
    # parameters: translated signature = live signature
    for o, cls in ests.items():
        live = [p for p in inspect.signature(cls.__init__).parameters if p != "self"]
        ctx.compared("signature")
        if list(data["estimators"].get(o, {}).get("params", {})) != live:
            ctx.corr_break("signature", {"owner": o}, {"translated": list(data["estimators"].get(o, {}).get("params", {})), "live": live})
        # resolved table keys = live class attribute keys
        tkeys = sorted(k for k, c in data["estimators"][o]["params"].items() if c is not None) + data["estimators"][o]["unused_keys"]
        if sorted(tkeys) != sorted(cls._parameter_constraints):
            ctx.corr_break("table-keys", {"owner": o}, {"translated": sorted(tkeys), "live": sorted(cls._parameter_constraints)})
    for o, (fn, _) in funcs.items():
        target = fn.__init__ if inspect.isclass(fn) else fn
        live = [p for p in inspect.signature(target).parameters if p != "self"]
        ctx.compared("signature")
        if list(data["functions"].get(o, {})) != live:
            ctx.corr_break("signature", {"owner": o}, {"translated": list(data["functions"].get(o, {})), "live": live})
    # documented keys = translated keys (also a Lean theorem; here it guards the harness itself)
    if sorted(keys) != sorted(dockeys):
        ctx.corr_break("doc-keys", {}, {"only_in_tables": sorted(set(keys) - set(dockeys)), "only_in_doc": sorted(set(dockeys) - set(keys))})
    # scikit-learn's string sets as listed in the Lean model
    from sklearn.metrics import pairwise as pw
    live_sets = {"PAIRWISE_KERNEL_FUNCTIONS": sorted(pw.PAIRWISE_KERNEL_FUNCTIONS), "PAIRWISE_DISTANCE_FUNCTIONS": sorted(pw.PAIRWISE_DISTANCE_FUNCTIONS),
                 "PAIRED_DISTANCES": sorted(pw.PAIRED_DISTANCES)}
    import re
    src = open(core.LEAN + "/GemVerif/Model/Constraints.lean").read()
    for nm, live in live_sets.items():
        m = re.search(r'\("' + nm + r'",\s*\[([^\]]*)\]\)', src)
        got = sorted(re.findall(r'"([^"]*)"', m.group(1))) if m else None
        ctx.compared("sklearn-sets")
        if got != live:
            ctx.corr_break("sklearn-sets", {"set": nm}, {"model": got, "live": live})
    from gemclus.gemini import AVAILABLE_GEMINIS
    if sorted(data["named_sets"].get("AVAILABLE_GEMINIS", [])) != sorted(AVAILABLE_GEMINIS):
        ctx.corr_break("named-sets", {}, {"translated": data["named_sets"], "live": AVAILABLE_GEMINIS})
    # decorator keys that name no parameter validate nothing: static defect of the table (reported, not a violation
    # by itself: the consequences are judged by the sweep on the unvalidated parameters)
    ctx.extra["dead_decorator_keys"] = [list(k) for k in data["dead_keys"]]
    ctx.extra["unvalidated_parameters"] = sorted([o, p] for o, d in data["estimators"].items() for p, c in d["params"].items() if c is None) + \
        sorted([o, p] for o, d in data["functions"].items() for p, c in d.items() if c is None)


def _mark(ctx, desc):
    m = getattr(ctx, "mark", None)
    if m is not None:
        m(desc)


def defaults_fit(ctx, X):
    """the reference point of every sweep: each estimator fits with its default hyperparameters"""
    for name, cls in fit_lib.estimators().items():
        how = f"{name}(max_iter=1).fit(X 12x3)" if name != "Kauri" else "Kauri().fit(X 12x3)"
        _mark(ctx, how)
        res = cl.fit_estimator(name, cls, "verbose", False, X)
        ctx.case(("defaults", name), True, None)
        ctx.compared("defaults")
        if res["outcome"] != "ok":
            ctx.violation(f"{how}: the default configuration is rejected: {_exc(res['exc'])}", "defaults", {"owner": name},
                          expected="fit completes", actual=_exc(res["exc"]), key=f"defaults-rejected:{name}", how=how)


def kauri_and_mask(ctx, X, grid, outs):
    ests = fit_lib.estimators()
    for (l, s), o in zip(grid, outs):
        _mark(ctx, f"Kauri(min_samples_leaf={l}, min_samples_split={s}).fit(X 12x3)")
        res = cl.fit_estimator("KauriPair", ests["Kauri"], "min_samples_split", s, X, extra={"min_samples_leaf": l})
        raised = res["outcome"] == "raise"
        ctx.case(("kauri", l, s), True, None)
        ctx.compared("kauri-inequality")
        ctx.count("kauri:reject" if raised else "kauri:accept")
        inp = {"min_samples_leaf": l, "min_samples_split": s}
        if raised != (o == "1"):
            ctx.corr_break("kauri-inequality", inp, {"real_raises": raised, "model_rejects": o})
        want = 2 * l > s       # documented: "the logical constraint min_samples_leaf*2 <= min_samples_split must be satisfied"
        how = f"Kauri(min_samples_leaf={l}, min_samples_split={s}).fit(X 12x3)"
        if raised != want:
            ctx.violation(f"Kauri(min_samples_leaf={l}, min_samples_split={s}): documented {'rejection' if want else 'acceptance'}, "
                          f"got {'rejection ' + _exc(res['exc']) if raised else 'acceptance'}", "kauri-inequality", inp,
                          expected="reject" if want else "accept", actual=_exc(res["exc"]) or "accepted", key="kauri-inequality", how=how)
        elif raised and (not res["family"] or res["learned"]):
            ctx.violation(f"Kauri(min_samples_leaf={l}, min_samples_split={s}) rejected with {_exc(res['exc'])}, leaving {res['learned']}",
                          "kauri-inequality", inp, expected="ValueError, no tree_", actual=[_exc(res["exc"]), res["learned"]],
                          key="kauri-inequality:unclean", how=how)
    for m, o in zip(range(0, 7), outs[len(grid):]):
        for dtype, mask in (("bool", np.ones(m, dtype=bool)), ("bool-mixed", np.array([True, False] * 4)[:m])):
            if m and not mask.any():
                continue
            _mark(ctx, f"Douglas(feature_mask=<{dtype} mask of length {m}>).fit(X 12x3)")
            res = cl.fit_estimator("Douglas", ests["Douglas"], "feature_mask", mask, X)
            raised = res["outcome"] == "raise"
            ctx.case(("mask", m, dtype), True, None)
            ctx.compared("douglas-mask")
            ctx.count("mask:reject" if raised else "mask:accept")
            inp = {"mask_length": m, "n_features": cl.N_FEATURES, "mask": mask.tolist()}
            if raised != (o == "1"):
                ctx.corr_break("douglas-mask", inp, {"real_raises": raised, "model_rejects": o, "exc": _exc(res["exc"])})
            want = m != cl.N_FEATURES      # documented: "array of boolean [shape d]"
            how = f"Douglas(feature_mask=np.array({mask.tolist()}), max_iter=1).fit(X 12x3)"
            if raised != want:
                ctx.violation(f"Douglas mask of length {m} on {cl.N_FEATURES} features: documented {'rejection' if want else 'acceptance'}, got "
                              f"{_exc(res['exc']) or 'acceptance'}", "douglas-mask", inp, expected="reject" if want else "accept",
                              actual=_exc(res["exc"]) or "accepted", key="douglas-mask", how=how)
            elif raised and (not res["family"] or res["learned"]):
                ctx.violation(f"Douglas mask of length {m}: rejected with {_exc(res['exc'])}, leaving {res['learned']}", "douglas-mask", inp,
                              expected="ValueError, no fitted model", actual=[_exc(res["exc"]), res["learned"]], key="douglas-mask:unclean", how=how)


def _parse_groups(ans):
    t = ans.split()[1:]
    if t == ["none"]:
        return None
    m, pos, out = int(t[0]), 1, []
    for _ in range(m):
        l = int(t[pos])
        out.append([int(x) for x in t[pos + 1: pos + 1 + l]])
        pos += 1 + l
    return out


def check_groups_part(ctx):
    if ctx.tier == "quick":
        spaces, ds = [(2, 2), (1, 3)], [0, 1, 2, 3, 4]
        ctx.extra["check_groups_space"] = "quick: all lists of <=2 groups of length <=2 and the single groups of length <=3, indices -1..4, d in 0..4"
    else:
        spaces, ds = [(2, 3), (3, 2)], [0, 1, 2, 3, 4]
        ctx.extra["check_groups_space"] = "all lists of <=2 groups of length <=3 and of <=3 groups of length <=2, indices -1..4, d in 0..4"
    seen = set()
    cases = [(d, None) for d in ds]
    for mg, ml in spaces:
        for g in cl.group_lists(mg, ml):
            key = repr(g)
            if key in seen:
                continue
            seen.add(key)
            for d in ds:
                cases.append((d, g))
    outs = core.run_driver("Constraints", [cl.cg_line(d, g) for d, g in cases])
    nbreak = nviol = 0
    for (d, g), model in zip(cases, outs):
        real, obj = cl.cg_real(g, d)
        ctx.evaluations += 1
        spec = cl.cg_spec(g, d)
        if spec[0] == "ok" and g:
            ctx.nontrivial.add(("cg", d, repr(g)).__repr__())
        ctx.count("cg:" + (real.split("_")[0] if real.startswith("err") else "ok"))
        inp = {"groups": g, "n_features_in": d}
        if real != model and nbreak < 20:
            nbreak += 1
            ctx.corr_break("check_groups", inp, {"real": real, "model": model})
        how = f"gemclus.sparse._base_sparse.check_groups({g!r}, {d})"
        if spec[0] == "ok":
            if real.startswith("err") or (obj if obj is None else [list(map(int, x)) for x in obj]) != spec[1]:
                nviol += 1
                if nviol <= 20:
                    ctx.violation(f"check_groups({g!r}, {d}): a legal partial group list; documented result {spec[1]!r}, got {real}",
                                  "check_groups", inp, expected=spec[1], actual=real,
                                  key="check_groups:false-reject" if real.startswith("err") else "check_groups:wrong-result", how=how)
        else:
            if not real.startswith("err"):
                nviol += 1
                if nviol <= 20:
                    ctx.violation(f"check_groups({g!r}, {d}): overlapping or out-of-range groups are accepted: {real}", "check_groups", inp,
                                  expected="ValueError", actual=real, key="check_groups:false-accept", how=how)
            elif not cl.family(obj):
                nviol += 1
                if nviol <= 20:
                    ctx.violation(f"check_groups({g!r}, {d}) raises {_exc(obj)}", "check_groups", inp, expected="ValueError/TypeError",
                                  actual=_exc(obj), key="check_groups:wrong-exception", how=how)
    ctx.compared("check_groups", len(cases))
    ctx.extra["check_groups_cases"] = len(cases)
    ctx.exhaustive = True     # the stated space of check_groups inputs is enumerated completely (see check_groups_space)


def groups_through_fit(ctx, name, X, seed):
    """through the estimators: the same verdict must reach the caller of fit, and a rejection must leave no model"""
    ests = fit_lib.estimators()
    rs = np.random.RandomState(seed)
    pool = [g for g in cl.group_lists(2, 2, lo=-1, hi=3)]
    k = 12 if ctx.tier == "quick" else 120
    if True:
        idx = rs.choice(len(pool), size=k, replace=False)
        for i in idx:
            g = pool[i]
            spec = cl.cg_spec(g, cl.N_FEATURES)
            _mark(ctx, f"{name}(groups={g!r}, max_iter=1).fit(X 12x3)")
            res = cl.fit_estimator(name, ests[name], "groups", copy.deepcopy(g), X)
            ctx.case(("fit-groups", name, repr(g)), True, None)
            ctx.compared("groups-through-fit")
            inp = {"owner": name, "groups": g, "n_features": cl.N_FEATURES}
            how = f"{name}(groups={g!r}, max_iter=1).fit(X 12x3)"
            raised = res["outcome"] == "raise"
            if spec[0] == "ok":
                got = None if raised else [list(map(int, x)) for x in res["model"].groups_]
                if raised or got != spec[1]:
                    ctx.violation(f"{how}: legal groups, expected groups_ = {spec[1]}, got {_exc(res['exc']) or got}", "groups-through-fit", inp,
                                  expected=spec[1], actual=_exc(res["exc"]) or got, key="groups-through-fit:false-reject", how=how)
            elif not raised:
                ctx.violation(f"{how}: illegal groups are trained on", "groups-through-fit", inp, expected="ValueError", actual="fitted",
                              key="groups-through-fit:false-accept", how=how)
            elif not res["family"] or res["learned"]:
                ctx.violation(f"{how}: rejected with {_exc(res['exc'])}, leaving {res['learned']}", "groups-through-fit", inp,
                              expected="ValueError, no fitted model", actual=[_exc(res["exc"]), res["learned"]],
                              key="groups-through-fit:unclean", how=how)


def groups_content(ctx, X):
    """groups whose CONTENT has the wrong type (the table can only see that `groups` is a list)"""
    ests = fit_lib.estimators()
    junk = [("float indices", [[0.0, 1.0]]), ("non-integral float", [[0, 1.5]]), ("strings", [["a", "b"]]), ("flat list", [0, 1]),
            ("booleans", [[True, False]]), ("None inside", [[0, None]]), ("nested deeper", [[[0, 1]]])]
    for name in [n for n in ests if n.startswith("Sparse")]:
        for what, g in junk:
            _mark(ctx, f"{name}(groups={g!r}, max_iter=1).fit(X 12x3)")
            res = cl.fit_estimator(name, ests[name], "groups", copy.deepcopy(g), X)
            ctx.case(("groups-content", name, what), True, None)
            ctx.compared("groups-content")
            inp = {"owner": name, "groups": repr(g), "what": what}
            how = f"{name}(groups={g!r}, max_iter=1).fit(X 12x3)"
            if res["outcome"] != "raise":
                ctx.violation(f"{how}: groups with {what} are trained on", "groups-content", inp, expected="ValueError/TypeError", actual="fitted",
                              key=f"groups-content:false-accept:{what}", how=how)
            elif not res["family"] or res["learned"]:
                ctx.violation(f"{how}: groups with {what} rejected with {_exc(res['exc'])}, leaving {res['learned']}", "groups-content", inp,
                              expected="ValueError/TypeError, no fitted model", actual=[_exc(res["exc"]), res["learned"]],
                              key=f"groups-content:unclean:{what}", how=how)


def precomputed_without_affinity(ctx, X):
    """inconsistent combination: kernel/metric 'precomputed' and no matrix handed to fit (documented: "a custom kernel
    matrix must be passed to the argument y").  Kauri documents and implements a fallback (DESIGN section 12): not judged."""
    from gemclus.gemini import MMDGEMINI, WassersteinGEMINI
    ests = fit_lib.estimators()
    cases = []
    for name, cls in ests.items():
        if name == "Kauri":
            continue
        params = [p for p in inspect.signature(cls.__init__).parameters if p != "self"]
        for p in ("kernel", "metric"):
            if p in params:
                cases.append((name, {p: "precomputed"}, f"{p}='precomputed'"))
        if "gemini" in params:
            cases.append((name, {"gemini": MMDGEMINI(kernel="precomputed")}, "gemini=MMDGEMINI(kernel='precomputed')"))
            cases.append((name, {"gemini": WassersteinGEMINI(metric="precomputed")}, "gemini=WassersteinGEMINI(metric='precomputed')"))
    for name, kw, desc in cases:
        m = ests[name](max_iter=1, **kw)
        _mark(ctx, f"{name}({desc}, max_iter=1).fit(X 12x3)  # y=None")
        try:
            with cl.quiet_io(), cl.time_limit(30):
                m.fit(X)
            exc = None
        except Exception as e:     # noqa
            exc = e
        ctx.case(("precomputed", name, desc), True, None)
        ctx.compared("precomputed-without-y")
        learned = cl.learned_attrs(m)
        inp = {"owner": name, "config": desc}
        how = f"{name}({desc}, max_iter=1).fit(X 12x3)  # y=None"
        if exc is None:
            ctx.violation(f"{how}: trained although no precomputed matrix was given", "precomputed-without-y", inp,
                          expected="ValueError", actual="fitted", key="precomputed-without-y:accepted", how=how)
        elif not cl.family(exc) or learned:
            ctx.violation(f"{how}: rejected with {_exc(exc)}, leaving {learned}", "precomputed-without-y", inp,
                          expected="ValueError/TypeError, no fitted model", actual=[_exc(exc), learned], key="precomputed-without-y", how=how)


def malformed_data(ctx):
    ests = fit_lib.estimators()
    for name, cls in ests.items():
        params = [p for p in inspect.signature(cls.__init__).parameters if p != "self"]
        for what, Xbad in cl.malformed_catalogue():
            if what.startswith("n < n_clusters") and "n_clusters" not in params:
                ctx.count("data:n<K-not-applicable(" + name + ")")
                continue
            kw = {"max_iter": 1} if "max_iter" in params else {}
            m = cls(**kw)
            _mark(ctx, f"{name}(max_iter=1).fit(<{what}>)")
            try:
                with cl.quiet_io(), cl.time_limit(30):
                    m.fit(copy.deepcopy(Xbad))
                exc = None
            except Exception as e:     # noqa
                exc = e
            ctx.case(("data", name, what), True, None)
            ctx.compared("malformed-data")
            ctx.count("data:" + (type(exc).__name__ if exc is not None else "ACCEPTED"))
            inp = {"owner": name, "data": what}
            how = f"{name}(max_iter=1).fit(<{what}>)"
            learned = cl.learned_attrs(m)
            if exc is None:
                ctx.violation(f"{how}: malformed training data is trained on", "malformed-data", inp, expected="ValueError/TypeError",
                              actual="fitted", key=f"data:accepted:{what}", how=how)
            elif not cl.family(exc) or learned:
                ctx.violation(f"{how}: rejected with {_exc(exc)}, leaving {learned}", "malformed-data", inp,
                              expected="ValueError/TypeError, no fitted model", actual=[_exc(exc), learned], key=f"data:unclean:{what}", how=how)


def before_fit(ctx, X):
    from gemclus.tree import print_kauri_tree
    ests = fit_lib.estimators()
    for name, cls in ests.items():
        calls = [("predict", lambda m: m.predict(X)), ("predict_proba", lambda m: m.predict_proba(X)), ("score", lambda m: m.score(X))]
        if name == "Douglas":
            calls.append(("find_active_points", lambda m: m.find_active_points(X)))
        if name == "Kauri":
            calls.append(("print_kauri_tree", lambda m: print_kauri_tree(m)))
        for what, f in calls:
            m = cls()
            if not hasattr(m, what) and what != "print_kauri_tree":
                ctx.count(f"before-fit:no-such-method:{what}")
                continue
            _mark(ctx, f"{name}().{what}(X)")
            try:
                with cl.quiet_io(), cl.time_limit(30):
                    r = f(m)
                exc = None
            except Exception as e:     # noqa
                exc = e
            ctx.case(("before-fit", name, what), True, None)
            ctx.compared("before-fit")
            ctx.count("before-fit:" + (type(exc).__name__ if exc is not None else "RETURNED"))
            if exc is None:
                ctx.violation(f"{name}().{what}(X) before fit returns {type(r).__name__} instead of raising", "before-fit",
                              {"owner": name, "call": what}, expected="an exception", actual=repr(r)[:100], key=f"before-fit:{what}",
                              how=f"{name}().{what}(X)")


def replay(ctx, path):
    import json
    r = json.load(open(path))
    print(json.dumps({k: r.get(k) for k in ("what", "input", "expected", "actual", "how_to_run")}, indent=1, default=str))
    return run(ctx)
