"""C06 — unselected features are inert; selection reads exact zeros; groups stay whole."""
import json
import math
import time

import numpy as np

from .. import core, fit_lib as fl, prox_lib as pl, sparse_lib as sl

HOW = ("harness.props.c06.run_case(cfg, mode, path_args): real fit / path of the sparse estimator instrumented from outside "
       "(harness.sparse_lib.instrument); oracle: harness.props.c06.observe / check_update ; re-run: ./check C06 --replay <this file>")


# ------------------------------------------------------------------------------------------------ oracle at one state
def observe(ctx, rs, model, X, user_groups, inp, where):
    """the state clauses of C06 on the live estimator, from the property text; returns number of violations"""
    nv = 0

    def bad(msg, key, expected=None, actual=None):
        nonlocal nv
        nv += 1
        ctx.violation(f"[{where}] {msg}", "state", {**inp, "where": where}, expected=expected, actual=actual, key=key, how=HOW)
    S = sl.skip_matrix(model)
    d = S.shape[0]
    sel = [int(i) for i in model.get_selection()]
    indep = [i for i in range(d) if np.any(S[i] != 0)]
    ctx.count("states observed")
    if sel != indep:
        bad(f"get_selection() = {sel} but the features with a non-zero (skip-)weight row are {indep}", "selection:exact-zeros", indep, sel)
    if int(model._n_selected_features()) != len(indep):
        bad(f"_n_selected_features() = {int(model._n_selected_features())}, {len(indep)} non-zero rows", "selection:count", len(indep), int(model._n_selected_features()))
    unsel = [i for i in range(d) if i not in sel]
    if hasattr(model, "W1_"):
        nzw1 = [i for i in unsel if np.any(model.W1_[i] != 0)]
        if nzw1:
            bad(f"unselected features {nzw1} have non-zero first-layer weights", "inert:first-layer", [], nzw1)
    if unsel:
        ctx.count("states with discarded features")
        with np.errstate(all="ignore"):
            p0 = model.predict_proba(X)
            Xp = X.copy()
            Xp[:, unsel] = X[:, unsel] + 1000.0 * rs.randn(len(X), len(unsel))
            p1 = model.predict_proba(Xp)
            Xq = X.copy()
            Xq[:, unsel] = rs.choice([-1e6, 0.0, 3.5, 1e6], size=(len(X), len(unsel)))
            p2 = model.predict_proba(Xq)
        if p0.tobytes() != p1.tobytes() or p0.tobytes() != p2.tobytes():
            bad(f"changing the unselected features {unsel} changes predict_proba (max abs difference "
                f"{float(max(np.nanmax(np.abs(p0 - p1)), np.nanmax(np.abs(p0 - p2))))!r})", "inert:predict_proba")
        ctx.count("inertness checks (bit-identical predict_proba)")
    if user_groups:
        for g in user_groups:
            ins = [i for i in g if i in sel]
            if ins and len(ins) != len(g):
                out = [i for i in g if i not in sel]
                zc = all(not X[:, i].any() for i in out)
                bad(f"group {g} is split: selected members {ins}, discarded members {out}"
                    + (" (their columns of X are constant zero: no gradient ever reaches them)" if zc else ""),
                    "groups:split" if zc else "groups:split:nonzero-column", "all or none", ins)
        ctx.count("group states checked")
    return nv


def expected_groups(user_groups, d):
    """documented completion: the user's groups, then the uncovered features as singletons"""
    if user_groups is None:
        return None
    cov = {i for g in user_groups for i in g}
    return [list(g) for g in user_groups] + [[i] for i in range(d) if i not in cov]


# ------------------------------------------------------------------------------------------------ oracle on one update
def check_update(ctx, rs, name, model_groups, M, u, inp, heavy):
    """the new weights are the proximal step (C05) of the weights the optimiser produced, threshold alpha * current lr"""
    nv = 0

    def bad(msg, key, expected=None, actual=None):
        nonlocal nv
        nv += 1
        ctx.violation(f"[update #{u['index']}] {msg}", "update", {**inp, "update_index": u["index"], "alpha": u["alpha"], "lr": u["lr"]},
                      expected=expected, actual=actual, key=key, how=HOW)
    if u["n_update_params_calls"] != 1 or u["post_opt"] is None:
        bad(f"{u['n_update_params_calls']} optimiser calls inside one _update_weights", "update:optimiser-calls")
        return nv
    thr = u["alpha"] * u["lr"]
    mlp = sl.is_mlp(name)
    ks = 2 if mlp else 0
    post, after = u["post_opt"], u["after"]
    # weights the proximal step must not touch
    for k in range(len(post)):
        if k == ks or (mlp and k == 0):
            continue
        if post[k].tobytes() != after[k].tobytes():
            bad(f"weight #{k} of _get_weights() changed after the optimiser step", "update:other-weights")
    d = post[ks].shape[0]
    groups = model_groups if model_groups is not None else [[i] for i in range(d)]
    ctx.count("updates checked")
    if not np.all(np.isfinite(post[ks])) or (mlp and not np.all(np.isfinite(post[0]))):
        ctx.count("updates with non-finite weights skipped")
        return nv
    for g in groups:
        if len(g) == 0:
            continue        # an empty group (accepted by check_groups) holds no weight
        v = post[ks][g].ravel()
        z = after[ks][g].ravel()
        if not mlp:
            r = pl.gl_oracle(rs, v, thr, z, False, 4 if heavy else 0)
            if r is not None:
                bad(f"group {g}: new weights are not the group-lasso proximal step with threshold alpha*lr = {thr!r}: {r[0]}",
                    "update:not-prox:linear", r[1], z.tolist())
        else:
            uu = post[0][g].ravel()
            th = after[0][g].ravel()
            nb = pl.fnorm(z)
            nvn = pl.fnorm(v)
            scale = max(1.0, nvn, float(np.abs(uu).max()) if len(uu) else 0.0, thr, M)
            if nvn > 0:
                # cheap structural clauses on every update: beta parallel to v with factor in [0,1], |theta_j| <= M||beta||, clipping
                if np.abs(z - (nb / nvn) * v).max() > 1e-9 * scale:
                    bad(f"group {g}: new skip weights are not a non-negative multiple of the optimiser's", "update:not-prox:direction")
                if len(th) and np.abs(th).max() > M * nb + 1e-12 * scale:
                    bad(f"group {g}: |theta_j| > M*||beta||", "update:not-prox:infeasible")
                if len(th) and np.abs(th - np.clip(uu, -M * nb, M * nb)).max() > 1e-9 * scale:
                    bad(f"group {g}: first-layer weights are not the clipping of the optimiser's at M*||beta||", "update:not-prox:clip")
                bo = pl.h_bopt(nvn, np.abs(uu), thr, M)
                if abs(bo - nb) > 1e-7 * scale * (1 + len(uu) * M * M):
                    bad(f"group {g}: ||beta|| = {nb!r}, the minimiser of the penalised problem with threshold alpha*lr = {thr!r} has {bo!r}",
                        "update:not-prox:norm", bo, nb)
                if heavy:
                    r, _ = pl.h_oracle(rs, v, uu, thr, M, z, th, 10, 401)
                    if r is not None:
                        bad(f"group {g}: not the HIER-PROX minimiser with threshold alpha*lr = {thr!r}: {r[0]}", "update:not-prox:mlp", r[1])
            if nb == 0 and np.any(th != 0):
                bad(f"group {g}: zero skip rows but non-zero first-layer rows after the update", "update:hier-invariant")
    return nv


def update_line(name, model_groups, M, u):
    mlp = sl.is_mlp(name)
    post = u["post_opt"]
    gt = "-1" if model_groups is None else pl.groups_tok(model_groups)
    if not mlp:
        d, K = post[0].shape
        return f"updlin {d} {K} {core.fhex(u['alpha'])} {core.fhex(u['lr'])} {gt} {core.fl(post[0])}"
    d, h = post[0].shape
    K = post[2].shape[1]
    return f"updmlp {d} {h} {K} {core.fhex(M)} {core.fhex(u['alpha'])} {core.fhex(u['lr'])} {gt} {core.fl(post[2])} {core.fl(post[0])}"


# ------------------------------------------------------------------------------------------------ one real run
def run_case(ctx, rs, cfg, mode, pa, lines, pending, heavy_budget, sample=False):
    """mode: 'fit' | 'path' | 'fit-identity' (optimiser step patched to a no-op)"""
    fl.quiet()
    name = cfg["estimator"]
    X = np.array(cfg["X"], float)
    y = None if cfg["y"] is None else np.array(cfg["y"], float)
    d = X.shape[1]
    user_groups = cfg["kw"].get("groups")
    inp = sl.cfg_json(cfg, pa if mode == "path" else None)
    inp["mode"] = mode
    model = sl.build(cfg)
    rec = sl.Recorder()
    rec.max_updates_kept = 600
    nviol = [0]

    def on_call(clf, call):
        nviol[0] += observe(ctx, rs, clf, X, user_groups, inp, f"path: compute_val_score call #{len(rec.calls) - 1}")
    canon = (name, mode, json.dumps(inp["params"], sort_keys=True, default=str), json.dumps(pa, sort_keys=True), X.tobytes())
    try:
        with sl.instrument(model, rec, budget_calls=20000, identity_optimiser=(mode == "fit-identity"), on_call=on_call):
            with np.errstate(all="ignore"):
                if mode == "path":
                    res, warns = sl.quiet_call(model.path, X, y, **pa)
                else:
                    _, warns = sl.quiet_call(model.fit, X, y)
    except sl.Budget:
        ctx.case(canon, True, None)
        ctx.count("path budget exceeded (see C07)")
        return
    except Exception as e:  # noqa
        ctx.case(canon, False, None)
        if isinstance(e, ValueError) and "0 feature(s)" in str(e) and cfg["kw"].get("dynamic"):
            ctx.count("path raised in dynamic mode with an empty selection (reported by C07)")
        else:
            ctx.count(f"{mode} raised {type(e).__name__}")
            ctx.extra.setdefault("run_errors", []).append(f"{name} {mode}: {type(e).__name__}: {e}"[:300])
        return
    # ---- groups_ = user groups + singletons
    eg = expected_groups(user_groups, d)
    got = getattr(model, "groups_", "missing")
    got_l = None if got is None else [[int(i) for i in g] for g in got] if got != "missing" else "missing"
    if got_l != eg:
        nviol[0] += 1
        ctx.violation(f"groups_ = {got_l} but the user's groups {user_groups} completed with singletons are {eg}", "groups", inp,
                      expected=eg, actual=got_l, key="groups:completion", how=HOW)
    # ---- final state (after fit / after the path and its restoration)
    nviol[0] += observe(ctx, rs, model, X, user_groups, inp, "after fit" if mode != "path" else
                        ("after path (weights restored)" if pa.get("restore_best_weights") and not cfg["kw"].get("dynamic") else "after path"))
    # ---- every recorded update
    M = float(cfg["kw"].get("M", 0.0))
    mg = None if model.groups_ is None else [[int(i) for i in g] for g in model.groups_]
    ups = rec.updates
    heavy_idx = set(rs.choice(len(ups), size=min(len(ups), heavy_budget), replace=False).tolist()) if ups else set()
    adam_moved = False
    split_reported = False
    for k, u in enumerate(ups):
        nviol[0] += check_update(ctx, rs, name, mg, M, u, inp, k in heavy_idx)
        if abs(u["lr"] - cfg["kw"]["learning_rate"]) > 1e-15:
            adam_moved = True
        # the hierarchy / group clauses on every intermediate state of the history
        S = u["after"][2 if sl.is_mlp(name) else 0]
        if user_groups and not split_reported:
            for g in user_groups:
                nz = [i for i in g if np.any(S[i] != 0)]
                if nz and len(nz) != len(g):
                    nviol[0] += 1
                    split_reported = True
                    zc = all(not X[:, i].any() for i in g if i not in nz)
                    ctx.violation(f"[update #{u['index']}] group {g} is split after the update: non-zero members {nz} "
                                  f"(zero columns of X: {[j for j in range(d) if not X[:, j].any()]})", "update", inp,
                                  key="groups:split" if zc else "groups:split:nonzero-column", how=HOW)
        if k in heavy_idx and u["post_opt"] is not None and np.all(np.isfinite(np.concatenate([a.ravel() for a in u["post_opt"]]))):
            lines.append(update_line(name, mg, M, u))
            pending.append(("update", name, u, inp))
    if adam_moved:
        ctx.count("runs where the optimiser's learning rate moved (adam)")
    if mode == "fit-identity":
        ctx.count("runs with the optimiser step patched to a no-op")
    # ---- selection read by the model vs the Lean model, on the final state and a few intermediate ones
    S = sl.skip_matrix(model)
    lines.append(f"sel {S.shape[0]} {S.shape[1]} {core.fl(S)}")
    pending.append(("sel", name, (np.array(S, copy=True), [int(i) for i in model.get_selection()], int(model._n_selected_features()),
                                  float(model._group_lasso_penalty())), inp))
    nsel_final = len(model.get_selection())
    dropped_somewhere = any(len(c["sel"]) < d for c in rec.calls) or nsel_final < d or \
        any(np.any(~np.any(u["after"][2 if sl.is_mlp(name) else 0] != 0, axis=1)) for u in ups[-1:])
    ctx.case(canon, bool(dropped_somewhere), {"estimator": name, "mode": mode, "params": cfg["kw"], "n": len(X), "d": d,
                                               "selected_at_end": nsel_final, "updates": rec.n_updates} if sample else None)
    ctx.count(f"family:{name}")
    ctx.count(f"mode:{mode}")
    ctx.count(f"groups:{cfg['groups_kind']}")
    if nsel_final < d:
        ctx.count("runs ending with discarded features")
    if nsel_final == 0:
        ctx.count("runs ending with no feature")


def zero_column_probe(ctx, rs, lines, pending):
    """a grouped feature whose column is constant zero (a one-hot level absent from the data) never receives a gradient:
    once its group has been zeroed and the optimiser revives the other members, the group is split"""
    r0 = np.random.RandomState(0)
    X = r0.randn(10, 3)
    X[:, 2] = 0.0
    for seed in (2, 0, 1, 3):
        cfg = {"estimator": "SparseLinearModel", "y": None, "X": X, "groups_kind": "partial",
               "kw": dict(n_clusters=2, groups=[[1, 2], [0]], alpha=1.0, learning_rate=0.1, max_iter=60, solver="sgd", random_state=seed)}
        before = len(ctx.violations)
        run_case(ctx, rs, cfg, "fit", {}, lines, pending, 2)
        ctx.count("zero-column probe runs")
        if len(ctx.violations) > before:
            break


# ------------------------------------------------------------------------------------------------ check_groups vs the model
def gen_group_list(rs):
    n = int(rs.randint(1, 7))
    r = rs.rand()
    if r < 0.08:
        return n, None
    if r < 0.16:
        return n, [[], [[]], [[], []]][rs.randint(3)]
    perm = [int(i) for i in rs.permutation(n)]
    k = int(rs.randint(1, n + 1))
    cov = perm[:k]
    cuts = sorted(set(rs.randint(0, k + 1, size=rs.randint(0, 3)).tolist()))
    gs, prev = [], 0
    for c in cuts + [k]:
        gs.append(cov[prev:c])
        prev = c
    if rs.rand() < 0.7:
        gs = [g for g in gs if g] or [cov]
    r = rs.rand()
    if r < 0.12:
        gs[rs.randint(len(gs))].append(int(rs.choice(cov)))          # duplicate
    elif r < 0.2:
        gs[rs.randint(len(gs))].append(n + int(rs.randint(0, 2)))     # too large
    elif r < 0.26:
        gs[rs.randint(len(gs))].append(-int(rs.randint(1, 3)))       # negative
    return n, gs


ERR = {"outOfRange": "should be contained in", "notPartition": "must form a partition",
       "duplicate": "cannot be duplicate"}


def groups_cases(ctx, rs, count):
    import importlib
    B = importlib.import_module("gemclus.sparse._base_sparse")
    lines, cases = [], []
    for _ in range(count):
        n, gs = gen_group_list(rs)
        try:
            out = B.check_groups(None if gs is None else [list(g) for g in gs], n)
            real = ("ok", None if out is None else [[int(i) for i in g] for g in out])
        except ValueError as e:
            real = ("err", str(e))
        except Exception as e:  # noqa
            real = ("exc", f"{type(e).__name__}: {e}")
        gt = "-1" if gs is None else f"{len(gs)} " + " ".join(f"{len(g)} " + " ".join(str(int(i)) for i in g) if len(g) else "0" for g in gs)
        lines.append(f"groups {n} {gt}")
        cases.append((n, gs, real))
        ctx.case(("groups", n, json.dumps(gs)), gs is not None, None)
        # oracle: a legal partial list (indices in range, pairwise distinct) is completed with singletons; anything else is rejected
        if gs is not None:
            flat = [i for g in gs for i in g]
            legal = all(0 <= i < n for i in flat) and len(set(flat)) == len(flat)
            inp = {"groups": gs, "n_features": n}
            if legal:
                want = expected_groups(gs, n)
                if real[0] != "ok":
                    ctx.violation(f"check_groups({gs}, {n}) rejected a legal partial group list: {real[1]}", "groups", inp, expected=want,
                                  actual=real[1], key="groups:empty-list-rejected" if not flat else "groups:legal-rejected", how="gemclus.sparse._base_sparse.check_groups(groups, n_features)")
                elif real[1] != want:
                    ctx.violation(f"check_groups({gs}, {n}) = {real[1]}, expected the user's groups + singletons {want}", "groups", inp,
                                  expected=want, actual=real[1], key="groups:completion", how="gemclus.sparse._base_sparse.check_groups(groups, n_features)")
            elif real[0] == "ok":
                ctx.violation(f"check_groups({gs}, {n}) accepted indices out of range / repeated: {real[1]}", "groups", inp, key="groups:illegal-accepted",
                              how="gemclus.sparse._base_sparse.check_groups(groups, n_features)")
    return lines, cases


def compare_groups(ctx, cases, answers):
    for (n, gs, real), ans in zip(cases, answers):
        ctx.compared("check_groups")
        t = ans.split()
        ok = False
        if t[0] == "none":
            ok = real == ("ok", None)
        elif t[0] == "err":
            ok = real[0] == "err" and ERR[t[1]] in real[1]
        elif t[0] == "ok":
            G, pos, out = int(t[1]), 2, []
            for _ in range(G):
                m = int(t[pos])
                out.append([int(x) for x in t[pos + 1:pos + 1 + m]])
                pos += 1 + m
            ok = real == ("ok", out)
        if not ok:
            ctx.corr_break("check_groups", {"groups": gs, "n_features": n}, {"impl": real, "model": ans})


def compare_runs(ctx, pending, answers):
    bit = 0
    for (kind, name, obj, inp), ans in zip(pending, answers):
        if kind == "sel":
            S, sel, cnt, pen = obj
            idx, c, p = ans.split(" | ")
            ctx.compared("selection")
            m_idx = [int(x) for x in idx.split()]
            if m_idx != sel or int(c) != cnt or not core.close(core.unhex(p), pen, rtol=1e-12):
                ctx.corr_break("selection", {**inp, "W": S.tolist()}, {"impl": [sel, cnt, pen], "model": [m_idx, int(c), core.unhex(p)]})
            continue
        u = obj
        mlp = sl.is_mlp(name)
        ctx.compared("update_weights")
        if ans in ("uninit", "index-error", "bad-op"):
            ctx.corr_break("update_weights", {**inp, "update_index": u["index"]}, {"model": ans})
            continue
        mf = pl.parse_floats(ans)
        real = np.concatenate([u["after"][2].ravel(), u["after"][0].ravel()]) if mlp else u["after"][0].ravel()
        scale = max(1e-300, float(np.abs(np.concatenate([a.ravel() for a in u["post_opt"]])).max()))
        ok, b, detail = pl.compare(real, mf, scale, rtol=1e-11)
        bit += b
        if not ok:
            ctx.corr_break("update_weights", {**inp, "update_index": u["index"], "alpha": u["alpha"], "lr": u["lr"]},
                           {"detail": detail, "impl": real.tolist(), "model": mf.tolist()})
    ctx.extra["bit_exact_update_outputs"] = bit


def run(ctx):
    fl.quiet()
    ctx.rule = ("real fits (max_iter 20..50) and paths (max_iter 2..8) of SparseLinearModel/MMD/MI and SparseMLPModel/MMD on 6..12 x 2..6 "
                "blobs (15% with a zero column) x 13 GEMINIs / MMD ova,ovo x kernels linear,rbf,precomputed x alpha .01..50 x lr .05..5 x "
                "adam,sgd x batch sizes None,2,3,n-1,n x dynamic x M in {0,.5,1,10} x groups None / partial / full partition; a third "
                "of the fits with the optimiser step patched to a no-op.  Observation points: after fit, at every compute_val_score "
                "call of a path (= after every epoch), after restoration, and every _update_weights call (weights before / after the "
                "optimiser / after the proximal step).  check_groups on random legal and illegal lists (n 1..6).  Non-trivial = a run in "
                "which some feature was really discarded; distinct = hash of all inputs.")
    from . import c05
    c05.regen(ctx)          # Gen/Prox.lean follows the current source before the theorems (C06 + companion C05Gen) are re-checked
    ctx.do_prove()
    quick = ctx.tier == "quick"
    rs = np.random.RandomState(ctx.seed * 6007 + 6)        # configurations
    rs_or = np.random.RandomState(ctx.seed * 6007 + 7)     # oracles (perturbations, competitors, sampling of updates)
    lines, pending = [], []
    # ---- check_groups
    glines, gcases = groups_cases(ctx, rs, 150 if quick else 3000)
    # ---- real runs
    nruns = 60 if quick else 1200
    t0 = time.time()
    for it in range(nruns):
        mode = ["fit", "path", "fit-identity", "path"][it % 4]
        fam = sl.SPARSE[(it // 4) % len(sl.SPARSE)]
        cfg = sl.gen_config(rs, mode == "path", quick, family=fam)
        pa = sl.gen_path_args(rs, cfg["X"].shape[1]) if mode == "path" else {}
        if mode == "path":
            if cfg["kw"]["alpha"] < 0.1 and pa["alpha_multiplier"] <= 1.3:
                pa["alpha_multiplier"] = 2.0
            pa["min_features"] = int(rs.choice([1, 1, 2]))          # let paths really discard features
        run_case(ctx, rs_or, cfg, mode, pa, lines, pending, 3 if quick else 5, sample=(it % 11 == 0))
        if quick and time.time() - t0 > 40:
            ctx.notes.append(f"quick tier: stopped after {it + 1} runs (time box)")
            break
    zero_column_probe(ctx, rs_or, lines, pending)
    try:
        answers = core.run_driver("Sparse", glines + lines)
    except core.DriverBuildError as e:
        ctx.proof["broken"].append({"theorem": "model build", "reason": str(e)[-400:]})
        answers = []
    if answers:
        compare_groups(ctx, gcases, answers[:len(glines)])
        compare_runs(ctx, pending, answers[len(glines):])
    ctx.notes.append("groups_all_or_nothing_* are proved for an arbitrary optimiser under the proviso that no row of the group is exactly zero "
                     "after the optimiser step; the harness checks group wholeness on every recorded state of real runs")
    ctx.assumptions.append("inertness is proved over the reals (x*0 = 0); for doubles it is observed bit-exactly on finite inputs up to 1e6")
    return ctx.finish()


def replay(ctx, path):
    rep = json.load(open(path))
    inp = rep.get("input")
    if isinstance(inp, dict) and "groups" in inp and "n_features" in inp:
        from gemclus.sparse._base_sparse import check_groups
        try:
            print("check_groups ->", check_groups(inp["groups"], inp["n_features"]))
            return 0
        except Exception as e:  # noqa
            print("VIOLATION check_groups raised", type(e).__name__, e)
            return 1
    if not isinstance(inp, dict) or "estimator" not in inp:
        print(f"replay {path}: kind={rep.get('kind')} (nothing to re-run: {json.dumps(rep)[:400]})")
        return 1
    cfg = {"estimator": inp["estimator"], "kw": inp["params"], "X": np.array(inp["X"], float),
           "y": None if inp.get("y") is None else np.array(inp["y"], float), "groups_kind": "replay"}
    rs = np.random.RandomState(0)
    run_case(ctx, rs, cfg, inp.get("mode", "fit"), inp.get("path_args", {}), [], [], 5)
    for v in ctx.violations:
        print("VIOLATION", v["what"])
    print("oracle verdict:", "violated" if ctx.violations else "held")
    return 1 if ctx.violations else 0
