"""C17 — results stay finite on degenerate and badly scaled but legal inputs (partial: IEEE behaviour is exhibited, not proved)."""
import json
import os
import re

import numpy as np

from .. import core, fit_lib as fl, gemini_lib as gl, sweep_lib as sl

SECONDS = 30.0
HOW_G = "gemclus.gemini.<Class>(ovo, kernel/metric='precomputed')(P, A, return_grad=True)"
HOW_F = ("harness.props.c17.build(input) -> (estimator, X, y); monitor = sweep_lib.Monitor(estimator); estimator.fit(X, y) "
         "(or .path(X, **input['path'])); np.isfinite over _get_weights(), predict_proba(X), score(X)")

FAMILIES = ["zero_group", "scale1000", "scale1e-3", "const_col", "zero_col", "dup_col", "identical_rows", "dup_rows", "K=n", "K=1",
            "batch1", "saturated"]


# ------------------------------------------------------------------ definedness obligations are about the CURRENT formulas
EXPECTED_DENOMINATORS = {
    "split_size", "(n_leaf - split_size)", "n_leaf", "(cs_k - n_leaf)", "cs_k", "(cs_k - split_size)",
    "(cs_k - (n_leaf - split_size))", "(cs_p + split_size)", "cs_p", "(cs_p + (n_leaf - split_size))",
    "((cs_k - n_leaf) + split_size)", "(nat 2)",
}


def denominators(text):
    """every divisor `… / D` of the regenerated gain formulas, as source text"""
    out = set()
    for m in re.finditer(r"/ ", text):
        j = m.end()
        if j >= len(text):
            continue
        if text[j] == "(":
            depth, k = 0, j
            while k < len(text):
                depth += text[k] == "("
                depth -= text[k] == ")"
                k += 1
                if depth == 0:
                    break
            out.add(text[j:k])
        else:
            out.add(re.match(r"[\w.]+", text[j:]).group(0))
    return out


def check_obligations(ctx):
    path = os.path.join(core.LEAN, "GemVerif", "Gen", "KauriGains.lean")
    src = core.strip_lean_comments(open(path).read())
    body = "\n".join(l for l in src.split("\n") if not l.strip().startswith("def guards"))
    found = denominators(body)
    ctx.extra["kauri_gain_denominators"] = sorted(found)
    if found != EXPECTED_DENOMINATORS:
        ctx.proof["broken"].append({"theorem": "GemVerif.Props.C17.kauri_gain_denominators",
                                    "reason": f"the regenerated gain formulas divide by {sorted(found ^ EXPECTED_DENOMINATORS)} "
                                              "which the definedness theorem does not cover (or no longer needs)"})
    # the guards the theorems rely on are still in the sources.
    #   * f-divergences + MMD `evaluate` (np.clip of the predictions, np.maximum under the square roots, `delta + delta_mask`,
    #     `delta + np.eye(len(delta))`) and `_prox_grad.py` (`np.where(W_norms == 0, 1, W_norms)`): the sources are TRANSLATED
    #     (translator/geminis.py, prox.py) and the companion files Props/C01Gen.lean / C05Gen.lean, re-checked by `do_prove`
    #     on the regenerated definitions, prove them equal to the guarded hand models the definedness theorems speak about
    #     (`clipP`, `mmdDeltaOva` / `mmdDeltaOvo`, `mmdGrad`, `linearProxRow`): however the guards are spelled.
    #   * WassersteinGEMINI.evaluate (np.clip of the predictions; the divisors `pi * N`, `N * N * pi`; the weight vectors handed
    #     to `ot.emd2`): TRANSLATED as well (translator/wass.py: loops as folds, POT a parameter); Props/C01WassGen.lean proves the
    #     regenerated definitions equal to `wassScore` / `wassGrad` (over `clipP`, `wassWeights`), which `wasserstein_defined`
    #     speaks about.  (This replaces the search of the `np.clip` call in the syntax tree.)
    ctx.extra["source_guards_checked"] = {"by_equality_theorem": ["C01Gen (KL, TV, Hellinger, chi2, MMD)", "C05Gen (_prox_grad.py)",
                                                                   "C01WassGen (WassersteinGEMINI.evaluate)"]}


def regen_companions(ctx):
    """Gen/Geminis.lean and Gen/Prox.lean follow the current source before the theorems (C17 + the companions C01Gen, C05Gen) are
    re-checked; a source the translators refuse is a broken tie (as in C01 / C05)"""
    from . import c01, c05
    units, n, same, failures = [], 0, True, []
    for mod in (c01, c05):
        ctx.translation = {}
        ctx.extra.pop("translation_failure", None)
        mod.regen(ctx)
        tr = ctx.translation or {}
        units += tr.get("units", [])
        n += tr.get("regenerated", 0)
        same = same and tr.get("identical_to_committed", True)
        if ctx.extra.get("translation_failure"):
            failures.append(ctx.extra["translation_failure"])
    ctx.translation = {"units": units, "regenerated": n, "identical_to_committed": same}
    ctx.extra.pop("translation_failure", None)
    if failures:
        ctx.extra["translation_failure"] = "; ".join(failures)


# ------------------------------------------------------------------ part A: GEMINI evaluate on degenerate predictions
def degenerate_P(rs, kind, n, K):
    if kind == "onehot":
        P = np.zeros((n, K)); P[np.arange(n), rs.randint(0, K, size=n)] = 1.0
        return P
    if kind == "onehot_same":          # everything in one cluster, saturated
        P = np.zeros((n, K)); P[:, rs.randint(K)] = 1.0
        return P
    if kind == "constant":
        return np.tile(rs.dirichlet(np.ones(K)), (n, 1))
    if kind == "uniform":
        return np.full((n, K), 1.0 / K)
    if kind == "dup_rows":
        m = max(1, n // 2)
        base = gl.gen_P(rs, m, K, "soft") if K > 1 else np.ones((m, 1))
        return np.concatenate([base] * (n // m + 1))[:n]
    if kind == "underflow":            # soft-max of logits scaled by 1000: exact zeros and ones from a real forward pass
        return gl.softmax(1000.0 * rs.randn(n, K))
    raise ValueError(kind)


P_KINDS = ["onehot", "onehot_same", "constant", "uniform", "dup_rows", "underflow"]
SHAPES = [(1, 1), (1, 3), (4, 1), (2, 2), (3, 3), (5, 2), (4, 3), (5, 3)]


def degenerate_affinity(rs, cls, kind, n):
    """affinity matrices of degenerate data: identical rows (constant kernel / zero distances), duplicated rows,
    data scaled by 1000 and 1e-3"""
    from sklearn.metrics import pairwise_kernels, pairwise_distances
    X = rs.randn(n, 2)
    if kind == "identical":
        X = np.tile(X[:1], (n, 1))
    elif kind == "dup":
        X[n // 2:] = X[: n - n // 2]
    elif kind == "x1000":
        X = X * 1000
    elif kind == "x1e-3":
        X = X * 1e-3
    if cls == "mmd":
        return pairwise_kernels(X, metric=["linear", "rbf"][rs.randint(2)])
    return pairwise_distances(X, metric=["euclidean", "l1"][rs.randint(2)])


A_KINDS = ["identical", "dup", "x1000", "x1e-3", "plain"]


def part_a(ctx, rs, reps):
    eps = 1e-12
    lines, expect = [], []
    for cls, ovo in gl.CONFIGS:
        cfg = f"{cls}_{'ovo' if ovo else 'ova'}"
        for r in range(reps):
            for si, (n, K) in enumerate(SHAPES):
                kind = P_KINDS[(r + si) % len(P_KINDS)]
                akind = A_KINDS[(r + 2 * si) % len(A_KINDS)]
                P = degenerate_P(rs, kind, n, K)
                A = degenerate_affinity(rs, cls, akind, n) if cls in ("mmd", "wass") else None
                inp = {"config": cfg, "P_kind": kind, "affinity_kind": akind if A is not None else None, "n": n, "K": K,
                       "P": P.tolist(), "A": None if A is None else A.tolist(), "epsilon": eps}
                ctx.case((cfg, P.tobytes(), None if A is None else A.tobytes()), True,
                         {k: inp[k] for k in ("config", "P_kind", "affinity_kind", "n", "K")} if (r == 0 and si % 3 == 0) else None)
                ctx.count("P:" + kind)
                ctx.count(f"shape:n={'1' if n == 1 else '>1'},K={'1' if K == 1 else '>1'}")
                key_tail = f"{cfg}" + (":K=1" if K == 1 else "")
                try:
                    with sl.time_limit(SECONDS):
                        (s, G), calls = gl.impl_eval(cls, ovo, eps, P, A, grad=True)
                        (s0, _) = gl.impl_eval(cls, ovo, eps, P, A, grad=False)
                except Exception as e:
                    ctx.violation(f"evaluate raised {type(e).__name__}: {str(e)[:160]} on {kind} predictions of shape {(n, K)}",
                                  "gemini-evaluate", inp, key=f"evaluate:{key_tail}", how=HOW_G)
                    continue
                G = np.asarray(G, dtype=float)
                s = float(np.asarray(s))
                if G.shape != (n, K):
                    ctx.violation(f"gradient has shape {G.shape} for predictions of shape {(n, K)}", "gemini-evaluate", inp,
                                  expected=[n, K], actual=list(G.shape), key=f"evaluate:{key_tail}", how=HOW_G)
                    continue
                if not (np.isfinite(s) and np.isfinite(G).all() and np.isfinite(float(np.asarray(s0)))):
                    ctx.violation(f"non-finite score/gradient on {kind} predictions ({akind} affinity)", "gemini-evaluate", inp,
                                  actual={"score": s, "finite_gradient_entries": int(np.isfinite(G).sum())},
                                  key=f"nonfinite-evaluate:{key_tail}", how=HOW_G)
                    # still compared with the model below: both must agree on the tokens
                emd = gl.emd_tables_or_none(calls, n, K, ovo) if cls == "wass" else None
                if cls == "wass" and emd is None:
                    ctx.corr_break("evaluate:wass:pot-calls", {"config": cfg, "n": n, "K": K}, "the recorded ot.emd2 calls are not the ones the model is parameterised by")
                    continue
                scale = 1.0 if A is None else max(1.0, float(np.abs(A).max()))
                lines.append(gl.model_line("score", cls, ovo, eps, P, A, emd)); expect.append(("score:" + cfg, inp, [s], scale))
                lines.append(gl.model_line("grad", cls, ovo, eps, P, A, emd)); expect.append(("grad:" + cfg, inp, G.ravel().tolist(), scale))
    try:
        outs = core.run_driver("Gemini", lines)
    except core.DriverBuildError as e:
        ctx.proof["broken"].append({"theorem": "model build (Drivers/Gemini.lean)", "reason": str(e)[-400:]})
        outs = []
    for (unit, inp, vals, scale), o in zip(expect, outs):
        m = [core.unhex(x) for x in o.split()]
        ctx.compared("model:" + unit)
        tokens_ok = len(m) == len(vals) and all((np.isnan(a) == np.isnan(b)) and (np.isinf(a) == np.isinf(b)) for a, b in zip(vals, m))
        if unit.startswith("score"):
            tol = 1e-9 if ("mmd" not in unit and "wass" not in unit) else 2e-6 * np.sqrt(scale) if "mmd" in unit else 1e-7 * scale
            ok = tokens_ok and core.close(vals[0], m[0], rtol=tol, atol=tol)
        else:
            # square roots of cancelling quantities: MMD gradients divide by delta ~ sqrt(rounding noise) when delta ~ 0
            ok = tokens_ok and (core.close_vec(vals, m, rtol=1e-7 if "mmd" not in unit else 1e-4) or ("mmd" in unit and near_zero_delta(inp)))
        if not ok:
            ctx.corr_break("model:" + unit, {k: inp[k] for k in ("config", "P_kind", "affinity_kind", "n", "K", "P", "A")},
                           {"impl": vals, "model": m})


def near_zero_delta(inp):
    """MMD distances at rounding level: `sqrt(max(a + c - 2b, 0))` of cancelling terms is ill-conditioned (DESIGN 2.3)"""
    P = np.asarray(inp["P"], dtype=float)
    return bool(np.ptp(P, axis=0).max() < 1e-9) or inp["affinity_kind"] == "identical" or inp["n"] == 1 or inp["K"] == 1


# ------------------------------------------------------------------ part B: estimators on degenerate data
def family_case(rs, fam, name):
    """(params overrides, X) of one degenerate family for estimator `name`"""
    n, d, K = int(rs.randint(6, 11)), 3, 3
    X = fl.small_data(rs, n, d)
    kw = {"max_iter": 3}
    if fam == "scale1000":
        X = X * 1000.0
    elif fam == "scale1e-3":
        X = X * 1e-3
    elif fam == "const_col":
        X[:, 1] = float(rs.choice([1.0, -2.5, 1000.0]))
    elif fam == "zero_col":
        X[:, 1] = 0.0
    elif fam == "zero_group":
        # two all-zero columns (zero gradient) under a penalty that eliminates them within a few steps, then further steps on the
        # exactly-zero rows; for the sparse estimators the two columns are declared as one feature group
        X[:, 1] = 0.0
        X[:, 2] = 0.0
        kw.update(max_iter=10, learning_rate=0.05, solver="sgd")
        if name.startswith("Sparse"):
            kw.update(alpha=5.0, groups=[[1, 2]])
    elif fam == "dup_col":
        X[:, 2] = X[:, 0]
    elif fam == "identical_rows":
        X = np.tile(X[:1], (n, 1))
    elif fam == "dup_rows":
        X[n // 2:] = X[: n - n // 2]
    elif fam == "K=n":
        n = int(rs.randint(2, 6)); X = X[:n]; K = n
    elif fam == "K=1":
        K = 1
    elif fam == "batch1":
        kw["batch_size"] = 1
    elif fam == "saturated":
        kw["learning_rate"] = 5.0
    if name == "Kauri":
        kw = {"max_clusters": K}
    else:
        kw["n_clusters"] = K
        if "batch_size" in kw and not fl.accepts(fl.estimators()[name], "batch_size"):
            del kw["batch_size"]
    return kw, X


def build(info):
    return sl.rebuild(info)


def finite_report(model, X, y, name):
    """which of the observable results are not finite"""
    bad = []
    if name != "Kauri":
        for i, w in enumerate(model._get_weights()):
            if not np.isfinite(np.asarray(w, dtype=float)).all():
                bad.append(f"weights[{i}]")
        P = model.predict_proba(X)
        if not np.isfinite(np.asarray(P, dtype=float)).all():
            bad.append("predict_proba")
    s = model.score(X, y)
    if not np.isfinite(s):
        bad.append("score")
    # batches of one sample and duplicated samples are among the stated families: the score of such a batch of the SAME data must be a
    # finite number too (one row per predicted cluster, so that clusters with a lower number are absent from the batch; one row repeated)
    if name.startswith("Categorical"):
        return bad          # nonparametric: the model IS the assignment of the training samples, there is no other batch to score
    Xa = np.asarray(X)
    lab = np.asarray(model.predict(X))
    rows = [int(np.flatnonzero(lab == v)[0]) for v in np.unique(lab)][-3:]
    for idx in [[r] for r in rows] + [[rows[-1]] * 5]:
        ys = None if y is None else np.asarray(y)[np.ix_(idx, idx)]
        s = model.score(Xa[idx], ys)
        if not np.isfinite(s):
            bad.append(f"score of the sub-batch of rows {idx}")
    return bad


def probe(model):
    """root cause of a non-finite gradient, read off the retained forward pass at the moment it appears"""
    B = getattr(model, "_all_binnings", None)
    if type(model).__name__ == "Douglas" and B is not None and any((np.asarray(b) == 0).any() for b in B):
        return "underflow-division"       # `binning_backprop.sum(...) / self._all_binnings[i]` with a membership of exactly 0.0
    return None


def gemini_rootcause(model, X, y):
    """if the estimator's own GEMINI fails on well-formed uniform predictions of the batch shape, the key of that failure"""
    try:
        g = model.get_gemini()
        K = model.n_clusters
        cfg = gl.REV.get(type(g).__name__, "kl" if type(g).__name__ == "MI" else type(g).__name__) + ("_ovo" if getattr(g, "ovo", False) else "_ova")
        Xa = np.asarray(X, dtype=float)
        A = g.compute_affinity(Xa, y)
        P = np.full((len(Xa), K), 1.0 / K)
        try:
            _, G = g(P, A, return_grad=True)
            if np.shape(G) == P.shape:
                return None
        except Exception:
            pass
        return f"evaluate:{cfg}" + (":K=1" if K == 1 else "")
    except Exception:
        return None


def diagnose(model, name, mon):
    return mon.diagnosis if mon is not None else None


def one_fit(ctx, name, fam, kw, X, do_path, tag):
    cls = fl.estimators()[name]
    info = {"estimator": name, "family": fam, "params": {**kw, "random_state": 0}, "X": X.tolist(), "y": None}
    if do_path:
        info["path"] = {"alpha_multiplier": 2.0, "min_features": 2, "max_patience": 2}
        info["params"]["alpha"] = 1.0
    model, X, y = build(info)
    canon = (name, fam, json.dumps(info["params"], sort_keys=True, default=str), X.tobytes(), bool(do_path))
    ctx.case(canon, True, {"estimator": name, "family": fam, "params": info["params"], "n": len(X), "path": bool(do_path)} if tag % 41 == 0 else None)
    ctx.count("family:" + fam)
    ctx.count("estimator:" + name)
    mon = sl.Monitor(model, probe) if name != "Kauri" else None
    hist = None
    op = "path" if do_path else "fit"
    g = info["params"].get("gemini", "")
    try:
        with sl.time_limit(SECONDS):
            if name == "Kauri":
                with sl.kauri_translit():
                    model.fit(X, y)
            elif do_path:
                hist = model.path(X, **info["path"])
            else:
                model.fit(X, y)
    except sl.FitTimeout:
        ctx.violation(f"{op} did not complete within {SECONDS} s on the '{fam}' family", op, info, key=f"hang:{name}:{fam}:{op}", how=HOW_F)
        return
    except Exception as e:
        c = sl.classify(e)
        if c:
            ctx.count("rejected_by_" + c)
            return
        why = diagnose(model, name, mon)
        root = gemini_rootcause(model, X, y) if name != "Kauri" else None
        if root and not why:
            ctx.violation(f"{name}.{op} raised {type(e).__name__} on the '{fam}' family because its GEMINI returns an ill-shaped "
                          f"gradient / raises on predictions of shape {(len(X), info['params'].get('n_clusters'))}", op, info,
                          expected="completes", actual=type(e).__name__, key=root, how=HOW_F)
            return
        ctx.violation(f"{name}.{op} raised {type(e).__name__}: {str(e)[:160].strip()} (at {sl.where(e)}) on the '{fam}' family"
                      + (f"; first non-finite value at optimiser step {mon.first_bad['step']}" if mon is not None and mon.first_bad else ""),
                      op, info, expected="completes", actual=type(e).__name__,
                      key=(f"nonfinite:{name}:{why}" if why else f"raises:{name}:{fam}:{g}"), how=HOW_F)
        return
    finally:
        if mon is not None:
            mon.remove()
    ctx.count("completed")
    try:
        with sl.time_limit(SECONDS):
            if name == "Kauri":
                with sl.kauri_translit():
                    bad = finite_report(model, X, y, name)
            else:
                bad = finite_report(model, X, y, name)
    except Exception as e:
        ctx.violation(f"{name}: {type(e).__name__}: {str(e)[:160]} (at {sl.where(e)}) when reading results after {op} on '{fam}'",
                      op, info, key=f"raises-after-fit:{name}:{fam}:{g}", how=HOW_F)
        return
    if hist is not None:
        best_w, geminis, pens, alphas, nfeat = hist
        for label, seq in (("path.geminis", geminis), ("path.group_penalties", pens), ("path.alphas", alphas), ("path.n_features", nfeat)):
            if not np.isfinite(np.asarray(seq, dtype=float)).all():
                bad.append(label)
        if any(not np.isfinite(np.asarray(w, dtype=float)).all() for w in best_w):
            bad.append("path.best_weights")
        ctx.count("path_steps", len(alphas))
    if mon is not None and mon.first_bad is not None and not bad:
        bad.append(f"intermediate (optimiser step {mon.first_bad['step']}: {mon.first_bad}) although the final results are finite")
    if bad:
        why = diagnose(model, name, mon)
        lab = np.asarray(getattr(model, "labels_", []))
        silent = bool(lab.size and (lab == lab[0]).all())
        ctx.violation(f"{name}.{op} on the '{fam}' family: non-finite {', '.join(bad)}"
                      + (f" (first at optimiser step {mon.first_bad['step']})" if mon is not None and mon.first_bad else "")
                      + ("; labels_ silently all equal" if silent else ""),
                      op, info, expected="finite", actual=bad,
                      key=(f"nonfinite:{name}:{why}" if why else f"nonfinite:{name}:{fam}:{g}"), how=HOW_F)


def part_b(ctx, rs, per_cell):
    E = fl.estimators()
    tag = 0
    for fi, fam in enumerate(FAMILIES):
        for ei, name in enumerate(E):
            cls = E[name]
            if fl.accepts(cls, "gemini"):
                gs = [fl.GEMINI_NAMES[((fi * len(E) + ei) * per_cell + j) % len(fl.GEMINI_NAMES)] for j in range(per_cell)]
            else:
                gs = [None]
            for j, g in enumerate(gs):
                kw, X = family_case(rs, fam, name)
                if g is not None:
                    kw["gemini"] = g
                if fl.accepts(cls, "ovo"):
                    kw["ovo"] = bool((fi + ei + j) % 2)
                if fl.accepts(cls, "solver"):
                    kw["solver"] = ["adam", "sgd"][(fi + ei + j) % 2]
                if fl.accepts(cls, "n_hidden_dim"):
                    kw["n_hidden_dim"] = 3
                if name == "Douglas":
                    kw["n_cuts"] = 1 + (fi + j) % 2
                tag += 1
                one_fit(ctx, name, fam, kw, X, False, tag)
            if name in sl.SPARSE_EST:
                kw, X = family_case(rs, fam, name)
                kw["learning_rate"] = kw.get("learning_rate", 0.05)
                kw["n_hidden_dim"] = 3 if fl.accepts(cls, "n_hidden_dim") else None
                if kw["n_hidden_dim"] is None:
                    del kw["n_hidden_dim"]
                if fl.accepts(cls, "gemini"):
                    kw["gemini"] = fl.GEMINI_NAMES[(fi + ei) % len(fl.GEMINI_NAMES)]
                tag += 1
                one_fit(ctx, name, fam, kw, X, True, tag)


def part_b_douglas(ctx, rs, reps):
    """cold soft-binning: legal small temperatures and several cuts (memberships underflow to exactly 0.0)"""
    tag = 1000
    for r in range(reps):
        for T in (0.01, 0.001):
            for n_cuts in (2, 3):
                n = int(rs.randint(6, 11))
                X = fl.small_data(rs, n, 3)
                g = fl.GEMINI_NAMES[(tag + r) % len(fl.GEMINI_NAMES)]
                kw = {"n_clusters": 3, "max_iter": 3, "temperature": T, "n_cuts": n_cuts, "gemini": g,
                      "solver": ["adam", "sgd"][tag % 2], "batch_size": [None, 1, 4][tag % 3]}
                tag += 1
                one_fit(ctx, "Douglas", "cold_binning", kw, X, False, tag)


def run(ctx):
    fl.quiet()
    ctx.rule = ("(A) the 12 GEMINI configurations on degenerate predictions (exact one-hot, all in one cluster, constant, "
                "uniform, duplicated rows, soft-max of logits x1000) x shapes incl. n=1 and K=1 x affinities of identical / "
                "duplicated / x1000 / x1e-3 data: real code vs the Lean Float model (NaN/Inf tokens and values) and finiteness; "
                "(B) 18 estimators x 11 degenerate families (X x1000, x1e-3, constant / zero / duplicated column, identical rows, "
                "duplicated rows, K=n, K=1, batch_size=1, learning_rate=5; Douglas also with temperature 0.01/0.001 and 2-3 cuts) x "
                "rotating GEMINIs, fit + path (sparse models) with a "
                "finiteness monitor on every optimiser step; non-trivial = every case (all are degenerate by construction); "
                "distinct = distinct (estimator, family, parameters, data)")
    ctx.assumptions.append("IEEE overflow/underflow cannot be proved in Lean (Float is opaque to the kernel): exhibited by this sweep only — partial")
    regen_companions(ctx)
    ctx.do_prove()
    check_obligations(ctx)
    rs = np.random.RandomState(ctx.seed * 3571 + 17)
    part_a(ctx, rs, 2 if ctx.tier == "quick" else 12)
    part_b(ctx, rs, 2 if ctx.tier == "quick" else 13)
    part_b_douglas(ctx, rs, 2 if ctx.tier == "quick" else 20)
    return ctx.finish()


def replay(ctx, path):
    fl.quiet()
    rep = json.load(open(path))
    inp = rep["input"]
    if "config" in inp:
        cls, ovo = inp["config"].split("_")
        P = np.array(inp["P"], dtype=float); A = None if inp["A"] is None else np.array(inp["A"], dtype=float)
        try:
            (s, G), _ = gl.impl_eval(cls, ovo == "ovo", inp["epsilon"], P, A, grad=True)
            ok = np.shape(G) == P.shape and np.isfinite(np.asarray(G, float)).all() and np.isfinite(float(s))
        except Exception as e:
            print(f"VIOLATION property=C17 replay={path} ({type(e).__name__}: {str(e)[:120]})")
            return 1
        if ok:
            print(f"replay {path}: evaluate is finite and well-shaped")
            return 0
        print(f"VIOLATION property=C17 replay={path} (non-finite or ill-shaped result)")
        return 1
    sub = core.Ctx("C17", "quick", 0)
    one_fit(sub, inp["estimator"], inp["family"], {k: v for k, v in inp["params"].items() if k != "random_state"},
            np.array(inp["X"], dtype=float), "path" in inp, 1)
    if sub.violations:
        print(f"VIOLATION property=C17 replay={path} ({sub.violations[0]['what'][:160]})")
        return 1
    print(f"replay {path}: completes with finite results")
    return 0
