"""C05 — proximal operators return the exact minimiser of their penalised problem."""
import json

import numpy as np

from .. import core, prox_lib as pl
from translator import prox as tp, tables

UNITS = ("linear", "glinear", "mlp", "gmlp")
HOW = ("gemclus.sparse._prox_grad.<linear_prox_grad|group_linear_prox_grad|mlp_prox_grad|group_mlp_prox_grad> on the "
       "arrays of `input` (W / W_skip, W1, alpha, M, groups); oracle: harness.prox_lib.gl_oracle / h_oracle; "
       "re-run: ./check C05 --replay <this file>")


def regen(ctx):
    """regenerate Gen/Prox.lean (the NumPy code of soft_threshold / linear_prox_grad / mlp_prox_grad and the two group loops,
    as gemclus/sparse/_prox_grad.py says now); Props/C05Gen.lean proves it equal to the hand model Model/Prox.lean the
    C05 / C06 theorems are stated about"""
    try:
        data, text = tp.prox()
    except (tables.TranslationFailure, SyntaxError, OSError) as e:
        ctx.extra["translation_failure"] = f"prox: {e}"
        return None
    changed = core.write_if_changed(core.LEAN + "/GemVerif/Gen/Prox.lean", text)
    ctx.translation = {"units": [f"{u['file']}::{u['function']} -> Gen/Prox.lean::{name}" for name, u in data.items()],
                       "regenerated": len(data), "identical_to_committed": not changed}
    return data


def run_impl(inp):
    P = pl.impl()
    with np.errstate(all="ignore"):
        u = inp["unit"]
        if u == "linear":
            return (np.asarray(P.linear_prox_grad(np.array(inp["W"], float), inp["alpha"])),)
        if u == "glinear":
            return (np.asarray(P.group_linear_prox_grad(inp["groups"], np.array(inp["W"], float), inp["alpha"])),)
        if u == "mlp":
            b, t = P.mlp_prox_grad(np.array(inp["W_skip"], float), np.array(inp["W1"], float), inp["alpha"], inp["M"])
            return np.asarray(b), np.asarray(t)
        b, t = P.group_mlp_prox_grad(inp["groups"], np.array(inp["W_skip"], float), np.array(inp["W1"], float),
                                     inp["alpha"], inp["M"])
        return np.asarray(b), np.asarray(t)


def model_line(inp):
    u = inp["unit"]
    if u == "linear":
        return pl.line_linear(np.array(inp["W"], float), inp["alpha"])
    if u == "glinear":
        return pl.line_glinear(inp["groups"], np.array(inp["W"], float), inp["alpha"])
    if u == "mlp":
        return pl.line_mlp(np.array(inp["W_skip"], float), np.array(inp["W1"], float), inp["alpha"], inp["M"])
    return pl.line_gmlp(inp["groups"], np.array(inp["W_skip"], float), np.array(inp["W1"], float), inp["alpha"], inp["M"])


def oracle(ctx, rs, inp, out, ncomp, ngrid):
    """independent oracle on the implementation's output; in-scope inputs only (groups form a partition)"""
    u = inp["unit"]
    lin = u in ("linear", "glinear")
    d = len(inp["W"] if lin else inp["W_skip"])
    groups = inp.get("groups") or [[i] for i in range(d)]
    nviol = 0
    if lin:
        W = np.array(inp["W"], float)
        Z = out[0]
        if Z.shape != W.shape:
            ctx.violation(f"output shape {Z.shape} differs from the input shape {W.shape}", u, inp, key=f"{u}:shape", how=HOW)
            return 1
        for g in groups:
            if not len(g):
                continue
            r = pl.gl_oracle(rs, W[g].ravel(), inp["alpha"], Z[g].ravel(), inp.get("exact", False), ncomp)
            ctx.count("oracle:group-lasso groups")
            if r is not None:
                nviol += 1
                ctx.violation(r[0], u, {**inp, "group": [int(i) for i in g]}, expected=r[1], actual=Z[g].tolist(),
                              key=f"{u}:{r[0][:40]}", how=HOW)
    else:
        Ws = np.array(inp["W_skip"], float)
        W1 = np.array(inp["W1"], float)
        B, T = out
        if B.shape != Ws.shape or T.shape != W1.shape:
            ctx.violation("output shapes differ from the input shapes", u, inp, key=f"{u}:shape", how=HOW)
            return 1
        for g in groups:
            if not len(g):
                continue
            r, info = pl.h_oracle(rs, Ws[g].ravel(), W1[g].ravel(), inp["alpha"], inp["M"], B[g].ravel(), T[g].ravel(),
                                  ncomp, ngrid)
            ctx.count("oracle:hier-prox groups")
            if "clipped" in info:
                nu = W1[g].size
                ctx.count("hier: no hidden weight clipped" if info["clipped"] == 0 else
                          ("hier: all hidden weights clipped" if info["clipped"] == nu else "hier: some hidden weights clipped"))
                if info["b_opt"] == 0:
                    ctx.count("hier: beta* = 0")
                ctx.extra["max_objective_gap_seen"] = max(ctx.extra.get("max_objective_gap_seen", 0.0), float(info["gap"]))
            if r is not None:
                nviol += 1
                ctx.violation(r[0], u, {**inp, "group": [int(i) for i in g]}, expected=r[1],
                              actual={"beta": B[g].tolist(), "theta": T[g].tolist()}, key=f"{u}:{r[0][:40]}", how=HOW)
    return nviol


# --------------------------------------------------------------------------------------- case generation
def alphas_for(rs, W, groups, exact):
    """alpha candidates: dyadic values, 0, and (exact matrices only) exactly the norm of one group (tie ||w|| = alpha)"""
    c = [float(a) for a in pl.DY_ALPHA]
    if exact and W.size:
        g = groups[rs.randint(len(groups))]
        if len(g):
            c.append(float(np.sqrt((W[g].ravel() ** 2).sum())))
            c.append(float(np.sqrt((W[g].ravel() ** 2).sum())))
    return c


def gen_cases(ctx, rs, depth):
    cases = []
    shapes = [(1, 1), (1, 3), (2, 1), (2, 2), (3, 2), (3, 5), (4, 3), (5, 4), (5, 5), (4, 1), (1, 5), (2, 4)]

    # ---- linear_prox_grad
    for kind in pl.KINDS:
        for r in range(depth):
            d, h = shapes[(r + rs.randint(len(shapes))) % len(shapes)] if r >= 2 else shapes[r]
            W = pl.gen_matrix(rs, d, h, kind)
            exact = kind in pl.EXACT_KINDS
            al = alphas_for(rs, W, [[i] for i in range(d)], exact)
            a = al[rs.randint(len(al))] if r >= 2 else (0.0 if r == 0 else al[-1])
            if kind == "normal" and rs.rand() < 0.5:
                a = float(abs(rs.randn()))
            cases.append({"unit": "linear", "W": W.tolist(), "alpha": a, "kind": kind, "exact": exact})

    # ---- group_linear_prox_grad: ALL partitions of <= 4 features, random partitions of 5
    for d in range(1, 5):
        for p in pl.ALL_PARTITIONS[d]:
            for r in range(max(1, depth // 4)):
                kind = pl.KINDS[rs.randint(len(pl.KINDS))]
                h = int(rs.randint(1, 6))
                W = pl.gen_matrix(rs, d, h, kind)
                exact = kind in pl.EXACT_KINDS
                groups = pl.shuffle_partition(rs, p)
                al = alphas_for(rs, W, groups, exact)
                cases.append({"unit": "glinear", "W": W.tolist(), "alpha": al[rs.randint(len(al))], "groups": groups,
                              "kind": kind, "exact": exact, "partition_id": f"{d}:{sorted(map(sorted, p))}"})
    for r in range(depth):
        kind = pl.KINDS[rs.randint(len(pl.KINDS))]
        h = int(rs.randint(1, 6))
        W = pl.gen_matrix(rs, 5, h, kind)
        groups = pl.random_partition(rs, 5)
        exact = kind in pl.EXACT_KINDS
        al = alphas_for(rs, W, groups, exact)
        cases.append({"unit": "glinear", "W": W.tolist(), "alpha": al[rs.randint(len(al))], "groups": groups,
                      "kind": kind, "exact": exact})

    # ---- mlp_prox_grad
    for kind in pl.KINDS:
        for r in range(2 * depth):
            d, h = shapes[rs.randint(len(shapes))] if r >= 3 else [(1, 1), (2, 3), (3, 5)][r]
            k = int(rs.randint(1, 6))
            Ws = pl.ensure_nonzero_rows(rs, pl.gen_matrix(rs, d, k, kind if kind != "sparse" else "dyadic"))
            W1 = pl.gen_matrix(rs, d, h, kind)
            a = float(pl.DY_ALPHA[rs.randint(len(pl.DY_ALPHA))])
            M = float(pl.DY_M[rs.randint(len(pl.DY_M))])
            if r == 0:
                a = 0.0
            if r == 1:
                M = 0.0
            if kind == "normal" and rs.rand() < 0.5:
                a, M = float(abs(rs.randn())), float(abs(rs.randn()) * 2)
            # in-scope zero skip rows: u = 0 and alpha > 0 only
            if d > 1 and rs.rand() < 0.3 and a > 0:
                i = rs.randint(d)
                Ws[i] = 0.0
                W1[i] = 0.0
            cases.append({"unit": "mlp", "W_skip": Ws.tolist(), "W1": W1.tolist(), "alpha": a, "M": M, "kind": kind,
                          "exact": kind in pl.EXACT_KINDS})
    # breakpoint-targeted rows: alpha and M chosen so that every index idx in 0..h is hit, incl. beta* = 0
    for r in range(2 * depth):
        h = int(rs.randint(1, 6))
        k = int(rs.randint(1, 4))
        u = np.sort(rs.randint(0, 9, size=h) / 4.0)[::-1] * rs.choice([-1.0, 1.0], size=h)
        v = pl.ensure_nonzero_rows(rs, pl.dyadic(rs, (1, k)))
        M = float(rs.choice([0.25, 0.5, 1.0, 2.0]))
        nv = float(np.sqrt((v ** 2).sum()))
        target = rs.rand() * (np.abs(u).max() + 0.5)            # wanted w* level
        s = int((np.abs(u) > target).sum())
        a = nv + M * float(np.sort(np.abs(u))[::-1][:s].sum()) - (1 + s * M * M) * target / M
        a = float(np.round(max(a, 0.0) * 8) / 8)
        cases.append({"unit": "mlp", "W_skip": v.tolist(), "W1": u.reshape(1, -1).tolist(), "alpha": a, "M": M,
                      "kind": "targeted", "exact": True})

    # ---- group_mlp_prox_grad
    for d in range(1, 5):
        for p in pl.ALL_PARTITIONS[d]:
            for r in range(max(1, depth // 4)):
                kind = pl.KINDS[rs.randint(len(pl.KINDS))]
                h = int(rs.randint(1, 6))
                k = int(rs.randint(1, 6))
                groups = pl.shuffle_partition(rs, p)
                Ws = pl.gen_matrix(rs, d, k, kind)
                W1 = pl.gen_matrix(rs, d, h, kind)
                a = float(pl.DY_ALPHA[rs.randint(len(pl.DY_ALPHA))])
                M = float(pl.DY_M[rs.randint(len(pl.DY_M))])
                for g in groups:
                    if not Ws[g].any():
                        if a > 0 and rs.rand() < 0.5:
                            W1[g] = 0.0                          # in-scope zero group
                        else:
                            Ws = pl.ensure_nonzero_rows(rs, Ws, rows=[g[0]])
                cases.append({"unit": "gmlp", "W_skip": Ws.tolist(), "W1": W1.tolist(), "alpha": a, "M": M,
                              "groups": groups, "kind": kind, "exact": kind in pl.EXACT_KINDS,
                              "partition_id": f"{d}:{sorted(map(sorted, p))}"})
    for r in range(depth):
        kind = pl.KINDS[rs.randint(len(pl.KINDS))]
        h = int(rs.randint(1, 6))
        k = int(rs.randint(1, 6))
        groups = pl.random_partition(rs, 5)
        Ws = pl.ensure_nonzero_rows(rs, pl.gen_matrix(rs, 5, k, kind))
        W1 = pl.gen_matrix(rs, 5, h, kind)
        cases.append({"unit": "gmlp", "W_skip": Ws.tolist(), "W1": W1.tolist(),
                      "alpha": float(pl.DY_ALPHA[rs.randint(len(pl.DY_ALPHA))]), "M": float(pl.DY_M[rs.randint(len(pl.DY_M))]),
                      "groups": groups, "kind": kind, "exact": kind in pl.EXACT_KINDS})
    return cases


def fidelity_probes(rs):
    """inputs OUTSIDE the property's scope, used for model/implementation correspondence only (no oracle):
    overlapping groups (the last group wins), duplicated indices, an empty group, an index out of range"""
    W = pl.dyadic(rs, (3, 2))
    Ws = pl.ensure_nonzero_rows(rs, pl.dyadic(rs, (3, 2)))
    W1 = pl.dyadic(rs, (3, 3))
    out = []
    for groups in ([[0, 1], [1, 2]], [[2, 1], [0, 1]], [[0, 0, 1], [2]], [[0, 1, 2], []], [[1], [0, 2], [1]]):
        out.append({"unit": "glinear", "W": W.tolist(), "alpha": 0.5, "groups": groups, "kind": "probe"})
        out.append({"unit": "gmlp", "W_skip": Ws.tolist(), "W1": W1.tolist(), "alpha": 0.5, "M": 1.0, "groups": groups,
                    "kind": "probe"})
    out.append({"unit": "glinear", "W": W.tolist(), "alpha": 0.5, "groups": [[0, 1], [3]], "kind": "probe-index-error"})
    return out


class _IdentityOptimiser:
    """optimiser step = identity, so that `_update_weights` exposes exactly the proximal step"""

    def __init__(self, lr):
        self.learning_rate = lr

    def update_params(self, weights, gradients):
        return None


def update_weights_cases(ctx, rs, rs_or, n, ncomp, ngrid):
    """second observation point named by the property: the weights of the sparse models right after an update whose
    optimiser step is the identity.  The threshold in force is alpha * learning_rate."""
    import gemclus.sparse as S
    for t in range(n):
        d = int(rs.randint(1, 5)); h = int(rs.randint(1, 5)); k = int(rs.randint(1, 5))
        kind = pl.KINDS[rs.randint(len(pl.KINDS))]
        alpha = float(rs.choice([0.5, 1.0, 2.0, 4.0])); lr = float(rs.choice([0.125, 0.25, 0.5, 1.0]))
        groups = None if t % 2 == 0 else pl.random_partition(rs, d)
        if t % 4 < 2:
            W = pl.gen_matrix(rs, d, h, kind)
            m = object.__new__(S.SparseLinearModel)
            m.W_ = W.copy(); m.groups_ = groups; m.alpha = alpha; m.optimiser_ = _IdentityOptimiser(lr)
            inp = {"unit": "linear" if groups is None else "glinear", "W": W.tolist(), "alpha": alpha * lr, "kind": kind,
                   "exact": kind in pl.EXACT_KINDS, "via": "SparseLinearModel._update_weights", "model_alpha": alpha,
                   "learning_rate": lr}
            if groups is not None:
                inp["groups"] = groups
            try:
                m._update_weights([m.W_], [np.zeros_like(W)])
                out = (m.W_.copy(),)
            except Exception as e:  # noqa
                ctx.violation(f"_update_weights raised {type(e).__name__}: {e}", "update", inp, key="update:raise", how=HOW)
                continue
        else:
            Ws = pl.ensure_nonzero_rows(rs, pl.gen_matrix(rs, d, k, kind))
            W1 = pl.gen_matrix(rs, d, h, kind)
            M = float(pl.DY_M[rs.randint(len(pl.DY_M))])
            m = object.__new__(S.SparseMLPModel)
            m.W_skip_ = Ws.copy(); m.W1_ = W1.copy(); m.groups_ = groups; m.alpha = alpha; m.M = M
            m.optimiser_ = _IdentityOptimiser(lr)
            inp = {"unit": "mlp" if groups is None else "gmlp", "W_skip": Ws.tolist(), "W1": W1.tolist(), "alpha": alpha * lr,
                   "M": M, "kind": kind, "exact": kind in pl.EXACT_KINDS, "via": "SparseMLPModel._update_weights",
                   "model_alpha": alpha, "learning_rate": lr}
            if groups is not None:
                inp["groups"] = groups
            try:
                m._update_weights([m.W_skip_, m.W1_], [np.zeros_like(Ws), np.zeros_like(W1)])
                out = (m.W_skip_.copy(), m.W1_.copy())
            except Exception as e:  # noqa
                ctx.violation(f"_update_weights raised {type(e).__name__}: {e}", "update", inp, key="update:raise", how=HOW)
                continue
        ctx.case(("update", json.dumps(inp, sort_keys=True)), not is_trivial(inp), None)
        ctx.count("via _update_weights (identity optimiser)")
        # the weights after the update are the proximal step of the weights before, threshold alpha * learning_rate
        direct = run_impl(inp)
        ctx.compared("update_weights")
        if not all(np.array_equal(a, b) for a, b in zip(out, direct)):
            ctx.corr_break("update_weights", inp, {"after_update": [o.tolist() for o in out],
                                                   "direct_call": [o.tolist() for o in direct]})
        oracle(ctx, rs_or, inp, out, ncomp, ngrid)


def flat_out(out):
    return np.concatenate([np.asarray(o, float).ravel() for o in out])


def is_trivial(inp):
    arrs = [np.array(inp[k], float) for k in ("W", "W_skip", "W1") if k in inp]
    return not any(a.any() for a in arrs)


def run(ctx):
    ctx.rule = ("4 units (linear, group-linear, hier-prox, group hier-prox) x shapes d,k,h in 1..5 x entry kinds (dyadic k/4, "
                "ties |u_a|=|u_b|, sparse with zero rows, Pythagorean rows with alpha = exactly the row norm, N(0,s) doubles, "
                "negative zeros) x alpha in {0, dyadics, a group norm} x M in {0, .25, .5, 1, 2, 10} x ALL set partitions of "
                "<= 4 features (shuffled) + random partitions of 5; breakpoint-targeted rows hit every idx in 0..h; zero skip "
                "rows only with u = 0 and alpha > 0.  Non-trivial = some input weight is non-zero; distinct = hash of (unit, "
                "arrays, alpha, M, groups).")
    regen(ctx)
    ctx.do_prove()
    quick = ctx.tier == "quick"
    depth = 16 if quick else 250
    ncomp = 40 if quick else 150
    ngrid = 2001 if quick else 20001
    rs = np.random.RandomState(ctx.seed * 104729 + 5)
    rs_or = np.random.RandomState(ctx.seed * 104729 + 6)
    cases = gen_cases(ctx, rs, depth)
    probes = fidelity_probes(rs)
    allc = cases + probes
    impl_out, lines = [], []
    for inp in allc:
        try:
            o = run_impl(inp)
        except Exception as e:  # noqa
            o = e
        impl_out.append(o)
        lines.append(model_line(inp))
    try:
        answers = core.run_driver("Prox", lines)
    except core.DriverBuildError as e:
        ctx.proof["broken"].append({"theorem": "model build", "reason": str(e)[-400:]})
        answers = [None] * len(lines)
    bit_exact = 0
    parts_seen = set()
    for n, (inp, o, ans) in enumerate(zip(allc, impl_out, answers)):
        u = inp["unit"]
        in_scope = n < len(cases)
        key = (u, json.dumps({k: v for k, v in inp.items() if k in ("W", "W_skip", "W1", "alpha", "M", "groups")}))
        arrs = [np.array(inp[k], float) for k in ("W", "W_skip", "W1") if k in inp]
        shape = "x".join(str(s) for s in arrs[-1].shape)
        ctx.case(key, not is_trivial(inp),
                 {"unit": u, "kind": inp["kind"], "shape": shape, "alpha": inp["alpha"], "M": inp.get("M"),
                  "groups": inp.get("groups")} if n % 37 == 0 else None)
        ctx.count(f"unit:{u}")
        ctx.count(f"kind:{inp['kind']}")
        if inp["alpha"] == 0:
            ctx.count("alpha = 0")
        if inp.get("M") == 0:
            ctx.count("M = 0")
        if arrs[-1].shape[1] == 1:
            ctx.count("h = 1")
        if any((not a.any(axis=1).all()) for a in arrs[:1]):
            ctx.count("has a zero (skip) row")
        if "partition_id" in inp:
            parts_seen.add((u, inp["partition_id"]))
        # ---- the implementation must not raise on in-scope inputs
        if isinstance(o, Exception):
            if in_scope:
                ctx.violation(f"{u} raised {type(o).__name__}: {o}", u, inp, key=f"{u}:raise", how=HOW)
                continue
        # ---- correspondence with the Lean model
        if ans is not None:
            mf, idxs, tok = pl.parse_answer(ans)
            ctx.compared(u)
            if isinstance(o, Exception):
                if not (tok == "index-error" and isinstance(o, IndexError)):
                    ctx.corr_break(u, inp, {"impl": repr(o), "model": ans[:200]})
                else:
                    ctx.count("probe: IndexError agrees")
                continue
            if tok is not None:
                ctx.corr_break(u, inp, {"impl": "arrays", "model": tok})
            else:
                scale = max([1e-300] + [float(np.abs(a).max()) for a in arrs if a.size])
                ok, bit, detail = pl.compare(flat_out(o), mf, scale)
                bit_exact += bit
                if not ok:
                    ctx.corr_break(u, inp, {"detail": detail, "impl": flat_out(o).tolist(), "model": mf.tolist()})
                if idxs is not None:
                    h = arrs[-1].shape[1]
                    for i in idxs:
                        ctx.count("breakpoint idx = 0" if i == 0 else ("breakpoint idx = h" if i == h else "breakpoint 0 < idx < h"))
        # ---- independent oracle (in-scope inputs only)
        if in_scope and not isinstance(o, Exception):
            oracle(ctx, rs_or, inp, o, ncomp, ngrid)
    update_weights_cases(ctx, rs, rs_or, 16 if quick else 200, ncomp, ngrid)
    ctx.extra["bit_exact_outputs"] = bit_exact
    ctx.extra["group_partitions_of_le4_features_all_covered"] = (
        len({p for (u, p) in parts_seen if u == "glinear"}) == 23 and len({p for (u, p) in parts_seen if u == "gmlp"}) == 23)
    ctx.notes.append("correspondence: inputs bit-exact (hex doubles); outputs within 1e-12 relative, identical zero pattern; "
                     "`bit_exact_outputs` counts answers identical to the last bit")
    ctx.notes.append("hier_prox_optimal is proved in full (sorted-breakpoint search => KKT point => global minimiser over all "
                     "feasible pairs); theorems are over the reals, division by ||v|| = 0 follows IEEE in the Float model and is "
                     "exercised here only on the in-scope rows (u = 0, alpha > 0)")
    ctx.assumptions.append("M ** 2 is modelled as M * M; numpy's pairwise summation for >= 8 summands is modelled by a "
                           "left-to-right sum (identical on inputs whose squares add exactly; <= 1e-12 otherwise)")
    return ctx.finish()


def replay(ctx, path):
    rep = json.load(open(path))
    inp = rep.get("input")
    if not isinstance(inp, dict) or "unit" not in inp:
        print(f"replay {path}: kind={rep.get('kind')} (nothing to re-run: {json.dumps(rep)[:400]})")
        return 1
    inp = {k: v for k, v in inp.items() if k != "group"}
    o = run_impl(inp)
    print("input:", json.dumps(inp))
    print("output:", [np.asarray(x).tolist() for x in o])
    n = oracle(ctx, np.random.RandomState(0), inp, o, 200, 20001)
    for v in ctx.violations:
        print("VIOLATION", v["what"], json.dumps(v["expected"], default=str)[:600])
    print("oracle verdict:", "violated" if n else "held")
    return 1 if n else 0
