"""C04 — fit succeeds on every valid configuration and yields a coherent model."""
import json

import numpy as np

from .. import core, fit_lib as fl, sweep_lib as sl

FIT_SECONDS = 20.0
HOW = ("harness.sweep_lib.rebuild(input) -> (estimator, X, y); estimator.fit(X, y) (Kauri inside sweep_lib.kauri_translit()); "
       "then the coherence oracle harness.props.c04.coherence")


# ------------------------------------------------------------------ oracle (written from the property statement)
def first_argmax(P):
    """index of the first maximal entry of each row, by an explicit scan"""
    out = []
    for row in np.asarray(P):
        b = 0
        for j in range(1, len(row)):
            if row[j] > row[b]:
                b = j
        out.append(b)
    return np.array(out, dtype=int)


def proba_ok(P, n, K):
    P = np.asarray(P)
    if P.shape != (n, K):
        return f"predict_proba has shape {P.shape}, expected {(n, K)}"
    if not np.isfinite(P).all():
        return "predict_proba has non-finite entries"
    if (P < 0).any():
        return "predict_proba has negative entries"
    if np.abs(P.sum(1) - 1).max() > 1e-9:
        return f"predict_proba rows sum to {P.sum(1).tolist()}"
    return None


def coherence(model, info, X, y, Xt=None, yt=None):
    """list of (check, message, expected, actual) that FAIL on a fitted GEMINI-trained model"""
    bad = []
    p = info["params"]
    n, K = len(X), p["n_clusters"]
    lab = np.asarray(model.labels_)
    if lab.shape != (n,) or not np.issubdtype(lab.dtype, np.integer):
        bad.append(("labels-shape", f"labels_ has shape {lab.shape} dtype {lab.dtype}", (n,), list(lab.shape)))
    elif lab.min() < 0 or lab.max() >= K:
        bad.append(("labels-range", f"labels_ outside [0, {K})", K, lab.tolist()))
    P = model.predict_proba(X)
    msg = proba_ok(P, n, K)
    if msg:
        bad.append(("proba", msg, None, np.asarray(P).tolist()))
        return bad
    pred = np.asarray(model.predict(X))
    am = first_argmax(P)
    if pred.shape != (n,) or not (pred == am).all():
        bad.append(("predict-argmax", "predict is not the (first) arg-max of predict_proba", am.tolist(), pred.tolist()))
    if lab.shape == pred.shape and not (pred == lab).all():
        bad.append(("predict-labels", "predict(X_train) differs from labels_", lab.tolist(), pred.tolist()))
    gem, aff = sl.expected_objective(info, X, y)
    exp = float(gem(np.asarray(P), aff))
    got = model.score(X, y)
    if not isinstance(got, float) or not core.close(got, exp, rtol=1e-12, atol=1e-12):
        bad.append(("score", "score(X) is not the GEMINI of predict_proba(X) and the affinity of X", exp, got))
    if model.n_iter_ != p["max_iter"]:
        bad.append(("n_iter", "n_iter_ differs from max_iter", p["max_iter"], model.n_iter_))
    want = {"adam": "AdamOptimizer", "sgd": "SGDOptimizer"}[p["solver"]]
    if type(model.optimiser_).__name__ != want:
        bad.append(("optimiser", "optimiser_ does not match solver", want, type(model.optimiser_).__name__))
    if Xt is not None:
        Pt = model.predict_proba(Xt)
        msg = proba_ok(Pt, len(Xt), K)
        if msg:
            bad.append(("proba-new-data", msg, None, np.asarray(Pt).tolist()))
            return bad
        predt = np.asarray(model.predict(Xt))
        if not (predt == first_argmax(Pt)).all():
            bad.append(("predict-argmax-new-data", "predict is not the arg-max of predict_proba on new data",
                        first_argmax(Pt).tolist(), predt.tolist()))
        gem, afft = sl.expected_objective(info, Xt, yt)
        exp = float(gem(np.asarray(Pt), afft))
        got = model.score(Xt, yt)
        if not core.close(got, exp, rtol=1e-12, atol=1e-12):
            bad.append(("score-new-data", "score(X_new) is not the GEMINI of predict_proba(X_new)", exp, got))
    return bad


def coherence_kauri(model, info, X):
    bad = []
    n, K = len(X), info["params"]["max_clusters"]
    lab = np.asarray(model.labels_)
    if lab.shape != (n,) or not np.issubdtype(lab.dtype, np.integer):
        bad.append(("labels-shape", f"labels_ has shape {lab.shape} dtype {lab.dtype}", (n,), list(lab.shape)))
    elif lab.min() < 0 or lab.max() >= K:
        bad.append(("labels-range", f"labels_ outside [0, {K})", K, lab.tolist()))
    from gemclus.tree.kauri import Tree
    if not isinstance(getattr(model, "tree_", None), Tree):
        bad.append(("tree", "no tree_ after fit", "Tree", repr(getattr(model, "tree_", None))))
        return bad
    # "predict reproduces labels_ on the training data" is stated for every estimator: the tree must route every training row to
    # the cluster fit recorded for it (rows with equal values on the split feature included)
    pred = np.asarray(model.predict(np.asarray(X, dtype=np.float64)))
    if pred.shape == lab.shape and not (pred == lab).all():
        bad.append(("predict-labels", f"predict(X_train) differs from labels_ on {int((pred != lab).sum())} of {n} samples", lab.tolist(), pred.tolist()))
    return bad


# ------------------------------------------------------------------ one fit
def attempt(info):
    """fit the configuration `info`; returns ('ok', model) | ('rejected', label) | ('raised', exc) | ('hang', exc)"""
    model, X, y = sl.rebuild(info)
    try:
        with sl.time_limit(FIT_SECONDS):
            if info["estimator"] == "Kauri":
                with sl.kauri_translit():
                    model.fit(X, y)
            else:
                model.fit(X, y)
    except sl.FitTimeout as e:
        return "hang", e
    except Exception as e:
        c = sl.classify(e)
        return ("rejected", c) if c else ("raised", e)
    return "ok", model


def judge(info, Xt=None, yt=None, fit_predict=False):
    """outcome of one configuration: ('rejected', label, None) | ('hang', exc, None) | ('raised', exc, None) |
    ('incoherent', failed checks, model) | ('ok', [], model)"""
    st, r = attempt(info)
    if st != "ok":
        return st, r, None
    X = np.array(info["X"], dtype=float)
    y = None if info.get("y") is None else np.array(info["y"], dtype=float)
    try:
        with sl.time_limit(FIT_SECONDS):
            bad = coherence_kauri(r, info, X) if info["estimator"] == "Kauri" else coherence(r, info, X, y, Xt, yt)
            if fit_predict:
                m2, X2, y2 = sl.rebuild(info)
                if info["estimator"] == "Kauri":
                    with sl.kauri_translit():
                        fp = m2.fit_predict(X2, y2)
                else:
                    fp = m2.fit_predict(X2, y2)
                if not np.array_equal(np.asarray(fp), np.asarray(r.labels_)):
                    bad.append(("fit_predict", "fit_predict(X) differs from fit(X).labels_ (same random_state)",
                                np.asarray(r.labels_).tolist(), np.asarray(fp).tolist()))
    except Exception as e:
        bad = [("api-raises", f"{type(e).__name__}: {str(e)[:200]} at {sl.where(e)} after a successful fit", None, None)]
    return ("incoherent" if bad else "ok"), bad, r


def failure_class(st, r):
    if st == "incoherent":
        return st, r[0][0]
    return (st,)


def _defaults(name):
    import inspect
    return {k: v.default for k, v in inspect.signature(fl.estimators()[name].__init__).parameters.items() if k != "self"}


def shrink(info, fclass):
    """simplify a failing configuration while the same kind of failure persists: canonical data first, then every
    hyper-parameter back to its default (fixed order), then the plain LinearModel when it accepts what is left"""
    cur = json.loads(json.dumps(info))

    def same(cand):
        st, r, _ = judge(cand)
        return st in ("raised", "incoherent", "hang") and failure_class(st, r) == fclass
    Kc = cur["params"].get("n_clusters", cur["params"].get("max_clusters", 3))
    d = len(cur["X"][0])
    X0 = fl.small_data(np.random.RandomState(1), max(6, Kc), d)
    if np.min(cur["X"]) >= 0:
        X0 = np.abs(X0)
    cand = json.loads(json.dumps(cur))
    cand["X"] = X0.tolist()
    y0 = sl.precomputed_for(cur["params"], X0)
    cand["y"] = None if y0 is None else y0.tolist()
    if same(cand):
        cur = cand
    if cur.get("container", "ndarray") != "ndarray":
        cand = json.loads(json.dumps(cur))
        cand["container"] = "ndarray"
        if same(cand):
            cur = cand
    defaults = _defaults(cur["estimator"])
    for k in sorted(cur["params"]):
        if k == "max_iter":
            continue
        dv = 0 if k == "random_state" else defaults.get(k)
        if cur["params"][k] == dv:
            continue
        cand = json.loads(json.dumps(cur))
        cand["params"][k] = dv
        if same(cand):
            cur = cand
    if cur["estimator"] != "LinearModel":
        ldef = _defaults("LinearModel")
        nd = {k: v for k, v in cur["params"].items() if k in ("random_state", "max_iter") or v != defaults.get(k)}
        if all(k in ldef for k in nd):
            cand = json.loads(json.dumps(cur))
            cand["estimator"] = "LinearModel"
            cand["params"] = {"gemini": "mmd_ova", "n_clusters": 3, "solver": "adam", **nd}
            if same(cand):
                cur = cand
    return cur


def key_of(info):
    defaults = _defaults(info["estimator"])
    nd = sorted(f"{k}={v}" for k, v in info["params"].items()
                if k not in ("random_state", "max_iter") and v != defaults.get(k))
    if info.get("container", "ndarray") != "ndarray":
        nd.append("X:" + info["container"])
    est = "" if info["estimator"] == "LinearModel" else info["estimator"]
    return f"{est}[{','.join(nd)}]"


def run_row(ctx, name, row, rs, idx, new_data=True):
    kw, X, y, info = sl.concretise(name, row, rs)
    canon = (name, json.dumps(info["params"], sort_keys=True, default=str), np.asarray(X).tobytes())
    Xt = yt = None
    if new_data and name != "Kauri" and not name.startswith("Categorical"):
        nt = int(rs.choice([1, 2, 5]))
        Xt = sl.make_data(rs, nt, X.shape[1], nonneg=bool(np.min(X) >= 0))
        if y is not None:
            yt = sl.precomputed_for(row, Xt)
    st, r, model = judge(info, Xt, yt, fit_predict=(idx % 5 == 0))
    ctx.count(f"fits:{name}")
    if st == "rejected":
        ctx.case(canon, False, None)
        ctx.count("rejected_by_" + r)
        return None
    ctx.case(canon, True, {"estimator": name, "params": info["params"], "n": len(X), "d": len(X[0])} if idx % 97 == 0 else None)
    ctx.count("container:" + info["container"])
    if st == "ok":
        ctx.count("fit_ok_and_coherent")
        if idx % 5 == 0:
            ctx.count("fit_predict_checked")
        if idx % 4 == 1:
            X2 = refit(ctx, name, row, rs, info, model, X, y)
            return None if X2 is None else (model, X2)     # the object now describes the second data set
        return model, X
    fclass = failure_class(st, r)
    small = shrink(info, fclass)
    st2, r2, _ = judge(small)
    if st2 not in ("raised", "incoherent", "hang") or failure_class(st2, r2) != fclass:
        small, st2, r2 = info, st, r
    if st2 == "hang":
        ctx.count("fit_hang")
        ctx.violation(f"fit did not terminate within {FIT_SECONDS} s", "fit", small, key=f"hang:{key_of(small)}", how=HOW)
    elif st2 == "raised":
        ctx.count(f"fit_raised:{type(r).__name__}@{sl.where(r).split(':')[-1]}")
        ctx.violation(f"fit raised {type(r2).__name__}: {str(r2)[:200]} (at {sl.where(r2)}) on a configuration accepted by validation",
                      "fit", small, expected="fit returns self", actual=f"{type(r2).__name__}: {str(r2)[:200]}",
                      key=f"fit-raises:{key_of(small)}", how=HOW)
    else:
        for check, msg, exp, act in r2:
            ctx.count(f"incoherent:{check}")
            ctx.violation(f"{small['estimator']}: {msg}", check, small, expected=exp, actual=act,
                          key=f"{check}:{key_of(small)}", how=HOW)
    return None


def kauri_sequences(ctx, rs, reps):
    """several Kauri estimators fitted one after the other in the same process, on different data and limits: every one of them
    (the EARLIER ones included, re-examined after the later fits) returns labels in range together with a tree that reproduces them"""
    from gemclus.tree import Kauri
    how = "Kauri(**p1).fit(X1); Kauri(**p2).fit(X2); ... then predict / labels_ / tree_ of each model"
    for rep in range(reps):
        fitted = []
        with sl.kauri_translit():
            for j in range(3):
                n, d = int(rs.randint(8, 16)), int(rs.randint(1, 4))
                X = sl.make_data(rs, n, d, nonneg=False)
                p = {"max_clusters": int(rs.randint(2, 5)), "max_depth": [None, 2, 3][rs.randint(3)], "kernel": ["linear", "rbf"][rs.randint(2)],
                     "random_state": int(rs.randint(100))}
                try:
                    m = Kauri(**p).fit(X)
                except Exception as e:
                    ctx.violation(f"Kauri fit number {j + 1} in the same process raised {type(e).__name__}: {e}", "fit",
                                  {"estimator": "Kauri", "params": p, "X": np.asarray(X).tolist(), "earlier_fits": len(fitted)},
                                  key="kauri-sequence:raise", how=how)
                    break
                fitted.append((m, np.asarray(X, float), p))
            for j, (m, X, p) in enumerate(fitted):
                ctx.compared("kauri-sequence")
                ctx.case(("kauri-seq", rep, j, X.tobytes(), repr(p)), True, None)
                bad = coherence_kauri(m, {"params": p}, X)
                try:
                    pred = np.asarray(m.predict(X))
                    if pred.shape != (len(X),) or not (pred == np.asarray(m.labels_)).all():
                        bad.append(("predict-labels", "predict(X_train) differs from labels_", np.asarray(m.labels_).tolist(), pred.tolist()))
                    t = m.tree_
                    nl = sum(1 for c in t.children_left if c == -1)
                    if t.n_nodes != len(t.children_left) or t.n_nodes != 2 * nl - 1:
                        bad.append(("tree-shape", f"tree_ has n_nodes={t.n_nodes}, {len(t.children_left)} stored nodes, {nl} leaves", None, None))
                except Exception as e:
                    bad.append(("api-raises", f"{type(e).__name__}: {str(e)[:160]} when model {j + 1} of {len(fitted)} is examined after the later fits", None, None))
                for check, msg, exp, act in bad:
                    ctx.violation(f"Kauri model number {j + 1} of {len(fitted)} fitted in one process: {msg}", check,
                                  {"estimator": "Kauri", "params": p, "X": X.tolist(), "position_in_sequence": j + 1, "sequence_length": len(fitted)},
                                  expected=exp, actual=act, key=f"kauri-sequence:{check}", how=how)


def zero_column_groups(ctx, rs, reps):
    """sparse linear models with feature groups on data where every feature of one group is an all-zero column: those weights get no
    gradient and are shrunk to EXACTLY zero within a few steps; the fit must still end in a coherent model (finite data, accepted
    configuration)"""
    E = fl.estimators()
    how = "<SparseLinear*>(groups=..., alpha=5, learning_rate=0.02, max_iter=60).fit(X) with X[:, group] = 0"
    for rep in range(reps):
        for name in ("SparseLinearModel", "SparseLinearMMD", "SparseLinearMI"):
            n, d, K = 12, 4, 2
            X = fl.small_data(rs, n, d)
            X[:, [2, 3]] = 0.0
            groups = [[[0, 1], [2, 3]], [[0, 1]], [[2, 3]]][rep % 3]        # the second is completed by singleton groups of zero columns
            kw = dict(n_clusters=K, groups=groups, alpha=5.0, learning_rate=0.02, max_iter=60, solver=["sgd", "adam"][rep % 2],
                      random_state=int(rs.randint(100)))
            inp = {"estimator": name, "params": kw, "X": X.tolist()}
            ctx.case(("zero-group", name, json.dumps(kw, sort_keys=True), X.tobytes()), True, None)
            ctx.count("zero-column-group-fits")
            try:
                model = E[name](**kw).fit(X)
            except Exception as e:
                ctx.violation(f"{name}: fit raised {type(e).__name__}: {str(e)[:160]} on data with an all-zero feature group", "fit", inp,
                              key=f"fit-raises:zero-group:{name}", how=how)
                continue
            msg = proba_ok(model.predict_proba(X), n, K)
            lab = np.asarray(model.labels_)
            if msg is None and not (np.asarray(model.predict(X)) == lab).all():
                msg = "predict(X_train) differs from labels_"
            if msg is None and not np.isfinite(model.score(X)):
                msg = "score is not finite"
            if msg is None and not all(np.isfinite(np.asarray(w, dtype=float)).all() for w in model._get_weights()):
                msg = "non-finite weights"
            if msg:
                ctx.violation(f"{name} with groups {groups} on data whose columns 2 and 3 are zero: {msg}", "proba", inp,
                              key=f"proba:zero-group:{name}", how=how)


def refit(ctx, name, row, rs, info, model, X, y):
    """the SAME estimator object fitted a second time on other data (same or larger sample count): the second fit must
    give a coherent model of the NEW data (labels of the new length, predict = arg-max = labels_, score = GEMINI of the new
    predictions), whatever the first fit left on the object"""
    X = np.asarray(X, float)
    n2 = len(X) if rs.rand() < 0.5 else len(X) + int(rs.randint(1, 3))
    X2 = sl.make_data(rs, n2, X.shape[1], nonneg=bool(np.min(X) >= 0))
    y2 = sl.precomputed_for(row, X2) if y is not None else None
    info2 = dict(info, X=np.asarray(X2).tolist(), y=None if y2 is None else np.asarray(y2).tolist())
    try:
        with sl.time_limit(FIT_SECONDS):
            if name == "Kauri":
                with sl.kauri_translit():
                    model.fit(X2, y2)
            else:
                model.fit(X2, y2)
            bad = coherence_kauri(model, info2, X2) if name == "Kauri" else coherence(model, info2, X2, y2)
    except Exception as e:
        if sl.classify(e):
            ctx.count("refit_rejected_by_" + sl.classify(e))
            return None
        bad = [("refit-raises", f"{type(e).__name__}: {str(e)[:200]} at {sl.where(e)} when the fitted estimator is fitted again on other data", None, None)]
    ctx.count("refit_checked")
    for check, msg, exp, act in bad:
        ctx.violation(f"{name}, second fit of the same object on other data: {msg}", check, {**info2, "first_fit_X": X.tolist()},
                      expected=exp, actual=act, key=f"refit:{check}:{name}",
                      how="m = harness.sweep_lib.rebuild(info)[0]; m.fit(first_fit_X); m.fit(X); harness.props.c04.coherence(m, info, X, y)")
    return None if bad else np.asarray(X2, float)


# ------------------------------------------------------------------ correspondence with the Lean API model
def api_line(kind, model, X, Xt):
    n, d = X.shape
    K = model.n_clusters
    solver = model.solver
    head = f"api {kind} {n} {len(Xt)} {d}"
    if kind == "linear":
        return f"{head} {K} {model.max_iter} {solver} {core.fl(X)} {core.fl(Xt)} {core.fl(model.W_)} {core.fl(model.b_)}"
    if kind == "mlp":
        h = model.n_hidden_dim
        return (f"{head} {h} {K} {model.max_iter} {solver} {core.fl(X)} {core.fl(Xt)} {core.fl(model.W1_)} {core.fl(model.b1_)} "
                f"{core.fl(model.W2_)} {core.fl(model.b2_)}")
    if kind == "smlp":
        h = model.n_hidden_dim
        return (f"{head} {h} {K} {model.max_iter} {solver} {core.fl(X)} {core.fl(Xt)} {core.fl(model.W1_)} {core.fl(model.b1_)} "
                f"{core.fl(model.W2_)} {core.fl(model.b2_)} {core.fl(model.W_skip_)}")
    raise ValueError(kind)


KIND = {"LinearModel": "linear", "LinearMMD": "linear", "LinearWasserstein": "linear", "RIM": "linear",
        "SparseLinearModel": "linear", "SparseLinearMMD": "linear", "SparseLinearMI": "linear",
        "MLPModel": "mlp", "MLPMMD": "mlp", "MLPWasserstein": "mlp", "SparseMLPModel": "smlp", "SparseMLPMMD": "smlp"}


def correspondence(ctx, fitted, rs):
    lines, expect = [], []
    for name, model, X in fitted:
        kind = KIND[name]
        Xt = sl.make_data(rs, int(rs.randint(1, 4)), X.shape[1])
        if rs.rand() < 0.3:
            Xt[0] = 0.0          # all logits equal up to the bias
        lines.append(api_line(kind, model, X, Xt))
        P, Pt = model.predict_proba(X), model.predict_proba(Xt)
        expect.append((name, {"estimator": name, "X": X.tolist(), "Xt": Xt.tolist(),
                              "weights": [np.asarray(w).tolist() for w in model._get_weights()]},
                       model.labels_.tolist(), model.predict(Xt).tolist(), np.asarray(Pt).ravel().tolist(),
                       int(model.n_iter_), type(model.optimiser_).__name__, np.asarray(P)))
    if not lines:
        return
    try:
        outs = core.run_driver("Api", lines)
    except core.DriverBuildError as e:
        ctx.proof["broken"].append({"theorem": "model build (Drivers/Api.lean)", "reason": str(e)[-400:]})
        return
    for (name, inp, labels, predt, Pt, n_iter, opt, P), o in zip(expect, outs):
        ctx.compared("api:" + KIND[name])
        parts = [s.strip().split() for s in o.split("|")]
        try:
            m_labels, m_pred, m_P, m_meta = [int(x) for x in parts[0]], [int(x) for x in parts[1]], [core.unhex(x) for x in parts[2]], parts[3]
        except Exception:
            ctx.corr_break("api:" + KIND[name], inp, {"model_answer": o[:300]})
            continue
        # an arg-max may legitimately differ only when two probabilities are within rounding of each other
        tie = np.sort(P, axis=1)
        tight = bool(P.shape[1] > 1 and (tie[:, -1] - tie[:, -2]).min() < 1e-12)
        ok = core.close_vec(Pt, m_P, rtol=1e-9) and m_meta == [str(n_iter), opt] and m_pred == predt if not tight else True
        if ok and not tight:
            ok = m_labels == labels
        if tight:
            ctx.count("api_near_tie_skipped")
        if not ok:
            ctx.corr_break("api:" + KIND[name], inp, {"impl": {"labels": labels, "predict": predt, "proba": Pt, "meta": [n_iter, opt]},
                                                      "model": {"labels": m_labels, "predict": m_pred, "proba": m_P, "meta": m_meta}})


# ------------------------------------------------------------------ entry points
def run(ctx):
    fl.quiet()
    ctx.rule = ("per estimator (18) a pairwise covering array over its own factors: data size n in {K, K+1, 9} x d in {1,3} x input container (ndarray, list, float32, int, Fortran) x "
                "n_clusters 1..4 x solver x learning_rate x max_iter in {1,2} x batch_size in {1,2,n-1,n,n+1,None} x GEMINI in "
                "13 names + 4 instances (rbf MMD, l1 Wasserstein, precomputed MMD/Wasserstein OvO) + None x ovo x every "
                "PAIRWISE_KERNEL_FUNCTIONS name + precomputed (+kernel_params) x metrics x reg x hidden size x alpha x groups x "
                "M x dynamic x n_cuts x temperature x feature_mask x Kauri limits; thorough adds a random product. A case is "
                "non-trivial when validation accepted the configuration (fit was attempted to the end); distinct = distinct "
                "(estimator, parameters, data). Rejections BY VALIDATION are classified by traceback origin and counted.")
    ctx.assumptions.append("'never raises' is a sweep over configurations, not a theorem: partial by nature (DESIGN 6, C04)")
    ctx.do_prove()
    rs = np.random.RandomState(ctx.seed * 7919 + 4)
    E = fl.estimators()
    fitted = []
    idx = 0
    for name in E:
        sp = sl.space(name)
        rows = sl.pairwise_rows(sp, rs)
        if ctx.tier != "quick":
            rows += [sl.random_row(sp, rs) for _ in range(2400)]
        ctx.count(f"rows:{name}", len(rows))
        for row in rows:
            idx += 1
            res = run_row(ctx, name, row, rs, idx)
            if res is not None and name in KIND and (ctx.tier != "quick" or idx % 3 == 0):
                fitted.append((name, res[0], res[1]))
    kauri_sequences(ctx, rs, 4 if ctx.tier == "quick" else 40)
    zero_column_groups(ctx, rs, 3 if ctx.tier == "quick" else 12)
    cap = 50 if ctx.tier == "quick" else 500
    chosen, seen = [], {}
    for name, model, X in fitted:
        k = KIND[name]
        if seen.get(k, 0) < cap:
            seen[k] = seen.get(k, 0) + 1
            chosen.append((name, model, X))
    correspondence(ctx, chosen, rs)
    return ctx.finish()


def replay(ctx, path):
    fl.quiet()
    rep = json.load(open(path))
    info = rep["input"]
    st, r = attempt(info)
    if st == "ok":
        model, X, y = r, np.array(info["X"], float), None if info.get("y") is None else np.array(info["y"], float)
        bad = coherence_kauri(model, info, X) if info["estimator"] == "Kauri" else coherence(model, info, X, y)
        if not bad:
            print(f"replay {path}: fit succeeded and the model is coherent")
            return 0
        print(f"VIOLATION property=C04 replay={path} ({bad[0][1]})")
        return 1
    if st == "rejected":
        print(f"replay {path}: configuration rejected by validation ({r})")
        return 0
    print(f"VIOLATION property=C04 replay={path} ({type(r).__name__}: {str(r)[:160]})")
    return 1
