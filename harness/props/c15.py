"""C15 — Douglas: masked features inert, valid soft bins, cells = number of cut points below, active points."""
import json
import math

import numpy as np

from .. import core, douglas_lib as dl
from translator import douglas as td, tables

PRIME = 7919
TEMPS = [1e-4, 1e-3, 0.03, 0.1, 0.5, 1.0, 10.0, 100.0]
RTOL = 1e-10
HOW_ACTIVE = ("m = harness.douglas_lib.build(K, n_cuts, mask, T, X_fit); douglas_lib.overwrite(m, cut_points_list, leaf_scores); "
              "m.find_active_points(X)  vs  douglas_lib.spec_active(X, cut_points_list)")
HOW_INFER = ("m = harness.douglas_lib.build(K, n_cuts, mask, T, X_fit); douglas_lib.overwrite(m, cut_points_list, leaf_scores); "
             "m.predict_proba(X) / m._infer(X); m._leaf; m._all_binnings")


def regen(ctx):
    """regenerate Gen/Douglas.lean (`_leaf_binning`, `_merge_leaf`, `_infer`, `_compute_grads` as gemclus/tree/douglas.py says
    now); Props/C15Gen.lean proves it equal to the hand model Model/Douglas.lean the C15 / C03Douglas / C18 theorems are stated
    about.  Also called by C03 and C18 (after their own regeneration: the records are merged)."""
    try:
        data, text = td.douglas()
    except (tables.TranslationFailure, SyntaxError, OSError) as e:
        prev = ctx.extra.get("translation_failure")
        ctx.extra["translation_failure"] = (prev + "; " if prev else "") + f"douglas: {e}"
        return None
    changed = core.write_if_changed(core.LEAN + "/GemVerif/Gen/Douglas.lean", text)
    units = [f"{u['file']}::{u['class']}.{u['method']} -> Gen/Douglas.lean::{name}" for name, u in data.items()]
    prev = getattr(ctx, "translation", None) or {"units": [], "regenerated": 0, "identical_to_committed": True}
    ctx.translation = {"units": list(prev.get("units", [])) + units, "regenerated": prev.get("regenerated", 0) + len(data),
                       "identical_to_committed": bool(prev.get("identical_to_committed", True)) and not changed}
    return data


# ----------------------------------------------------------------- generators
def gen_config(rs, lowT=False):
    d = int(rs.randint(1, 5))
    c = int(rs.choice([1, 1, 2, 2, 3, 4]))
    kind = rs.choice(["none", "random", "random", "single", "all_true"])
    if kind == "none":
        mask = None
    elif kind == "single":
        mask = np.zeros(d, dtype=bool)
        mask[rs.randint(d)] = True
    elif kind == "all_true":
        mask = np.ones(d, dtype=bool)
    else:
        mask = rs.rand(d) < 0.6
        if not mask.any():
            mask[rs.randint(d)] = True
    used = dl.used_of(mask, d)
    while (c + 1) ** len(used) > 256:
        if c > 1:
            c -= 1
        else:
            break
    K = int(rs.randint(1, 5))
    n = int(max(K, rs.randint(2, 7)))
    T = float(rs.choice([1e-3, 1e-4])) if lowT else float(rs.choice(TEMPS))
    return d, c, mask, used, K, n, T


def gen_data(rs, n, d):
    regime = rs.choice(["normal", "normal", "grid", "scaled", "const_col"])
    if regime == "grid":
        X = rs.randint(-4, 5, size=(n, d)) / 2.0
    elif regime == "scaled":
        X = rs.randn(n, d) * 100.0
    else:
        X = rs.randn(n, d)
        if regime == "const_col":
            X[:, rs.randint(d)] = float(rs.randint(-2, 3))
    return regime, X.astype(float)


def gen_cuts(rs, c, X_f):
    regime = rs.choice(["normal", "sorted", "reversed", "dup", "grid", "wide", "data_values"])
    if regime == "grid":
        v = rs.randint(-4, 5, size=c) / 2.0
    elif regime == "wide":
        v = rs.randn(c) * 10.0
    elif regime == "data_values":
        v = rs.choice(X_f, size=c)          # cut points equal to observed values
    else:
        v = rs.randn(c)
        if regime == "sorted":
            v = np.sort(v)
        elif regime == "reversed":
            v = np.sort(v)[::-1].copy()
        elif regime == "dup" and c >= 2:
            v[rs.randint(1, c)] = v[0]
    return regime, np.asarray(v, dtype=float)


def build_real(ctx, K, c, mask, T, X, seed):
    """the real object; None (and a violation) when a legal configuration cannot even be fitted"""
    try:
        return dl.build(K, c, mask, T, X, seed)
    except Exception as e:  # fit itself is not the subject here; fall back to a fit at the default temperature
        ctx.count(f"fit_failed_at_T:{type(e).__name__}")
    try:
        m = dl.build(K, c, mask, 0.1, X, seed)
        m.set_params(temperature=T)
        return m
    except Exception as e:
        ctx.case(("fit-raise", K, c, repr(mask), X.tobytes()), False, None)
        ctx.violation(f"Douglas(n_clusters={K}, n_cuts={c}, feature_mask={None if mask is None else mask.tolist()}).fit raised "
                      f"{type(e).__name__}: {e}", "fit", {"K": K, "n_cuts": c, "mask": None if mask is None else mask.tolist(), "X": X.tolist()},
                      key=f"fit:raise:{type(e).__name__}", how="harness.douglas_lib.build(K, n_cuts, mask, 0.1, X)")
        return None


def adversarial_data(rs, kind, n, d, cut_list):
    """data for find_active_points placed relative to the cut points"""
    X = rs.randn(n, d)
    for f, cuts in cut_list:
        lo, hi = float(np.min(cuts)), float(np.max(cuts))
        if kind == "all_outside":
            # the data range contains no cut point: below all, above all, or between two neighbours
            s = np.sort(cuts)
            slots = [(lo - 3.0, lo)] + [(s[i], s[i + 1]) for i in range(len(s) - 1) if s[i + 1] > s[i]] + [(hi, hi + 3.0)]
            a, b = slots[rs.randint(len(slots))]
            w = b - a
            X[:, f] = a + w * (0.25 + 0.5 * rs.rand(n))
        elif kind == "straddled":
            # data squeezed strictly inside the widest gap between neighbouring cut points (needs >= 2 distinct cuts)
            s = np.unique(cuts)
            if len(s) >= 2:
                i = int(np.argmax(np.diff(s)))
                X[:, f] = s[i] + (s[i + 1] - s[i]) * (0.1 + 0.8 * rs.rand(n))
            else:
                X[:, f] = lo - 1.0 - rs.rand(n)
        elif kind == "one_inside":
            ccut = float(cuts[rs.randint(len(cuts))])
            X[:, f] = ccut + np.where(np.arange(n) % 2 == 0, -1.0, 1.0) * (0.01 + rs.rand(n)) * 0.3
            if n == 1:
                X[:, f] = ccut - 0.1
        elif kind == "at_min_max":
            # a cut point equal to the smallest / largest observed value exactly (not strictly inside)
            ccut = float(cuts[rs.randint(len(cuts))])
            side = rs.randint(3)
            if side == 0:
                X[:, f] = ccut + np.abs(rs.randn(n))
                X[rs.randint(n), f] = ccut
            elif side == 1:
                X[:, f] = ccut - np.abs(rs.randn(n))
                X[rs.randint(n), f] = ccut
            else:
                X[:, f] = ccut
        elif kind == "const":
            X[:, f] = float(cuts[rs.randint(len(cuts))]) if rs.rand() < 0.5 else float(rs.randn())
    return X


ACTIVE_KINDS = ["random", "all_outside", "straddled", "one_inside", "at_min_max", "const"]


def softmax_row(v):
    e = np.exp(v - np.max(v))
    return e / e.sum()


# ----------------------------------------------------------------- a fitted model whose temperature is changed afterwards
HOW_RETEMPER = ("m = harness.douglas_lib.build(K, n_cuts, mask, T_fit, X_fit); douglas_lib.overwrite(m, cut_points_list, leaf_scores); "
                "m.set_params(temperature=T_now)  or  m.temperature = T_now; m.predict_proba(X) / m.predict(X) / m.find_active_points(X)  vs  "
                "props.c15.forward_reference(X, cut_points_list, leaf_scores, T_now)")


def forward_reference(X, cl, S, T):
    """the documented forward pass from the published parameters and ONE temperature: along a used feature, every cut point s adds
    (x - s)/T to the log-weight of all bins above it (so the weight moves to the bin `number of cut points below x` as T -> 0); the
    leaves are the grid of the per-feature bins (first entry of cut_points_list_ = most significant digit); prediction = soft-max of
    the membership-weighted leaf scores.  Returns (proba, per-feature bins, leaf memberships)."""
    X = np.asarray(X, dtype=float)
    n = X.shape[0]
    bins = []
    leaf = np.ones((n, 1))
    for f, v in cl:
        s = np.sort(np.asarray(v, dtype=float))
        z = np.concatenate([np.zeros((n, 1)), np.cumsum(X[:, [f]] - s[None, :], axis=1)], axis=1) / T
        z = z - z.max(1, keepdims=True)
        e = np.exp(z)
        b = e / e.sum(1, keepdims=True)
        bins.append(b)
        leaf = (leaf[:, :, None] * b[:, None, :]).reshape(n, -1)
    y = leaf @ np.asarray(S, dtype=float)
    y = y - y.max(1, keepdims=True)
    e = np.exp(y)
    return e / e.sum(1, keepdims=True), bins, leaf


def forward_tolerance(X, cl, S, T):
    """rounding allowance of a float64 forward pass: the log-weights (size ~ (n_cuts+1)(|x|+|s|)) are divided by T before exp"""
    c = max(len(v) for _, v in cl)
    mag = max([float(np.max(np.abs(X[:, f]))) + float(np.max(np.abs(v))) for f, v in cl] + [1.0])
    return 1e-9 + 1e-13 * (c + 1) * mag * len(cl) * max(1.0, float(np.max(np.abs(S)))) / T


def retemper_temperatures(rs2, T_fit, only_tiny=False):
    tiny = [t for t in (1e-3, 1e-4, 1e-5) if abs(t - T_fit) > 1e-12 * t]
    out = [("tiny", float(tiny[rs2.randint(len(tiny))]))]
    if not only_tiny:
        out = [("larger", float(T_fit * rs2.choice([2.0, 10.0, 100.0]))),
               ("smaller", float(max(T_fit / rs2.choice([2.0, 10.0, 100.0]), 1e-5)))] + out
    return out


def retemper(ctx, m, X, T_fit, rs2, family, desc, ask=None, only_tiny=False, fresh=True):
    """change the temperature of the FITTED model `m` (set_params or plain attribute assignment) to a larger, a smaller and a very small
    value; after each change the model must follow (cut_points_list_, leaf_scores_, temperature) as they read NOW:
      * memberships / predictions are probability vectors (statement: `for every temperature`);
      * predict_proba == forward_reference(published parameters, current temperature), predict == its arg-max where that is clear,
        and == the prediction of a second model FITTED at that temperature carrying the same published parameters;
      * very small temperature: rows >= 0.05 away from every cut point get soft-max(leaf_scores_[cell]), cell = mixed-radix number
        of the per-feature counts of cut points below the value (the limit clause of the statement, same margins as family B);
      * find_active_points does not depend on the temperature.
    The temperature is put back to T_fit at the end."""
    cl = [(int(f), np.array(cp, dtype=float)) for f, cp in m.cut_points_list_]
    S = np.array(m.leaf_scores_, dtype=float)
    n = X.shape[0]
    c = len(cl[0][1])
    base = {**desc, "T_fit": T_fit, "X": X.tolist(), "cut_points_list": [[f, v.tolist()] for f, v in cl], "leaf_scores": S.tolist()}
    spec_act = dl.spec_active(X, cl)
    gaps = np.min([np.abs(X[:, f][:, None] - v[None, :]).min(1) for f, v in cl], axis=0)        # per row, over the used features
    cell_idx = np.zeros(n, dtype=int)
    for f, v in cl:
        cell_idx = cell_idx * (c + 1) + np.array([dl.cell_of(X[r, f], v) for r in range(n)])
    for label, T2 in retemper_temperatures(rs2, T_fit, only_tiny):
        how_set = "set_params" if rs2.rand() < 0.5 else "attribute"
        if how_set == "set_params":
            m.set_params(temperature=T2)
        else:
            m.temperature = T2
        inp = {**base, "T_now": T2, "changed_by": how_set}
        ctx.count(f"retemper:{family}:{label}")
        ctx.count(f"retemper:by:{how_set}")
        try:
            P = np.asarray(m.predict_proba(X))
            lab = np.asarray(m.predict(X))
            m._infer(X)
            leaf = np.array(m._leaf)
            act = [int(v) for v in m.find_active_points(X)]
        except Exception as e:
            ctx.case(("retemper-raise", family, T_fit, T2, X.tobytes()), False, None)
            ctx.violation(f"after changing the temperature of a fitted model from {T_fit} to {T2} ({how_set}) prediction raised "
                          f"{type(e).__name__}: {e}", "retemper", inp, key=f"retemper:raise:{type(e).__name__}", how=HOW_RETEMPER)
            continue
        Pref, _, leaf_ref = forward_reference(X, cl, S, T2)
        tol = forward_tolerance(X, cl, S, T2)
        ctx.case(("retemper", family, T_fit, T2, how_set, X.tobytes(), repr(base["cut_points_list"]), S.tobytes()),
                 len({Pref[i].tobytes() for i in range(n)}) >= 2,
                 {**desc, "T_fit": T_fit, "T_now": T2, "changed_by": how_set, "proba_row0": P[0].round(6).tolist()})
        if not (P.shape == Pref.shape and np.all(np.isfinite(P)) and np.all(P >= 0) and np.all(np.abs(P.sum(1) - 1) <= 1e-12)
                and np.all(np.isfinite(leaf)) and np.all(leaf >= 0) and np.all(np.abs(leaf.sum(1) - 1) <= 1e-12)):
            ctx.violation(f"after changing the temperature of a fitted model from {T_fit} to {T2} ({how_set}) the leaf memberships / "
                          f"predictions are not probability vectors", "retemper", inp, actual=P.tolist(), key="retemper:not-prob", how=HOW_RETEMPER)
            continue
        err = float(np.abs(P - Pref).max())
        if err > tol or leaf.shape != leaf_ref.shape or float(np.abs(leaf - leaf_ref).max()) > tol:
            bad = int((np.abs(P - Pref).max(1) > tol).sum())
            ctx.violation(f"fitted at temperature {T_fit}, temperature then changed to {T2} ({how_set}): predict_proba differs from the forward "
                          f"pass of (cut_points_list_, leaf_scores_, temperature={T2}) on {bad}/{n} rows (max difference {err:.3g}, allowance {tol:.3g})",
                          "retemper", inp, expected=Pref.tolist(), actual=P.tolist(), key=f"retemper:forward:{label}", how=HOW_RETEMPER)
        srt = np.sort(Pref, axis=1)
        clear = np.ones(n, dtype=bool) if Pref.shape[1] < 2 else (srt[:, -1] - srt[:, -2]) > 1e-6 + 2 * tol
        ctx.count("retemper:predict_rows", int(clear.sum()))
        if lab.shape != (n,) or np.any(lab[clear] != np.argmax(Pref, axis=1)[clear]):
            ctx.violation(f"fitted at temperature {T_fit}, temperature then changed to {T2} ({how_set}): predict returns {lab.tolist()}, the forward "
                          f"pass of the published parameters at the current temperature gives {np.argmax(Pref, axis=1).tolist()} (rows with a "
                          f"clear winner: {np.nonzero(clear)[0].tolist()})", "retemper", inp, expected=np.argmax(Pref, axis=1).tolist(),
                          actual=lab.tolist(), key=f"retemper:predict:{label}", how=HOW_RETEMPER)
        if act != spec_act:
            ctx.violation(f"after changing the temperature from {T_fit} to {T2} find_active_points returned {act}; the features with a cut point "
                          f"strictly inside the range of the data are {spec_act}", "retemper", inp, expected=spec_act, actual=act,
                          key="retemper:active", how=HOW_RETEMPER)
        if label == "tiny":
            # the limit clause, judged without the reference: only the cell counts and the score rows
            rows = [r for r in range(n) if gaps[r] >= 0.05]
            ctx.count("retemper:limit_rows", len(rows))
            wrong = [r for r in rows if not np.allclose(P[r], softmax_row(S[cell_idx[r]]), rtol=0, atol=1e-9)]
            if wrong:
                r = wrong[0]
                ctx.violation(f"fitted at temperature {T_fit}, temperature then lowered to {T2} ({how_set}): {len(wrong)}/{len(rows)} rows lying >= 0.05 "
                              f"away from every cut point are not predicted as soft-max(leaf_scores_[cell]); row {r}: cell {int(cell_idx[r])} "
                              f"(cut points below per used feature: {[dl.cell_of(X[r, f], v) for f, v in cl]}), got {P[r].tolist()}, expected "
                              f"{softmax_row(S[cell_idx[r]]).tolist()}", "retemper", {**inp, "row": r}, expected=softmax_row(S[cell_idx[r]]).tolist(),
                              actual=P[r].tolist(), key="retemper:limit", how=HOW_RETEMPER)
        if fresh:
            # a second model fitted AT the new temperature and given the same published parameters is the same predictor
            try:
                m2 = dl.build(int(m.n_clusters), c, m.feature_mask, T2, X if n >= m.n_clusters else np.vstack([X] * int(m.n_clusters)), 0)
            except Exception as e:
                ctx.count(f"retemper:fresh_fit_failed:{type(e).__name__}")
                m2 = None
            if m2 is not None:
                dl.overwrite(m2, cl, S)
                P2 = np.asarray(m2.predict_proba(X))
                ctx.count("retemper:fresh_twin")
                if not (P2.shape == P.shape and float(np.abs(P2 - P).max()) <= tol):
                    ctx.violation(f"two models with the same cut_points_list_, leaf_scores_ and temperature {T2} predict differently: one was fitted "
                                  f"at {T_fit} and had its temperature changed ({how_set}), the other was fitted at {T2} (max difference "
                                  f"{float(np.abs(P2 - P).max()):.3g})", "retemper", inp, expected=P2.tolist(), actual=P.tolist(),
                                  key=f"retemper:fresh-twin:{label}", how=HOW_RETEMPER)
        if ask is not None:
            def h_re(ans, P=P, inp=inp):
                ctx.compared("infer_retempered")
                v = dl.parse_floats(ans)
                if v is None or not core.close_vec(list(P.ravel()), v, rtol=RTOL, atol=1e-15):
                    ctx.corr_break("infer_retempered", inp, {"impl": P.tolist(), "model": v})
            ask(dl.line_infer(T2, X, cl, S), h_re)
    m.set_params(temperature=T_fit)


# ----------------------------------------------------------------- checks shared with replay
def judge_active(ctx, m, Xa, cl, kind, model_ans, failures):
    """find_active_points on the real object: correspondence (activeFixed first, then activeCurrent) and oracle"""
    inp = {"X": Xa.tolist(), "cut_points_list": [[int(f), list(map(float, c))] for f, c in cl], "data_kind": kind}
    try:
        real = [int(v) for v in m.find_active_points(Xa)]
    except Exception as e:
        real = f"raise:{type(e).__name__}"
    spec = dl.spec_active(Xa, cl)
    nontriv = 0 < len(spec) < len(cl) or any(len(c) >= 2 for _, c in cl)
    ctx.case(("active", Xa.tobytes(), repr(inp["cut_points_list"])), nontriv, None)
    ctx.count(f"active:data:{kind}")
    ctx.count(f"active:n_active:{min(len(spec), 3)}")
    if model_ans is not None:
        cur, fix = model_ans
        ctx.compared("find_active_points")
        if real == fix:
            ctx.count("active:impl==activeFixed")
        elif real == cur:
            ctx.count("active:impl==activeCurrent_only")   # the source still carries the min/max test
        else:
            ctx.corr_break("find_active_points", inp, {"impl": real, "activeFixed": fix, "activeCurrent": cur})
        # the repaired model must be the specification (theorem activeFixed_iff_spec, checked on the Float run)
        if fix != spec:
            ctx.corr_break("activeFixed-vs-spec", inp, {"activeFixed": fix, "spec": spec})
    if real != spec:
        failures.append((Xa.size + sum(len(c) for _, c in cl), inp, spec, real))


def flush_active(ctx, failures):
    failures.sort(key=lambda t: t[0])
    for _, inp, spec, real in failures[:1]:
        extra = [f for f in (real if isinstance(real, list) else []) if f not in spec]
        missing = [f for f in spec if not isinstance(real, list) or f not in real]
        ctx.violation(f"find_active_points returned {real}; the features with a cut point strictly inside the range of the data are {spec} "
                      f"(wrongly reported: {extra}, missed: {missing})", "find_active_points", inp, expected=spec, actual=real,
                      key="active:not-spec", how=HOW_ACTIVE)
    if failures:
        ctx.count("active:oracle_failures", len(failures))


# ----------------------------------------------------------------- main
def run(ctx):
    ctx.rule = ("real Douglas objects (fit of one epoch on tiny data, then cut_points_list_/leaf_scores_ overwritten): d in 1..4, n_cuts in 1..4, "
                "masks None/random/single/all-true, K in 1..4, n in 2..6, temperatures 1e-4..1e2, data normal/grid/x100/constant column, cut vectors "
                "normal/sorted/reversed/duplicated/grid/wide/equal to data values; low-temperature family (T=1e-3,1e-4, points >= 0.05 from every cut, "
                "twins in the same cell); find_active_points on random and adversarial data (no cut inside the range incl. data between two cuts, one "
                "inside, cut equal to min/max, constant column); every fitted model of the general / low-temperature family then has its temperature "
                "CHANGED (set_params or attribute assignment; x2..x100, /2../100, and 1e-3/1e-4/1e-5) and is judged against the forward pass of the "
                "published parameters at the current temperature, the limit clause, a model fitted at the new temperature, find_active_points; half "
                "of the find_active_points models get another temperature after fit.  non-trivial: infer case with >= 2 distinct prediction rows; active case with "
                ">= 2 cuts on a feature or a strict subset of features active.  distinct = hash of (unit, X, parameters)")
    regen(ctx)              # Gen/Douglas.lean follows the current source before the theorems (C15 + companion C15Gen) are re-checked
    ctx.do_prove()
    quick = ctx.tier == "quick"
    n_main = 60 if quick else 1500
    n_low = 25 if quick else 800
    n_act = 90 if quick else 3000
    rs = np.random.RandomState(ctx.seed * PRIME + 15)
    rs2 = np.random.RandomState(ctx.seed * PRIME + 1015)     # choices of the temperature changes only (family A/B/C inputs stay as they were)
    lines, handlers = [], []
    active_failures, active_cases = [], []

    def ask(line, fn):
        lines.append(line)
        handlers.append(fn)

    # ---------------------------------------------------------------- A. general family
    for rep in range(n_main):
        d, c, mask, used, K, n, T = gen_config(rs)
        dreg, X = gen_data(rs, n, d)
        m = build_real(ctx, K, c, mask, T, X, int(rs.randint(1 << 30)))
        if m is None:
            continue
        desc = {"d": d, "n_cuts": c, "mask": None if mask is None else mask.tolist(), "K": K, "n": n, "T": T, "data": dreg}
        # -- _init_params on the real code: features used, leaf count (oracle from the property text)
        got_used = [int(f) for f, _ in m.cut_points_list_]
        L = (c + 1) ** len(used)
        ctx.count(f"used:{len(used)}")
        ctx.count(f"n_cuts:{c}")
        ctx.count("mask:" + ("none" if mask is None else "all" if mask.all() else "partial"))
        if m.leaf_scores_.shape != (L, K) or got_used != used or any(np.shape(cp) != (c,) for _, cp in m.cut_points_list_):
            ctx.violation(f"after fit: leaf_scores_.shape={m.leaf_scores_.shape}, features with cut points {got_used}; expected "
                          f"({L}, {K}) = ((n_cuts+1)**{len(used)}, K) and features {used}", "init", desc, expected=[L, K],
                          actual=list(m.leaf_scores_.shape), key="init:leaf-count", how=HOW_INFER)

        def h_init(ans, used=used, L=L, desc=desc, shape0=int(m.leaf_scores_.shape[0]), got_used=got_used):
            ctx.compared("init_params")
            if dl.parse_init(ans) != (got_used, shape0):
                ctx.corr_break("init_params", desc, {"model": ans, "impl": [got_used, shape0]})
        ask(dl.line_init(d, c, None if mask is None else mask.tolist()), h_init)
        # -- the parameters fit has learnt, read at a very small temperature set on the fitted model (limit clause)
        if got_used == used and m.leaf_scores_.shape == (L, K):
            retemper(ctx, m, X, T, rs2, "A-learnt", desc, only_tiny=True, fresh=False)
        # -- overwrite parameters
        cl, cregs = [], []
        for f in used:
            creg, v = gen_cuts(rs, c, X[:, f])
            cl.append((f, v))
            cregs.append(creg)
            ctx.count(f"cuts:{creg}")
        S = rs.randn(L, K) * float(rs.choice([1.0, 1.0, 5.0]))
        dl.overwrite(m, cl, S)
        inp = {**desc, "X": X.tolist(), "cut_points_list": [[f, v.tolist()] for f, v in cl], "leaf_scores": S.tolist()}
        ctx.count(f"T:{T:g}")
        # -- predict_proba / _infer
        try:
            P = m.predict_proba(X)
            Pr = m._infer(X)            # retain=True: fills _leaf, _all_binnings, _all_orders
            leaf = np.array(m._leaf)
            binn = [np.array(b) for b in m._all_binnings]
            orders = [np.array(o) for o in m._all_orders]
        except Exception as e:
            ctx.case(("infer-raise", X.tobytes(), repr(inp["cut_points_list"])), False, None)
            ctx.violation(f"predict_proba/_infer raised {type(e).__name__}: {e}", "infer", inp, key=f"infer:raise:{type(e).__name__}", how=HOW_INFER)
            continue
        # -- _compute_grads right after the retaining _infer (model only; its theorems belong to C03)
        if T >= 0.03 and all(len(set(v.tolist())) == len(v) for _, v in cl):
            G = rs.randn(n, K)
            with np.errstate(all="ignore"):
                ups = [np.asarray(u, dtype=float).ravel() for u in m._compute_grads(X, Pr, G)]

            def h_grads(ans, ups=ups, inp=inp, G=G):
                ctx.compared("compute_grads")
                parts = None if ans.strip() == "error" else [[core.unhex(t) for t in p.split()] for p in ans.split("|")]
                if parts is None or len(parts) != len(ups) or not all(core.close_vec(list(a), b, rtol=1e-8, atol=1e-300) for a, b in zip(ups, parts)):
                    ctx.corr_break("compute_grads", {**inp, "gradient": G.tolist()}, {"impl": [u.tolist() for u in ups], "model": parts})
            ask(dl.line_grads(T, X, cl, S, Pr, G), h_grads)
        nontriv = len({P[i].tobytes() for i in range(n)}) >= 2
        ctx.case(("infer", T, X.tobytes(), repr(inp["cut_points_list"]), S.tobytes()), nontriv,
                 {**desc, "cuts": cregs, "X": X.round(4).tolist(), "proba_row0": P[0].round(6).tolist()})
        # oracle: memberships are probability vectors (per feature and merged), for this temperature
        for name, arr in [("leaf", leaf)] + [(f"binning[{i}]", b) for i, b in enumerate(binn)]:
            if not (np.all(arr >= 0) and np.all(np.abs(arr.sum(1) - 1.0) <= 1e-12) and np.all(np.isfinite(arr))):
                ctx.violation(f"memberships {name} are not a probability vector per sample at T={T}: min={arr.min()}, row sums={arr.sum(1).tolist()}",
                              "memberships", inp, expected="rows >= 0 summing to 1 (1e-12)", actual=arr.tolist(),
                              key="memberships:not-prob", how=HOW_INFER)
                break
        if leaf.shape != (n, L):
            ctx.violation(f"_leaf has shape {leaf.shape}, expected ({n}, {L})", "memberships", inp, key="memberships:leaf-shape", how=HOW_INFER)
        if not (np.all(np.isfinite(P)) and np.all(P >= 0) and np.all(np.abs(P.sum(1) - 1) <= 1e-12)):
            ctx.violation(f"predict_proba rows are not probability vectors: {P.tolist()}", "infer", inp, key="infer:not-prob", how=HOW_INFER)
        if not np.array_equal(P, Pr):
            ctx.corr_break("infer", inp, {"predict_proba": P.tolist(), "_infer": Pr.tolist()})

        def h_infer(ans, P=P, inp=inp):
            ctx.compared("infer")
            v = dl.parse_floats(ans)
            if v is None or not core.close_vec(list(P.ravel()), v, rtol=RTOL, atol=1e-15):
                ctx.corr_break("infer", inp, {"impl": P.tolist(), "model": v})
        ask(dl.line_infer(T, X, cl, S), h_infer)

        def h_leaf(ans, leaf=leaf, inp=inp, L=L):
            ctx.compared("leaf")
            r = dl.parse_leaf(ans)
            if r is None or r[0] != L or not core.close_vec(list(leaf.ravel()), r[1], rtol=RTOL, atol=1e-15):
                ctx.corr_break("leaf", inp, {"impl": leaf.tolist(), "model": r})
        ask(dl.line_leaf(T, X, cl), h_leaf)
        # -- _leaf_binning on each used feature (direct call of the real method)
        for i, (f, v) in enumerate(cl):
            b, o = m._leaf_binning(X[:, f:f + 1], v)
            if not (np.array_equal(b, binn[i]) and np.array_equal(o, orders[i])):
                ctx.corr_break("leaf_binning", inp, {"direct": b.tolist(), "inside_infer": binn[i].tolist()})

            def h_bin(ans, b=np.array(b), o=[int(t) for t in o], v=v, inp=inp, f=f):
                ctx.compared("leaf_binning")
                memb, order, srt, _ = dl.parse_bin(ans)
                ok = core.close_vec(list(b.ravel()), memb, rtol=RTOL, atol=1e-15)
                # positions: exact when the cut points are distinct (ties may be ordered either way by numpy)
                if len(set(v.tolist())) == len(v):
                    ok = ok and order == o
                ok = ok and srt == v[o].tolist() and sorted(order) == list(range(len(v)))
                if not ok:
                    ctx.corr_break("leaf_binning", {**inp, "feature": f}, {"impl": [b.tolist(), o], "model": [memb, order, srt]})
            ask(dl.line_bin(T, X[:, f], v), h_bin)
        # -- oracle: masked features are inert (bit for bit)
        if mask is not None and not mask.all():
            off = ~mask
            for pk in ("big", "zero", "tiny", "shuffle"):
                X2 = X.copy()
                if pk == "big":
                    X2[:, off] = rs.randn(n, int(off.sum())) * 1e3
                elif pk == "zero":
                    X2[:, off] = 0.0
                elif pk == "tiny":
                    X2[:, off] = X2[:, off] * (1 + 1e-15) + 1e-300
                else:
                    X2[:, off] = X2[rs.permutation(n)][:, off]
                P2 = m.predict_proba(X2)
                ctx.count("inert:perturbations")
                if not (np.array_equal(P, P2) and np.array_equal(m.predict(X), m.predict(X2))):
                    ctx.violation(f"changing only masked features ({pk}) changed predict_proba", "mask", {**inp, "X_perturbed": X2.tolist()},
                                  expected=P.tolist(), actual=P2.tolist(), key="mask:not-inert", how=HOW_INFER)
                    break
        # sensitivity (the inertness test is not vacuous): a used feature does matter
        X3 = X.copy()
        X3[:, used[0]] += 0.37
        if not np.array_equal(m.predict_proba(X3), P):
            ctx.count("sensitive:used_feature_changes_proba")
        # -- the container of the query does not matter: integer-valued points given as int64 / int32 / list of ints are the
        #    same points as their float64 copy (the cell of a point is decided by its value, not by its dtype)
        Xi = np.round(X * 2.0).astype(np.int64)
        Pf = m.predict_proba(Xi.astype(np.float64))
        for label, Q in (("int64", Xi), ("int32", Xi.astype(np.int32)), ("list of int", Xi.tolist()), ("float32", Xi.astype(np.float32))):
            try:
                Pq = np.asarray(m.predict_proba(Q))
            except Exception as e:
                ctx.violation(f"predict_proba raised {type(e).__name__}: {e} on integer-valued points given as {label}", "infer",
                              {**inp, "X_query": Xi.tolist(), "container": label}, key=f"infer:container-raise:{label}", how=HOW_INFER)
                continue
            ctx.count("container:" + label)
            if not (Pq.shape == Pf.shape and np.allclose(Pq, Pf, rtol=1e-12, atol=1e-300)):
                ctx.violation(f"the same integer-valued points give other probabilities as {label} than as float64 "
                              f"(max difference {float(np.abs(Pq - Pf).max()):.3g})", "infer",
                              {**inp, "X_query": Xi.tolist(), "container": label}, expected=Pf.tolist(), actual=Pq.tolist(),
                              key=f"infer:container:{label}", how=HOW_INFER)
        # -- permuting the stored cut points changes nothing (theorem binning_perm_invariant on the real code)
        cl_perm = [(f, v[rs.permutation(len(v))]) for f, v in cl]
        m.cut_points_list_ = [(f, v.copy()) for f, v in cl_perm]
        Pp = m.predict_proba(X)
        ctx.compared("perm_invariance")
        if not np.array_equal(Pp, P):
            ctx.corr_break("perm_invariance", {**inp, "permuted": [[f, v.tolist()] for f, v in cl_perm]}, {"before": P.tolist(), "after": Pp.tolist()})
        dl.overwrite(m, cl, S)
        # -- arg-max bin at EVERY temperature (theorem argmax_bin) where the value is not on / next to a cut
        for i, (f, v) in enumerate(cl):
            for r in range(n):
                gap = float(np.min(np.abs(X[r, f] - v)))
                if gap >= 0.05 * max(1.0, T):
                    ctx.compared("argmax_any_T")
                    if int(np.argmax(binn[i][r])) != dl.cell_of(X[r, f], v):
                        ctx.corr_break("argmax_any_T", {**inp, "row": r, "feature": f}, {"argmax": int(np.argmax(binn[i][r])), "cuts_below": dl.cell_of(X[r, f], v)})
        # -- the temperature of the fitted model is changed: it must follow the published parameters at the CURRENT temperature
        retemper(ctx, m, X, T, rs2, "A", desc, ask=ask)

    # ---------------------------------------------------------------- B. low temperature family
    for rep in range(n_low):
        d, c, mask, used, K, n, T = gen_config(rs, lowT=True)
        npts = int(rs.randint(2, 5))
        cl = []
        for f in used:
            s = float(rs.randn()) + np.cumsum(0.12 + rs.exponential(0.8, size=c))
            order = rs.permutation(c) if rs.rand() < 0.6 else (np.arange(c) if rs.rand() < 0.5 else np.arange(c)[::-1])
            cl.append((f, np.asarray(s[order], dtype=float)))
        rows, cells = [], []
        for p in range(npts):
            digits = {f: int(rs.randint(0, c + 1)) for f in used}
            for twin in range(2):
                x = rs.randn(d) * 3.0
                for f, v in cl:
                    s = np.sort(v)
                    k = digits[f]
                    lo = s[k - 1] if k > 0 else s[0] - 3.0
                    hi = s[k] if k < c else s[-1] + 3.0
                    x[f] = lo + 0.05 + (hi - lo - 0.1) * rs.rand()
                rows.append(x)
                cells.append(digits)
        X = np.array(rows, dtype=float)
        n = len(X)
        Xfit = X if n >= K else np.vstack([X] * K)
        m = build_real(ctx, K, c, mask, T, Xfit, int(rs.randint(1 << 30)))
        if m is None:
            continue
        L = (c + 1) ** len(used)
        S = rs.randn(L, K) * 2.0
        dl.overwrite(m, cl, S)
        gap = dl.gap_of(X, cl)
        inp = {"d": d, "n_cuts": c, "mask": None if mask is None else mask.tolist(), "K": K, "T": T, "X": X.tolist(),
               "cut_points_list": [[f, v.tolist()] for f, v in cl], "leaf_scores": S.tolist(), "gap": gap}
        try:
            P = m._infer(X)
            binn = [np.array(b) for b in m._all_binnings]
            leaf = np.array(m._leaf)
        except Exception as e:
            ctx.case(("lowT-raise", X.tobytes()), False, None)
            ctx.violation(f"_infer raised {type(e).__name__}: {e}", "infer", inp, key=f"infer:raise:{type(e).__name__}", how=HOW_INFER)
            continue
        ctx.case(("lowT", T, X.tobytes(), repr(inp["cut_points_list"]), S.tobytes()), len({P[i].tobytes() for i in range(n)}) >= 2,
                 {"T": T, "n_cuts": c, "used": used, "gap": round(gap, 4), "cells_row0": cells[0]})
        ctx.count(f"lowT:T:{T:g}")
        assert gap >= 0.05 - 1e-12
        for i, (f, v) in enumerate(cl):
            for r in range(n):
                k_spec = dl.cell_of(X[r, f], v)        # how many cut points lie below the value
                k_impl = int(np.argmax(binn[i][r]))
                ctx.count("lowT:cell_checks")
                if k_impl != k_spec:
                    ctx.violation(f"T={T}: along feature {f} the sample {X[r, f]} falls in soft bin {k_impl} but {k_spec} cut points lie below it",
                                  "cells", {**inp, "row": r, "feature": f}, expected=k_spec, actual=k_impl, key="cells:index", how=HOW_INFER)
                # theorem cell_bin_bound on the real numbers produced by the code
                ctx.compared("cell_bin_bound")
                if binn[i][r][k_spec] < 1 - c * math.exp(-gap / T) - 1e-12:
                    ctx.corr_break("cell_bin_bound", {**inp, "row": r, "feature": f}, {"membership": float(binn[i][r][k_spec])})
        for p in range(npts):
            a, b = P[2 * p], P[2 * p + 1]
            ctx.count("lowT:twin_checks")
            if not np.allclose(a, b, rtol=0, atol=1e-9):
                ctx.violation(f"T={T}: two samples of the same cell (all used features >= {gap:.3g} away from every cut point) get different "
                              f"predictions {a.tolist()} vs {b.tolist()}", "cells", {**inp, "rows": [2 * p, 2 * p + 1]}, expected=a.tolist(),
                              actual=b.tolist(), key="cells:not-constant", how=HOW_INFER)
            # theorem infer_tendsto / leaf_cell_bound: the prediction is the soft-max of the score row of the cell's leaf
            idx = 0
            for f, v in cl:
                idx = idx * (c + 1) + cells[2 * p][f]
            ctx.compared("limit_value")
            if not np.allclose(a, softmax_row(S[idx]), rtol=0, atol=1e-9) or int(np.argmax(leaf[2 * p])) != idx:
                ctx.corr_break("limit_value", {**inp, "row": 2 * p}, {"proba": a.tolist(), "softmax(leaf_scores[cell])": softmax_row(S[idx]).tolist(),
                                                                    "leaf_argmax": int(np.argmax(leaf[2 * p])), "cell_leaf": idx})

        def h_low(ans, P=P, inp=inp):
            ctx.compared("infer")
            v = dl.parse_floats(ans)
            if v is None or not core.close_vec(list(P.ravel()), v, rtol=RTOL, atol=1e-15):
                ctx.corr_break("infer", inp, {"impl": P.tolist(), "model": v})
        ask(dl.line_infer(T, X, cl, S), h_low)
        # -- fitted cold, then warmed / cooled further on the fitted model
        retemper(ctx, m, X, T, rs2, "B", {"d": d, "n_cuts": c, "mask": None if mask is None else mask.tolist(), "K": K}, ask=ask)

    # ---------------------------------------------------------------- C. find_active_points
    for rep in range(n_act):
        d, c, mask, used, K, n, T = gen_config(rs)
        Xfit = rs.randn(max(n, K), d)
        m = build_real(ctx, K, c, mask, 0.1, Xfit, int(rs.randint(1 << 30)))
        if m is None:
            continue
        if rep % 3 == 0:
            cl = [(f, np.array(cp, dtype=float)) for f, cp in m.cut_points_list_]   # what fit learnt
        else:
            cl = [(f, gen_cuts(rs, c, Xfit[:, f])[1]) for f in used]
            dl.overwrite(m, cl, m.leaf_scores_)
        kind = ACTIVE_KINDS[rep % len(ACTIVE_KINDS)]
        na = int(rs.randint(1, 7))
        Xa = adversarial_data(rs, kind, na, d, cl) if kind != "random" else gen_data(rs, na, d)[1]
        if rep % 2 == 1:        # find_active_points reads the cut points only: a temperature changed after fit must not matter
            T_now = float(rs2.choice(TEMPS + [1e-5]))
            if rs2.rand() < 0.5:
                m.set_params(temperature=T_now)
            else:
                m.temperature = T_now
            ctx.count("active:temperature_changed_after_fit")
        active_cases.append((len(lines), m, Xa, cl, kind))
        ask(dl.line_active(Xa, cl), None)
    # rejected inputs of find_active_points / _init_params: the model rejects them too
    for rep in range(4 if quick else 20):
        d = int(rs.randint(2, 5))
        c = int(rs.randint(1, 3))
        Xfit = rs.randn(4, d)
        m = build_real(ctx, 2, c, None, 0.1, Xfit, rep)
        if m is None:
            continue
        cl = [(f, np.array(cp, dtype=float)) for f, cp in m.cut_points_list_]
        Xa = rs.randn(3, int(rs.randint(1, d)))       # fewer columns than cut_points_list_ entries
        try:
            m.find_active_points(Xa)
            real = "ok"
        except (ValueError, IndexError):
            real = "error"

        def h_rej(ans, real=real, Xa=Xa, cl=cl):
            ctx.compared("rejects")
            cur, fix = dl.parse_active(ans)
            if (real == "error") != (cur is None) or (cur is None) != (fix is None):
                ctx.corr_break("rejects", {"X": Xa.tolist(), "cut_points_list": [[f, v.tolist()] for f, v in cl]}, {"impl": real, "model": ans})
        ask(dl.line_active(Xa, cl), h_rej)
        ctx.case(("reject-active", Xa.tobytes()), False, None)
        # mask of the wrong length
        bad = np.ones(d + int(rs.choice([-1, 1, 2])), dtype=bool)
        try:
            dl.build(2, c, bad, 0.1, Xfit, rep)
            real2 = "ok"
        except ValueError:
            real2 = "error"

        def h_rej2(ans, real2=real2, bad=bad, d=d):
            ctx.compared("rejects")
            if (real2 == "error") != (ans.strip() == "error"):
                ctx.corr_break("rejects", {"d": d, "mask_len": len(bad)}, {"impl": real2, "model": ans})
        ask(dl.line_init(d, c, bad.tolist()), h_rej2)
        ctx.case(("reject-mask", d, len(bad)), False, None)

    # ---------------------------------------------------------------- run the Lean model on everything
    try:
        outs = core.run_driver("Douglas", lines)
    except core.DriverBuildError as e:
        ctx.proof["broken"].append({"theorem": "model build", "reason": str(e)[-400:]})
        outs = None
    if outs is not None:
        for fn, o in zip(handlers, outs):
            if fn is not None:
                fn(o)
    for idx, m, Xa, cl, kind in active_cases:   # the oracle on find_active_points does not need the model
        judge_active(ctx, m, Xa, cl, kind, None if outs is None else dl.parse_active(outs[idx]), active_failures)
    flush_active(ctx, active_failures)
    return ctx.finish()


def replay(ctx, path):
    """re-run the failing input of a replay file on the real implementation"""
    rep = json.load(open(path))
    inp = rep.get("input") or {}
    if rep.get("unit") == "retemper" and "cut_points_list" in inp and "T_now" in inp:
        X = np.array(inp["X"], dtype=float)
        cl = [(int(f), np.array(c, dtype=float)) for f, c in inp["cut_points_list"]]
        S = np.array(inp["leaf_scores"], dtype=float)
        K = S.shape[1]
        mask = None if inp.get("mask") is None else np.array(inp["mask"], dtype=bool)
        m = dl.build(K, len(cl[0][1]), mask, float(inp["T_fit"]), X if len(X) >= K else np.vstack([X] * K), 0)
        dl.overwrite(m, cl, S)
        if inp.get("changed_by") == "attribute":
            m.temperature = float(inp["T_now"])
        else:
            m.set_params(temperature=float(inp["T_now"]))
        P = np.asarray(m.predict_proba(X))
        Pref = forward_reference(X, cl, S, float(inp["T_now"]))[0]
        tol = forward_tolerance(X, cl, S, float(inp["T_now"]))
        err = float(np.abs(P - Pref).max())
        print(f"fitted at T={inp['T_fit']}, temperature changed to {inp['T_now']} ({inp.get('changed_by')}): max |predict_proba - forward pass of the "
              f"published parameters at the current temperature| = {err:.3g} (allowance {tol:.3g}); find_active_points -> "
              f"{[int(v) for v in m.find_active_points(X)]}, specification -> {dl.spec_active(X, cl)}")
        if err > tol or [int(v) for v in m.find_active_points(X)] != dl.spec_active(X, cl):
            print("REPRODUCED retemper")
            return 1
        print("replay: the property holds on this input now")
        return 0
    if rep.get("unit") != "find_active_points" or "cut_points_list" not in inp:
        print(f"replay {path}: unit {rep.get('unit')!r} — re-run with `{rep.get('how_to_run')}` on the stored input")
        return 2
    X = np.array(inp["X"], dtype=float)
    cl = [(int(f), np.array(c, dtype=float)) for f, c in inp["cut_points_list"]]
    d = X.shape[1]
    c = len(cl[0][1])
    mask = np.zeros(d, dtype=bool)
    mask[[f for f, _ in cl]] = True
    m = dl.build(2, c, mask, 0.1, np.random.RandomState(0).randn(4, d), 0)
    dl.overwrite(m, cl, m.leaf_scores_)
    real = [int(v) for v in m.find_active_points(X)]
    spec = dl.spec_active(X, cl)
    print(f"find_active_points -> {real}; specification (cut point strictly inside the data range) -> {spec}")
    if real != spec:
        print(f"REPRODUCED active:not-spec")
        return 1
    print("replay: the property holds on this input now")
    return 0
