"""C14 — must-link / cannot-link constraints: exact validation, right samples, right sign (gemclus/mlcl.py)."""
import json

import numpy as np

from .. import core, mlcl_lib as ml_

HOW_ACC = ("python: from gemclus.mlcl import add_mlcl_constraint; from gemclus.linear import LinearModel; "
           "add_mlcl_constraint(LinearModel(), must_link, cannot_link)  # expected verdict: harness.mlcl_lib.spec_ok")
HOW_GRAD = ("harness.mlcl_lib.decorated_fit(family, params, X, must_link, cannot_link, factor) records, for every batch, "
            "the gradient entering intercept_grads and the one reaching the wrapped _compute_grads; expected = "
            "g_pre + harness.mlcl_lib.penalty_gradient_fd(...)")


def _plain(ps):
    return [[int(a), int(b)] for (a, b) in ps]


# ================================================================= acceptor
def acceptor_cases(ctx, rs):
    out = []
    sets = [(0, 3, 7, 12)]
    if ctx.tier != "quick":
        sets += [(0, 1, 2, 3), (-5, 2, 9, 40), (1, 2, 4, 5)]
    for S in sets:
        for ml, cl in ml_.all_pair_sets(S):
            out.append({"kind": f"exhaustive{S}", "ml": ml, "cl": cl, "container": "tuples"})
    # the same space with reversed / shuffled pairs and the other container types
    nshuf = 600 if ctx.tier == "quick" else 6000
    for _ in range(nshuf):
        S = sets[rs.randint(len(sets))]
        prs = [(S[i], S[j]) for i in range(4) for j in range(4) if i != j]
        code = rs.randint(0, 4, size=len(prs)) * (rs.rand(len(prs)) < 0.35)
        ml = [p for p, c in zip(prs, code) if c in (1, 3)]
        cl = [p for p, c in zip(prs, code) if c in (2, 3)]
        rs.shuffle(ml)
        rs.shuffle(cl)
        out.append({"kind": f"oriented{S}", "ml": ml, "cl": cl, "container": ml_.CONTAINERS[rs.randint(len(ml_.CONTAINERS))]})
    # long must-link chains (components of diameter 2 … 24): a cannot-link pair between the two ENDS, or between any two nodes of the
    # chain, contradicts it however long the path is; one between the chain and an outsider does not
    for L in range(2, 17 if ctx.tier == "quick" else 25):
        for rep in range(2 if ctx.tier == "quick" else 6):
            nodes = [int(v) for v in rs.choice(np.arange(-40, 400), size=L + 2, replace=False)]
            chain, outsider = nodes[:L + 1], nodes[L + 1]
            ml = [(chain[i], chain[i + 1]) if rs.rand() < 0.5 else (chain[i + 1], chain[i]) for i in range(L)]
            rs.shuffle(ml)
            i, j = sorted(rs.choice(L + 1, size=2, replace=False))
            for tag, cl in (("ends", [(chain[0], chain[L])]), ("ends-reversed", [(chain[L], chain[0])]),
                            ("inner", [(chain[int(i)], chain[int(j)])]), ("outsider", [(chain[L], outsider), (outsider, chain[0])])):
                out.append({"kind": f"chain{L}:{tag}", "ml": list(ml), "cl": cl, "container": ml_.CONTAINERS[rs.randint(len(ml_.CONTAINERS))]})
    nrand = 1200 if ctx.tier == "quick" else 15000
    for _ in range(nrand):
        name, ml, cl = ml_.gen_acceptor_case(rs)
        out.append({"kind": "random:" + name, "ml": ml, "cl": cl, "container": ml_.CONTAINERS[rs.randint(len(ml_.CONTAINERS))]})
    return out


def run_acceptor(ctx, rs, lines, metas):
    """real verdicts + oracle; appends the driver lines.  Returns the per-case records."""
    cases = acceptor_cases(ctx, rs)
    ctx.exhaustive = True
    bfs_seen = {}
    viol = []
    nsamp = 0
    for c in cases:
        ml, cl = c["ml"], c["cl"]
        tok, log, exc, untouched = ml_.real_accept(ml_.as_container(ml, c["container"]), ml_.as_container(cl, c["container"]))
        c["real"] = tok
        both = len(ml) > 0 and len(cl) > 0
        show = both and nsamp < 3 and len(ml) + len(cl) >= 3 and (ctx.evaluations % 1499 == 7 or c["kind"].startswith("random"))
        nsamp += show
        ctx.case((tuple(ml), tuple(cl), c["container"]), both,
                 {"must_link": _plain(ml), "cannot_link": _plain(cl), "container": c["container"], "verdict": tok,
                  "kind": c["kind"]} if show else None)
        ctx.count("acceptor:" + c["kind"].split("(")[0].split(":")[0])
        ctx.count("verdict:" + tok.split(":")[0])
        inp = {"must_link": _plain(ml), "cannot_link": _plain(cl), "container": c["container"]}
        # ---- oracle: the property statement
        ok, why = ml_.spec_ok(ml, cl)
        size = len(ml) + len(cl)
        if tok.startswith("raise:"):
            viol.append((size, dict(what=f"add_mlcl_constraint raised an unexpected {tok[6:]} on a list of integer pairs",
                                    unit="acceptor", inp=inp, expected="ok" if ok else "reject: " + why, actual=tok,
                                    key="acceptor:unexpected-exception")))
        elif ok and tok != "ok":
            viol.append((size, dict(what=f"a consistent constraint set is rejected ({tok}): no element is paired with itself and no "
                                         "cannot-link pair lies inside a must-link component",
                                    unit="acceptor", inp=inp, expected="accepted", actual=tok, key="acceptor:false-reject")))
        elif (not ok) and tok == "ok":
            viol.append((size, dict(what=f"an inconsistent constraint set is accepted: {why}",
                                    unit="acceptor", inp=inp, expected="rejected (ValueError)", actual="accepted",
                                    key="acceptor:false-accept")))
        if tok != "ok" and not untouched:
            viol.append((size, dict(what="the constraint set was rejected but the model was decorated all the same",
                                    unit="acceptor", inp=inp, expected="model untouched", actual="decorated",
                                    key="acceptor:decorated-on-reject")))
        # ---- model lines
        uniq = ml_.replicated_uniq(ml) if len(ml) else []
        c["uniq"] = uniq
        for fx in (1, 0):
            lines.append(ml_.acc_line(fx, uniq, ml, cl))
            metas.append(("acc", fx, c))
        if log:
            c["bfs_calls"] = len(log)
            lines.append(ml_.conn_line(uniq, ml))
            metas.append(("conn", log[0][0], c))
            for (mat, start, nodes, kw) in log:
                if kw.get("directed", True) is not False:
                    ctx.count("bfs:directed-call")   # the model assumes directed=False
                k = (mat.tobytes(), mat.shape, start)
                if k not in bfs_seen:
                    bfs_seen[k] = True
                    lines.append(ml_.bfs_line(mat, start))
                    metas.append(("bfs", (mat, start, nodes), c))
                ctx.count("bfs:component-size:%d" % min(len(nodes), 5))
    viol.sort(key=lambda t: t[0])
    for _, v in viol:
        ctx.violation(v["what"], v["unit"], v["inp"], expected=v["expected"], actual=v["actual"], key=v["key"], how=HOW_ACC)
    return cases


def judge_acceptor_models(ctx, cases):
    """which of the two Lean acceptors is the source in /repo?  (try the intended one first)"""
    dis_fixed = [c for c in cases if c["real"] != c.get("model1")]
    dis_cur = [c for c in cases if c["real"] != c.get("model0")]
    n = len(cases)
    if not dis_fixed:
        ctx.extra["source_acceptor"] = "acceptsFixed (sample indices compared with sample indices) — theorem acceptor_iff applies"
        ctx.compared("acceptor=acceptsFixed", n)
        ctx.counters["acceptsCurrent_disagreements"] = len(dis_cur)
        return "fixed"
    if not dis_cur:
        ctx.extra["source_acceptor"] = ("acceptsCurrent (BFS positions compared with sample indices) — the model refuted by theorem "
                                        "acceptsCurrent_not_spec; it disagrees with acceptsFixed on %d explored inputs" % len(dis_fixed))
        ctx.compared("acceptor=acceptsCurrent", n)
        return "current"
    ref, dis = ("model1", dis_fixed) if len(dis_fixed) <= len(dis_cur) else ("model0", dis_cur)
    ctx.extra["source_acceptor"] = "neither model (%d / %d disagreements with acceptsFixed / acceptsCurrent)" % (len(dis_fixed), len(dis_cur))
    ctx.compared("acceptor=" + ref, n)
    for c in sorted(dis, key=lambda c: len(c["ml"]) + len(c["cl"]))[:20]:
        ctx.corr_break("acceptor", {"must_link": _plain(c["ml"]), "cannot_link": _plain(c["cl"]), "uniq": c["uniq"]},
                       {"impl": c["real"], "acceptsFixed": c.get("model1"), "acceptsCurrent": c.get("model0")})
    return "neither"


# ================================================================= gradient injection
def gen_grad_case(ctx, rs, family, force_bs="rand", n=None):
    n = n or int(rs.randint(3, 11 if ctx.tier == "quick" else 15))
    K = int(rs.randint(2, min(4, n) + 1))
    d = int(rs.randint(1, 4))
    X = np.round(rs.randn(n, d), 3) + np.arange(n)[:, None] * 1e-5   # distinct rows: samples are recognised by their data
    if len({X[i].tobytes() for i in range(n)}) != n:
        raise core.MachineryError("generator produced repeated data rows")
    gem = ml_.GEMINIS[rs.randint(len(ml_.GEMINIS))]
    if gem.startswith("wasserstein") and n > 8:
        gem = "mmd_ova"
    bs = force_bs if force_bs != "rand" else [None, 1, 2, 3, max(1, n - 1), n, n + 2][rs.randint(7)]
    params = dict(n_clusters=K, gemini=gem, max_iter=int(rs.randint(1, 4)), learning_rate=float(rs.choice([0.01, 0.1, 0.5])),
                  solver=str(rs.choice(["sgd", "adam"])), batch_size=bs, random_state=int(rs.randint(1000)))
    if family == "MLPModel":
        params["n_hidden_dim"] = int(rs.randint(2, 6))
    pool = list(range(n)) + ([n + 3, n + 10] if rs.rand() < 0.3 else [])
    for _ in range(20):
        mlp = ml_.gen_pairs(rs, pool, int(rs.randint(0, 5)))
        clp = ml_.gen_pairs(rs, pool, int(rs.randint(0, 5)))
        if (mlp or clp) and ml_.spec_ok(mlp, clp)[0]:
            break
    else:
        mlp, clp = [(0, 1)], [(1, 2)]
    factor = [0.1, 0.5, 1.0, 2.5, 3, 10.0, float(np.round(rs.rand() * 4 + 0.01, 3))][rs.randint(7)]
    cont = ml_.CONTAINERS[rs.randint(len(ml_.CONTAINERS))]
    return dict(family=family, params=params, X=X, ml=mlp, cl=clp, factor=factor, container=cont)


def run_gradients(ctx, rs, lines, metas):
    nfit = 36 if ctx.tier == "quick" else 400
    plan = []
    # every batch size 1..n and None for one data set per family
    n0 = 6 if ctx.tier == "quick" else 9
    for fam in ml_.FAMILIES:
        for bs in ([None] + list(range(1, n0 + 2))) if fam != "CategoricalModel" else [None]:
            plan.append((fam, bs, n0))
    for i in range(nfit):
        plan.append((ml_.FAMILIES[i % 3], "rand", None))
    nrec = 0
    for fam, bs, n in plan:
        g = gen_grad_case(ctx, rs, fam, force_bs=bs, n=n)
        inp0 = {"family": fam, "params": g["params"], "X": g["X"].tolist(), "must_link": _plain(g["ml"]),
                "cannot_link": _plain(g["cl"]), "factor": g["factor"], "container": g["container"]}
        try:
            recs = ml_.decorated_fit(fam, g["params"], g["X"], ml_.as_container(g["ml"], g["container"]),
                                     ml_.as_container(g["cl"], g["container"]), g["factor"])
        except Exception as e:  # noqa: BLE001
            tok = ml_.MSG.get(str(e))
            ctx.case(("grad-raise", repr(inp0)), False, None)
            if tok is not None:
                # a consistent set rejected by the acceptor: same failure as in the acceptor search, gradient not observable
                ctx.count("grad:skipped-consistent-set-rejected")
                ctx.violation(f"a consistent constraint set is rejected ({tok})", "acceptor",
                              {"must_link": _plain(g["ml"]), "cannot_link": _plain(g["cl"]), "container": g["container"]},
                              expected="accepted", actual=tok, key="acceptor:false-reject", how=HOW_ACC)
            else:
                ctx.violation(f"decorated {fam}.fit raised {type(e).__name__}: {e}", "decorated-fit", inp0,
                              key=f"grad:raise:{type(e).__name__}", how=HOW_GRAD)
            continue
        ctx.count("fit:" + fam)
        ctx.count("fit:batch_size:" + ("None" if g["params"].get("batch_size") is None else
                                       ("1" if g["params"]["batch_size"] == 1 else
                                        (">=n" if g["params"]["batch_size"] >= len(g["X"]) else "1<bs<n"))))
        X = g["X"]
        sample_of = {X[i].tobytes(): i for i in range(len(X))}
        for bi, r in enumerate(recs):
            nrec += 1
            inp = {**inp0, "batch_number": bi}
            if "g_post" not in r:
                ctx.violation("intercept_grads did not call the wrapped _compute_grads", "inject", inp, key="grad:not-forwarded", how=HOW_GRAD)
                continue
            y, gpre, gpost, idx = r["y_pred"], r["g_pre"], r["g_post"], r["indices"]
            b, K = y.shape
            # which samples are the rows of this batch?  (through the data, independently of `_batchify.indices`)
            if fam == "CategoricalModel":
                samples = list(range(b))
            else:
                samples = [sample_of.get(np.asarray(r["X"][q], dtype=float).tobytes()) for q in range(b)]
            inb = sum(1 for (a, c) in g["ml"] + g["cl"] if a in samples and c in samples)
            ctx.case((fam, repr(sorted(g["params"].items(), key=str)), tuple(idx), tuple(g["ml"]), tuple(g["cl"]), y.tobytes()),
                     inb > 0, {"family": fam, "batch": idx, "must_link": _plain(g["ml"]), "cannot_link": _plain(g["cl"]),
                               "factor": g["factor"], "pairs_in_batch": inb} if (inb > 0 and len(ctx.samples) < 5) else None)
            ctx.count("grad:pairs-in-batch:%d" % min(inb, 4))
            ctx.count("grad:batch-len:%s" % ("1" if b == 1 else ("n" if b == len(X) else "1<b<n")))
            if idx != samples:
                ctx.violation(f"_batchify.indices {idx} are not the samples of the batch rows {samples}", "batch-indices",
                              inp, expected=samples, actual=idx, key="grad:indices-misaligned", how=HOW_GRAD)
            if not np.array_equal(r["y_post"], y):
                ctx.violation("intercept_grads modified y_pred", "inject", inp, key="grad:y_pred-modified", how=HOW_GRAD)
            # ---- oracle: gradient of the pairwise penalty, rows found through the data
            row_of = {s: q for q, s in enumerate(samples) if s is not None}
            fd = ml_.penalty_gradient_fd(y, row_of, g["ml"], g["cl"], float(g["factor"]))
            dr = ml_.penalty_gradient_direct(y, row_of, g["ml"], g["cl"], float(g["factor"]))
            if not np.allclose(fd, dr, rtol=1e-9, atol=1e-9):
                raise core.MachineryError("oracle self-check failed: finite differences vs direct formula of the penalty")
            want = gpre + fd
            scale = max(1.0, float(np.abs(want).max()))
            if not np.allclose(gpost, want, rtol=0, atol=1e-9 * scale):
                bad = np.argwhere(np.abs(gpost - want) > 1e-9 * scale)
                ctx.violation("the gradient reaching _compute_grads is not the GEMINI gradient plus the gradient of "
                              "1/2*factor*(sum_CL|p_i-p_j|^2 - sum_ML|p_i-p_j|^2) over the pairs sharing the batch "
                              f"(first differing entry {bad[0].tolist()}: got {gpost[tuple(bad[0])]!r}, expected {want[tuple(bad[0])]!r})",
                              "inject", {**inp, "indices": idx, "y_pred": y.tolist(), "g_pre": gpre.tolist()},
                              expected=want.tolist(), actual=gpost.tolist(), key="grad:not-penalty-gradient", how=HOW_GRAD)
            touched = {row_of[s] for (a, c) in g["ml"] + g["cl"] if a in row_of and c in row_of for s in (a, c)}
            for q in range(b):
                if q not in touched and not np.array_equal(gpost[q], gpre[q]):
                    ctx.violation(f"row {q} (sample {samples[q]}) has no constraint partner in the batch but its gradient changed",
                                  "inject", {**inp, "indices": idx}, key="grad:other-row-touched", how=HOW_GRAD)
                    break
            # ---- model line
            lines.append(ml_.inj_line(K, idx, g["cl"], g["ml"], float(g["factor"]), y, gpre))
            metas.append(("inj", (gpost, inp, idx), None))
    ctx.counters["grad:batches"] = nrec


# ================================================================= malformed shapes
def run_malformed(ctx):
    valid = [(0, 1)]
    for name, obj in ml_.malformed_catalogue():
        for pos, (a, b) in (("must_link", (obj, None)), ("cannot_link", (None, obj)), ("both", (obj, obj)),
                            ("must_link+valid", (obj, valid)), ("valid+cannot_link", (valid, obj))):
            tok, _, exc, untouched = ml_.real_accept(a, b)
            ctx.case(("malformed", name, pos), True, {"malformed": name, "position": pos, "verdict": tok[:60]} if pos == "both" else None)
            ctx.count("malformed:" + ("rejected" if exc is not None else "ACCEPTED"))
            inp = {"malformed": name, "position": pos, "value": repr(obj)[:80]}
            if exc is None:
                ctx.violation(f"{name} ({obj!r:.40}) passed as {pos} is accepted; it is not a two-dimensional list of index pairs",
                              "malformed", inp, expected="ValueError/TypeError", actual="accepted", key=f"malformed:accepted:{name}", how=HOW_ACC)
            elif not isinstance(exc, (ValueError, TypeError)):
                ctx.violation(f"{name} passed as {pos} raises {type(exc).__name__}, not a ValueError/TypeError", "malformed", inp,
                              expected="ValueError/TypeError", actual=type(exc).__name__, key=f"malformed:wrong-exception:{name}", how=HOW_ACC)
            elif not untouched:
                ctx.violation(f"{name} rejected but the model was decorated", "malformed", inp, key="malformed:decorated-on-reject", how=HOW_ACC)
    for name, obj in ml_.empty_catalogue():
        for pos, (a, b) in (("must_link", (obj, valid)), ("cannot_link", (valid, obj)), ("both", (obj, obj))):
            tok, _, exc, _ = ml_.real_accept(a, b)
            ctx.case(("empty", name, pos), False, None)
            ctx.count("empty:" + tok.split(":")[0])
            if tok != "ok":
                ctx.violation(f"'no constraint' written as {name} in {pos} is rejected: {tok}", "malformed",
                              {"empty": name, "position": pos}, expected="accepted", actual=tok, key=f"empty:rejected:{name}", how=HOW_ACC)
    seen = {}
    for name, obj in ml_.unjudged_catalogue():
        seen[name] = {pos: ml_.real_accept(a, b)[0][:70] for pos, (a, b) in (("must_link", (obj, None)), ("cannot_link", (None, obj)),
                                                                                ("must_link+valid", (obj, [(10, 11)])))}
    ctx.extra["unjudged_inputs"] = seen
    ctx.notes.append("3-column arrays, float and bool pairs are outside the statement (neither 'pairs of indices' nor in its list of "
                     "malformed shapes): their verdicts are recorded under unjudged_inputs, not judged")


# ================================================================= entry points
def run(ctx):
    ctx.rule = ("acceptor: ALL 4^6 assignments {absent, ML, CL, both} of the 6 unordered pairs over the index set {0,3,7,12} "
                "(thorough: also {0,1,2,3}, {-5,2,9,40}, {1,2,4,5}), the same space with random orientations / repetitions / container "
                "types, and random sets over contiguous, non-contiguous, negative and huge indices (chains, self pairs, duplicates); "
                "non-trivial = both lists non-empty (the structural check runs).  gradient: decorated LinearModel / MLPModel / "
                "CategoricalModel fits (n 3..10/14, K 2..4, 8 GEMINIs, sgd/adam, batch sizes None, 1..n+1), every batch of every epoch; "
                "non-trivial = at least one constraint has both samples in the batch.  malformed: catalogue x {ML, CL, both, with a valid other list}.")
    ctx.do_prove()
    ctx.trusted += ["scipy.sparse.csgraph.breadth_first_order modelled by `bfsReach` (proved to be the connected component; compared "
                    "with scipy as a set on every recorded call)",
                    "sklearn.utils.check_array decides what is a 2-D integer array (malformed shapes are judged by the oracle only)",
                    "CPython set iteration order (`list(set(...))`) is an input of the model, replicated by the harness"]
    fp = ml_.source_fingerprints()
    ctx.extra["fingerprints"] = {k: {"hash": v, "modelled_as": ml_.MODELLED.get(k, {}).get(v, "UNKNOWN to the hand model (tie = this run's correspondence only)")}
                                 for k, v in fp.items()}
    ctx.extra["fingerprints_changed"] = sorted(k for k, v in fp.items() if v not in ml_.MODELLED.get(k, {}))
    rs = np.random.RandomState(ctx.seed * 104729 + 14)
    lines, metas = [], []
    cases = run_acceptor(ctx, rs, lines, metas)
    run_gradients(ctx, rs, lines, metas)
    run_malformed(ctx)
    try:
        outs = core.run_driver("Mlcl", lines)
    except core.DriverBuildError as e:
        ctx.proof["broken"].append({"theorem": "model build", "reason": str(e)[-400:]})
        return ctx.finish()
    conn_bad = []
    for (kind, a, c), o in zip(metas, outs):
        if kind == "acc":
            c["model%d" % a] = o
        elif kind == "conn":
            real = " ".join(str(int(v != 0)) for v in np.asarray(a).ravel())
            if real != o:
                conn_bad.append((c, real, o))
            else:
                ctx.compared("connection_matrix")
        elif kind == "bfs":
            mat, start, nodes = a
            ctx.compared("bfs")
            want = " ".join(str(v) for v in sorted(nodes)) or "-"
            if want != o:
                ctx.corr_break("bfs", {"matrix": np.asarray(mat).astype(int).tolist(), "start": start},
                               {"scipy": sorted(nodes), "model": o})
        elif kind == "inj":
            gpost, inp, idx = a
            ctx.compared("inject")
            got = np.array([core.unhex(t) for t in o.split()]).reshape(gpost.shape) if o else np.zeros(gpost.shape)
            scale = max(1.0, float(np.abs(gpost).max()))
            if not np.allclose(got, gpost, rtol=0, atol=1e-12 * scale):
                ctx.corr_break("inject", {**inp, "indices": idx}, {"impl": gpost.tolist(), "model": got.tolist()})
    which = judge_acceptor_models(ctx, cases)
    if conn_bad:
        if which == "fixed":
            # the verdict of acceptsFixed does not depend on the enumeration order (theorem acceptor_order_irrelevant)
            ctx.counters["connection_matrix:other-enumeration-order"] = len(conn_bad)
        else:
            for c, real, o in conn_bad[:10]:
                ctx.corr_break("connection_matrix", {"must_link": _plain(c["ml"]), "uniq": c["uniq"]}, {"impl": real, "model": o})
    return ctx.finish()


def replay(ctx, path):
    """re-run the failing input of a replay file on the real implementation"""
    r = json.load(open(path))
    inp = r.get("input") or {}
    unit = r.get("unit")
    if unit == "acceptor":
        mlp = [tuple(p) for p in inp["must_link"]]
        clp = [tuple(p) for p in inp["cannot_link"]]
        cont = inp.get("container", "tuples")
        tok, _, _, _ = ml_.real_accept(ml_.as_container(mlp, cont), ml_.as_container(clp, cont))
        ok, why = ml_.spec_ok(mlp, clp)
        print(f"must_link={mlp} cannot_link={clp}: implementation -> {tok}; specification -> {'accept' if ok else 'reject (' + why + ')'}")
        still = (tok == "ok") != ok
    elif unit == "malformed":
        cat = dict(ml_.malformed_catalogue() + ml_.empty_catalogue())
        obj = cat[inp.get("malformed", inp.get("empty"))]
        a, b = {"must_link": (obj, None), "cannot_link": (None, obj), "both": (obj, obj), "must_link+valid": (obj, [(0, 1)]),
                "valid+cannot_link": ([(0, 1)], obj)}[inp["position"]]
        if "empty" in inp and inp["position"] != "both":
            a, b = (obj, [(0, 1)]) if inp["position"] == "must_link" else ([(0, 1)], obj)
        tok, _, exc, _ = ml_.real_accept(a, b)
        print(f"{inp}: implementation -> {tok}")
        still = (exc is None) if "malformed" in inp else (tok != "ok")
    elif unit in ("inject", "batch-indices", "decorated-fit"):
        mlp = [tuple(p) for p in inp["must_link"]]
        clp = [tuple(p) for p in inp["cannot_link"]]
        X = np.array(inp["X"])
        recs = ml_.decorated_fit(inp["family"], inp["params"], X, ml_.as_container(mlp, inp["container"]),
                                 ml_.as_container(clp, inp["container"]), inp["factor"])
        still = False
        sample_of = {X[i].tobytes(): i for i in range(len(X))}
        for bi, rec in enumerate(recs):
            b = rec["y_pred"].shape[0]
            samples = list(range(b)) if inp["family"] == "CategoricalModel" else [sample_of.get(np.asarray(rec["X"][q], dtype=float).tobytes()) for q in range(b)]
            row_of = {s: q for q, s in enumerate(samples) if s is not None}
            want = rec["g_pre"] + ml_.penalty_gradient_fd(rec["y_pred"], row_of, mlp, clp, float(inp["factor"]))
            err = float(np.abs(want - rec["g_post"]).max())
            if err > 1e-9 * max(1.0, float(np.abs(want).max())) or rec["indices"] != samples:
                still = True
                print(f"batch {bi}: indices {rec['indices']} samples {samples} max |got - expected| = {err}")
    else:
        print("replay file names no re-runnable unit:", unit)
        return 2
    print("STILL FAILING" if still else "no longer failing")
    return 1 if still else 0
