"""C11 — Kernel, metric and GEMINI choices are forwarded faithfully; precomputed = named.

Correspondence: the translated tables (Gen/Forwarding.lean, regenerated here) interpreted by Model/Forwarding.lean
against the live objects: `Est(**hyper).get_gemini()` (class, evaluate owner, every attribute), the affinity
`compute_affinity(X, y)` / `_compute_kernel` bit for bit against the scikit-learn call the model names, warnings.

Oracles (written from the property text, never from the model):
  named_vs_precomputed  the same estimator fitted with a named kernel/metric (+ parameter dictionary) and with
                        "precomputed" + the scikit-learn matrix: weights, labels_, predict_proba, score, path
                        bit-identical; a named kernel ignores whatever `y` it is given (fit, score, path)
  callable              a callable kernel is used as f(X) (== precomputed f(X)); KernelRIM callable == named
  missing               "precomputed" without a matrix: ValueError from fit, score and path
  documented            each convenience estimator == the generic estimator holding the documented GEMINI computed
                        on the scikit-learn affinity; its score == that GEMINI evaluated directly; gemini None /
                        name / default == the documented instance; RIM / SparseLinearMI / KernelRIM train with
                        KL one-vs-all
  kauri                 Kauri(kernel=name) == Kauri(kernel="precomputed") given pairwise_kernels(X, metric=name)
  param_order           kernel_params / metric_params dictionaries in every key order and with every subset of the keys
                        (poly, polynomial, sigmoid; squared for euclidean / l2): affinity of the GEMINI object and of the
                        estimator's GEMINI == scikit-learn called with keywords (and the kernel's closed form), then
                        the whole named_vs_precomputed comparison
  cloned                sklearn clone, clone of clone, deepcopy, pickle, get_params round trips of an unfitted estimator
                        (GEMINI instances carrying kernel_params / metric_params / epsilon / callables, convenience
                        parameters, names): same GEMINI, same affinity (== scikit-learn's), same fit and score as the
                        original and as the precomputed route
"""
import json

import numpy as np

from .. import core, fit_lib as fl, forwarding_lib as fw
from translator import forwarding as tr
from translator.tables import TranslationFailure

PATH_KW = dict(alpha_multiplier=2.0, min_features=1, max_patience=2)


def regen(ctx):
    try:
        data, text = tr.forwarding()
    except TranslationFailure as e:
        ctx.extra["translation_failure"] = f"forwarding: {e}"
        return None
    changed = core.write_if_changed(core.LEAN + "/GemVerif/Gen/Forwarding.lean", text)
    ctx.translation = {"units": ["gemini/*.py constructors + compute_affinity, gemini/_utils.py::_str_to_gemini, "
                                 "_base_gemini.py::get_gemini, 18 estimator classes (__init__, get_gemini, "
                                 "_compute_kernel) -> Gen/Forwarding.lean"],
                       "regenerated": 1, "identical_to_committed": not changed}
    return data


# =========================================================================== correspondence
def repr_hypers(rs, thorough):
    """(estimator, hyper spec) pairs: the representative assignments of Lemmas/Forwarding.lean plus random ones"""
    out = []
    ovos = [None, False, True]
    pvals = ["omit", None, {"gamma": 0.3}, {"degree": 2, "coef0": 1}]
    kvals = ["omit", "rbf", "polynomial", "sigmoid", "linear", "precomputed", {"callable": "tanhgram"}, "euclidean"]
    mvals = ["omit", "euclidean", "l1", "cosine", "manhattan", "precomputed", {"callable": "tanhgram"}, "haversine", "rbf"]

    def hyp(okey, o, kkey, k, pkey, p):
        h = {}
        if o is not None:
            h[okey] = o
        if k != "omit":
            h[kkey] = k
        if p != "omit":
            h[pkey] = fw.D(p)
        return h
    for e in fw.MMD_EST:
        for o in ovos:
            for k in kvals:
                for p in pvals:
                    out.append((e, hyp("ovo", o, "kernel", k, "kernel_params", p)))
    for e in fw.WASS_EST:
        for o in ovos:
            for k in mvals:
                for p in pvals:
                    out.append((e, hyp("ovo", o, "metric", k, "metric_params", p)))
    insts = [{"gemini": {"cls": "MMDGEMINI", "kw": {"ovo": True, "kernel": "rbf", "kernel_params": fw.D({"gamma": 0.3})}}},
             {"gemini": {"cls": "MMDGEMINI", "kw": {"kernel": "precomputed", "epsilon": 1e-9}}},
             {"gemini": {"cls": "MMDGEMINI", "kw": {"kernel": {"callable": "tanhgram"}}}},
             {"gemini": {"cls": "WassersteinGEMINI", "kw": {"ovo": True, "metric": "l1"}}},
             {"gemini": {"cls": "WassersteinGEMINI", "kw": {"metric": "precomputed"}}},
             {"gemini": {"cls": "MI", "kw": {}}},
             {"gemini": {"cls": "TVGEMINI", "kw": {"ovo": True, "epsilon": 1e-6}}}]
    for e in fw.GENERIC_EST:
        out.append((e, {}))
        out.append((e, {"gemini": None}))
        for nm in fl.GEMINI_NAMES:
            out.append((e, {"gemini": nm}))
        out.append((e, {"gemini": "mmd"}))
        for g in insts:
            out.append((e, {"gemini": g}))
    for e in fw.MI_EST:
        out.append((e, {}))
        out.append((e, {"n_clusters": 2}))
    for k, p in [("rbf", {"gamma": 0.3}), ("linear", None), ({"callable": "cross1"}, None),
                 ({"callable": "crossexp"}, {"gamma": 0.3}), ("poly", {"degree": 2, "coef0": 1})]:
        out.append(("KernelRIM", {"base_kernel": k, "base_kernel_params": fw.D(p)}))
    for k in ["omit", "linear", "rbf", "poly", "sigmoid", "cosine", "precomputed", {"callable": "dot1"}]:
        out.append(("Kauri", {} if k == "omit" else {"kernel": k}))
    # random assignments
    allk = list(fw.KERNEL_PARAM_KEYS) + ["precomputed", "nan_euclidean", "foo"]
    allm = ["euclidean", "l2", "l1", "manhattan", "cityblock", "cosine", "precomputed", "nan_euclidean", "haversine"]
    for _ in range(2000 if thorough else 40):
        e = (fw.MMD_EST + fw.WASS_EST)[rs.randint(8)]
        h = {}
        if rs.rand() < 0.7:
            h["ovo"] = bool(rs.randint(2))
        if e in fw.MMD_EST:
            k = allk[rs.randint(len(allk))]
            h["kernel"] = k
            keys = fw.KERNEL_PARAM_KEYS.get(k, ["gamma"])
            if rs.rand() < 0.7:
                h["kernel_params"] = fw.D({q: (int(rs.randint(1, 4)) if q == "degree" else round(float(rs.rand()) + 0.05, 3))
                                           for q in keys if rs.rand() < 0.7})
        else:
            k = allm[rs.randint(len(allm))]
            h["metric"] = k
            if rs.rand() < 0.5:
                h["metric_params"] = fw.D({"squared": bool(rs.randint(2))} if k in ("euclidean", "l2") and rs.rand() < 0.7 else {})
        if rs.rand() < 0.3:
            h["n_clusters"] = int(rs.randint(2, 5))
        out.append((e, h))
    return out


def correspondence(ctx, rs):
    thorough = ctx.tier != "quick"
    cases = repr_hypers(rs, thorough)
    n, d = 7, 3
    X = fw.data(rs, n, d)
    Xn = fw.data(rs, n, d, nonneg=True)
    Xtrain = fw.data(rs, 5, d)
    yuser = rs.rand(n, n)
    yuser = yuser + yuser.T
    lines, meta = [], []
    for e, h in cases:
        hv = fw.live_hyper(h)
        enc = fw.enc_hyper(hv)
        meta.append((e, h, hv, "resolve", None))
        lines.append(f"resolve {e} {enc}".rstrip())
        if e in ("KernelRIM", "Kauri"):
            for yy in ((0, 1) if e == "Kauri" else (0,)):
                meta.append((e, h, hv, "kernel", yy))
                lines.append(f"kernel {e} {yy} {enc}".rstrip())
        if e != "Kauri":
            for yy in (0, 1):
                meta.append((e, h, hv, "aff", yy))
                lines.append(f"aff {e} {yy} {enc}".rstrip())
    try:
        outs = core.run_driver("Forwarding", lines)
    except core.DriverBuildError as ex:
        ctx.proof["broken"].append({"theorem": "model build", "reason": str(ex)[-400:]})
        return
    cache = {}
    for (e, h, hv, op, yy), ans in zip(meta, outs):
        key = (e, json.dumps(h, sort_keys=True, default=str))
        nonneg = any(hv.get(k) in fw.NONNEG_KERNELS for k in ("kernel", "base_kernel"))
        Xc = Xn if nonneg else X
        inp = {"estimator": e, "hyper": h, "op": op, "y_given": yy}
        if op == "resolve":
            ctx.case(key, bool(h), {"estimator": e, "hyper": h} if len(ctx.samples) < 6 and h else None)
            ctx.count(f"family:{'mmd' if e in fw.MMD_EST else 'wass' if e in fw.WASS_EST else 'generic' if e in fw.GENERIC_EST else e}")
            est = fl.estimators()[e](**hv)      # constructors never validate
            try:
                g = est.get_gemini()
                realr = ("ok",) + fw.describe_live(g)
            except Exception as ex:
                g = None
                realr = ("error", type(ex).__name__)
            cache[key] = (est, g)
            model = fw.parse_resolve(ans)
            ctx.compared("get_gemini")
            ctx.count("resolve:" + realr[0])
            if tuple(model) != tuple(realr):
                ctx.corr_break("get_gemini", inp, {"impl": realr, "model": model})
            if realr[0] == "ok" and "gemini" in hv and hasattr(hv["gemini"], "evaluate") and g is not hv["gemini"]:
                ctx.corr_break("get_gemini", inp, {"impl": "instance not returned as is"})
            continue
        est, g = cache[key]
        y = yuser if yy else None
        with fw.gemclus_warnings() as ws:
            try:
                if op == "aff":
                    if g is None:
                        raise RuntimeError("unresolved")
                    r = ("ok", g.compute_affinity(Xc, y))
                elif e == "KernelRIM":
                    est.input_data_ = Xtrain
                    r = ("ok", est._compute_kernel(Xc))
                else:
                    r = ("ok", est._compute_kernel(Xc, y))
            except RuntimeError:
                r = None
            except Exception as ex:
                r = ("error", type(ex).__name__)
        unit = "compute_affinity" if op == "aff" else f"{e}._compute_kernel"
        if r is None:
            # get_gemini itself failed: the model must fail the same way
            w, m = int(ans.split(" ")[0]), ans.split(" ")[1]
            ctx.compared(unit)
            if m != "error":
                ctx.corr_break(unit, inp, {"impl": "get_gemini raised", "model": ans})
            continue
        try:
            w, m = fw.eval_sym(ans, Xc, y, Xtrain)
        except Exception as ex:
            m, w = ("error", "harness:" + type(ex).__name__), -1
        ctx.compared(unit)
        ctx.count(f"aff:{r[0]}:{'none' if (r[0] == 'ok' and r[1] is None) else ''}")
        ok = True
        if r[0] == "error" or m[0] == "error":
            ok = r[0] == m[0] and r[1] == m[1]
            if m[0] == "error" and str(m[1]).startswith("harness:") and r[0] == "error":
                ok = True   # scikit-learn itself rejects the call the model names (both fail)
        elif m[1] is None or r[1] is None:
            ok = m[1] is None and r[1] is None
        elif isinstance(m[1], str):
            ok = r[1] is y
        else:
            ok = fw.same_bits(r[1], m[1])
        if ok and r[0] == "ok" and w != len(ws):
            ok = False
        if not ok:
            ctx.corr_break(unit, inp, {"impl": [r[0], None if r[0] == "ok" else r[1]], "impl_warnings": len(ws),
                                       "model": ans})


# =========================================================================== oracles
def _common(spec):
    c = dict(spec.get("common", {}))
    return c


def _named_hyper(spec, precomputed=False, callable_name=None):
    """hyperparameters of the estimator under test for a named / precomputed / callable affinity"""
    kind = spec["kind"]
    key, pkey = ("kernel", "kernel_params") if kind == "kernel" else ("metric", "metric_params")
    name = "precomputed" if precomputed else ({"callable": callable_name} if callable_name else spec["name"])
    params = None if (precomputed or callable_name) else spec.get("params")
    if spec.get("via", "param") == "param":
        h = {"ovo": spec["ovo"], key: name, pkey: fw.D(params)}
    else:
        cls = "MMDGEMINI" if kind == "kernel" else "WassersteinGEMINI"
        h = {"gemini": {"gemini": {"cls": cls, "kw": {"ovo": spec["ovo"], key: name, pkey: fw.D(params)}}}}
    h.update(_common(spec))
    return h


def _cmp(fails, key, what, s1, s2, tol=None):
    bad = fw.diff_states(s1, s2)
    if not bad:
        return True
    if tol is not None and bad != ["<structure>"]:
        worst = max(fw.max_rel(a, b) for (l, a), (_, b) in zip(s1, s2) if l in bad)
        exact_ok = all(fw.same_bits(a, b) for (l, a), (_, b) in zip(s1, s2) if np.asarray(a).dtype.kind in "iub")
        if worst <= tol and exact_ok:
            return False  # float noise only: not bit-identical but within tolerance
        fails.append({"key": key, "what": f"{what}: {bad} differ (max relative difference {worst:.3g})",
                      "expected": None, "actual": bad})
        return False
    fails.append({"key": key, "what": f"{what}: {bad} are not bit-identical", "expected": None, "actual": bad})
    return False


def check_named_vs_precomputed(spec):
    """fails, info"""
    fails, info = [], {}
    X = np.array(spec["X"], float)
    A = fw.sk_affinity(spec["kind"], spec["name"], spec.get("params"), X)
    junk = np.array(spec["junk"], float)
    e = spec["estimator"]
    hn, hp = _named_hyper(spec), _named_hyper(spec, precomputed=True)
    m1 = fw.make(e, hn).fit(X)
    m2 = fw.make(e, hp).fit(X, A)
    s1, s2 = fw.fitted_state(m1), fw.fitted_state(m2)
    _cmp(fails, "fit:named-vs-precomputed", "fitted model with named vs precomputed affinity", s1, s2)
    p1, p2 = m1.predict_proba(X), m2.predict_proba(X)
    _cmp(fails, "proba:named-vs-precomputed", "predict_proba", [("proba", p1)], [("proba", p2)])
    sc1, sc2 = m1.score(X), m2.score(X, A)
    _cmp(fails, "score:named-vs-precomputed", f"score {sc1!r} (named) vs {sc2!r} (precomputed)", [("s", sc1)], [("s", sc2)])
    # the same through fit_predict (the matrix handed as y must reach training there as well)
    lab_fp = np.asarray(fw.make(e, hp).fit_predict(X, A))
    if not np.array_equal(lab_fp, np.asarray(m1.labels_)):
        fails.append({"key": "fit_predict:named-vs-precomputed", "what": "fit_predict(X, matrix) with a precomputed affinity gives other labels than "
                      "fit with the named affinity", "expected": np.asarray(m1.labels_).tolist(), "actual": lab_fp.tolist()})
    # a named affinity does not use y
    m3 = fw.make(e, hn).fit(X, junk)
    _cmp(fails, "fit:named-ignores-y", "fit(X, y) with a named affinity must not use y", s1, fw.fitted_state(m3))
    _cmp(fails, "score:named-ignores-y", "score(X, y) with a named affinity must not use y", [("s", sc1)], [("s", m1.score(X, junk))])
    # the documented objective, evaluated directly on the scikit-learn matrix
    import gemclus.gemini as G
    doc = (G.MMDGEMINI(ovo=spec["ovo"], kernel="precomputed") if spec["kind"] == "kernel"
           else G.WassersteinGEMINI(ovo=spec["ovo"], metric="precomputed"))
    direct = float(doc(p1, A))
    if not core.close(sc1, direct, rtol=1e-12, atol=1e-13):
        fails.append({"key": "score:documented-gemini", "what": f"score {sc1!r} is not the documented GEMINI {direct!r} on the scikit-learn affinity",
                      "expected": direct, "actual": sc1})
    if e in fw.SPARSE_EST and spec.get("path", True):
        full = spec.get("common", {}).get("batch_size") is None
        r1 = fw.path_outputs(fw.make(e, hn).path(X, None, **PATH_KW))
        r2 = fw.path_outputs(fw.make(e, hp).path(X, A, **PATH_KW))
        info["path_steps"] = int(len(r1[-1][1]))
        # the named run re-evaluates the kernel on every validation batch (on the F-ordered copy X_batch[:, mask], or on a
        # mini-batch), which scikit-learn/BLAS may round 1 ulp away from the matrix computed once on X; the MMD takes a
        # square root of a difference of such sums, so the validation scores (`geminis`) are compared to 5e-6 (the MMD
        # tolerance of C01); best weights, penalties, alphas and n_features must be bit-identical
        n0 = len(fails)
        ex = lambda r: [x for x in r if x[0] != "geminis"]
        gm = lambda r: [x for x in r if x[0] == "geminis"]
        _cmp(fails, "path:named-vs-precomputed", "path outputs with named vs precomputed affinity", ex(r1), ex(r2))
        b = _cmp(fails, "path:named-vs-precomputed", "path validation scores with named vs precomputed affinity", gm(r1), gm(r2), tol=5e-6)
        if len(fails) == n0:
            info[("bitwise" if b else "within_tol") + (":full" if full else ":batch")] = 1
        r3 = fw.path_outputs(fw.make(e, hn).path(X, junk, **PATH_KW))
        _cmp(fails, "path:named-ignores-y", "path(X, y) with a named affinity must not use y (docstring: 'Otherwise, it is not used')", r1, r3)
    return fails, info


def check_callable(spec):
    fails, info = [], {}
    X = np.array(spec["X"], float)
    e = spec["estimator"]
    if e == "KernelRIM":
        # a callable base kernel that IS the named kernel behaves as the named kernel
        from sklearn.metrics import pairwise_kernels
        name, params = spec["name"], spec.get("params") or {}
        calls = []

        def f(A, B):
            calls.append((np.asarray(A).shape, np.asarray(B).shape))
            return pairwise_kernels(A, B, metric=name, **params)
        c = dict(_common(spec))
        m1 = fl.estimators()[e](base_kernel=f, **c).fit(X)
        m2 = fl.estimators()[e](base_kernel=name, base_kernel_params=spec.get("params"), **c).fit(X)
        _cmp(fails, "kernelrim:callable-vs-named", "KernelRIM with a callable equal to the named kernel", fw.fitted_state(m1), fw.fitted_state(m2))
        X2 = np.array(spec["X2"], float)
        _cmp(fails, "kernelrim:callable-vs-named", "KernelRIM.predict_proba on new points", [("p", m1.predict_proba(X2))], [("p", m2.predict_proba(X2))])
        if not calls or any(b != X.shape for _, b in calls):
            fails.append({"key": "kernelrim:callable-args", "what": f"callable base kernel not called as f(X, training data): {calls[:3]}",
                          "expected": str(X.shape), "actual": str(calls[:3])})
        return fails, info
    f = fw.CALLABLES_X[spec["callable"]]
    A = f(X)
    spec = dict(spec, kind="kernel", name=None)
    hc, hp = _named_hyper(spec, callable_name=spec["callable"]), _named_hyper(spec, precomputed=True)
    if spec.get("with_params"):
        if spec.get("via", "param") == "param":
            hc["kernel_params"] = fw.D({"gamma": 0.7})
        else:
            hc["gemini"]["gemini"]["kw"]["kernel_params"] = fw.D({"gamma": 0.7})
    m1 = fw.make(e, hc).fit(X)
    m2 = fw.make(e, hp).fit(X, A)
    _cmp(fails, "fit:callable-vs-precomputed", "fitted model with a callable kernel vs precomputed f(X)", fw.fitted_state(m1), fw.fitted_state(m2))
    _cmp(fails, "score:callable-vs-precomputed", "score with a callable kernel vs precomputed f(X)", [("s", m1.score(X))], [("s", m2.score(X, A))])
    if e in fw.SPARSE_EST:
        r1 = fw.path_outputs(fw.make(e, hc).path(X, None, **PATH_KW))
        r2 = fw.path_outputs(fw.make(e, hp).path(X, A, **PATH_KW))
        ex = lambda r: [x for x in r if x[0] != "geminis"]
        gm = lambda r: [x for x in r if x[0] == "geminis"]
        _cmp(fails, "path:callable-vs-precomputed", "path outputs with a callable kernel vs precomputed f(X)", ex(r1), ex(r2))
        _cmp(fails, "path:callable-vs-precomputed", "path validation scores with a callable kernel vs precomputed f(X)", gm(r1), gm(r2), tol=5e-6)
    return fails, info


def check_missing(spec):
    fails, info = [], {}
    X = np.array(spec["X"], float)
    e = spec["estimator"]
    A = fw.sk_affinity(spec["kind"], spec["name"], None, X)
    hp = _named_hyper(spec, precomputed=True)
    calls = [("fit", lambda: fw.make(e, hp).fit(X)), ("fit_predict", lambda: fw.make(e, hp).fit_predict(X)),
             ("score", lambda: fw.make(e, hp).fit(X, A).score(X))]
    if e in fw.SPARSE_EST:
        calls.append(("path", lambda: fw.make(e, hp).path(X, None, **PATH_KW)))
    import gemclus.gemini as G
    gobj = (G.MMDGEMINI(kernel="precomputed") if spec["kind"] == "kernel" else G.WassersteinGEMINI(metric="precomputed"))
    calls.append(("compute_affinity", lambda: gobj.compute_affinity(X)))
    for nm, fn in calls:
        try:
            r = fn()
            fails.append({"key": f"missing:{nm}", "what": f"{nm} with a 'precomputed' affinity and no matrix did not raise (returned {type(r).__name__})",
                          "expected": "ValueError", "actual": "no error"})
        except ValueError:
            pass
        except Exception as ex:
            fails.append({"key": f"missing:{nm}", "what": f"{nm} with a 'precomputed' affinity and no matrix raised {type(ex).__name__}: {str(ex)[:120]}",
                          "expected": "ValueError", "actual": type(ex).__name__})
    return fails, info


GENERIC_OF = {"LinearMMD": "LinearModel", "MLPMMD": "MLPModel", "SparseLinearMMD": "SparseLinearModel",
              "SparseMLPMMD": "SparseMLPModel", "CategoricalMMD": "CategoricalModel",
              "LinearWasserstein": "LinearModel", "MLPWasserstein": "MLPModel", "CategoricalWasserstein": "CategoricalModel"}


def _doc_instance(cls, ovo):
    """the documented GEMINI, taking its affinity from the harness (never through the forwarding under test)"""
    import gemclus.gemini as G
    if cls == "MMDGEMINI":
        return G.MMDGEMINI(ovo=ovo, kernel="precomputed"), ("kernel", "linear")
    if cls == "WassersteinGEMINI":
        return G.WassersteinGEMINI(ovo=ovo, metric="precomputed"), ("metric", "euclidean")
    return getattr(G, cls)(ovo=ovo), None


def check_documented(spec):
    fails, info = [], {}
    X = np.array(spec["X"], float)
    e = spec["estimator"]
    c = _common(spec)
    E = fl.estimators()
    import gemclus.gemini as G
    if e in GENERIC_OF:
        # convenience estimator == generic estimator with the documented GEMINI on the scikit-learn affinity
        A = fw.sk_affinity(spec["kind"], spec["name"], spec.get("params"), X)
        cls = "MMDGEMINI" if spec["kind"] == "kernel" else "WassersteinGEMINI"
        m1 = fw.make(e, _named_hyper(dict(spec, via="param")))
        m1.fit(X)
        g, _ = _doc_instance(cls, spec["ovo"])
        m2 = E[GENERIC_OF[e]](gemini=g, **fw.live_hyper(c)).fit(X, A)
        _cmp(fails, "documented:convenience-vs-generic", f"{e} vs {GENERIC_OF[e]} holding the documented {cls} (ovo={spec['ovo']})",
             fw.fitted_state(m1), fw.fitted_state(m2))
        return fails, info
    if e in ("RIM", "SparseLinearMI"):
        gen = "LinearModel" if e == "RIM" else "SparseLinearModel"
        extra = {"reg": 0.0} if e == "RIM" else {}
        m1 = E[e](**fw.live_hyper(c), **extra).fit(X)
        m2 = E[gen](gemini=G.KLGEMINI(ovo=False), **fw.live_hyper(c)).fit(X)
        _cmp(fails, "documented:mi", f"{e} vs {gen} holding KL one-vs-all", fw.fitted_state(m1), fw.fitted_state(m2))
        direct = float(G.KLGEMINI(ovo=False)(m1.predict_proba(X), None))
        if not core.close(m1.score(X), direct, rtol=1e-12, atol=1e-13):
            fails.append({"key": "documented:mi-score", "what": f"{e}.score {m1.score(X)!r} is not KL one-vs-all {direct!r}", "expected": direct, "actual": m1.score(X)})
        return fails, info
    if e == "KernelRIM":
        from sklearn.metrics import pairwise_kernels
        name, params = spec["name"], spec.get("params") or {}
        Ktr = pairwise_kernels(X, X, metric=name, **params)
        m1 = E[e](reg=0.0, base_kernel=name, base_kernel_params=spec.get("params"), **fw.live_hyper(c)).fit(X)
        m2 = E["LinearModel"](gemini=G.KLGEMINI(ovo=False), **fw.live_hyper(c)).fit(Ktr)
        _cmp(fails, "documented:kernelrim", "KernelRIM(reg=0) vs a logistic regression on the scikit-learn kernel features trained with KL one-vs-all",
             fw.fitted_state(m1), fw.fitted_state(m2))
        X2 = np.array(spec["X2"], float)
        _cmp(fails, "documented:kernelrim-predict", "KernelRIM.predict_proba(new) vs the kernel between new and training points",
             [("p", m1.predict_proba(X2))], [("p", m2.predict_proba(pairwise_kernels(X2, X, metric=name, **params)))])
        direct = float(G.KLGEMINI(ovo=False)(m1.predict_proba(X), None))
        if not core.close(m1.score(X), direct, rtol=1e-12, atol=1e-13):
            fails.append({"key": "documented:mi-score", "what": f"KernelRIM.score {m1.score(X)!r} is not KL one-vs-all {direct!r}", "expected": direct, "actual": m1.score(X)})
        return fails, info
    # generic estimators: gemini omitted / None / name
    gv = spec["gemini"]
    name = fw.DOC_DEFAULT.get(e, "mmd_ova") if gv == "omit" else ("mmd_ova" if gv is None else gv)
    cls, ovo = fw.NAME_DOC[name]
    g, aff = _doc_instance(cls, ovo)
    A = None if aff is None else fw.sk_affinity(aff[0], aff[1], None, X)
    kw = {} if gv == "omit" else {"gemini": gv}
    m1 = E[e](**kw, **fw.live_hyper(c)).fit(X)
    m2 = E[e](gemini=g, **fw.live_hyper(c)).fit(X, A)
    _cmp(fails, "documented:gemini-" + ("default" if gv == "omit" else "None" if gv is None else "name"),
         f"{e}(gemini={'<default>' if gv == 'omit' else gv!r}) vs the documented {cls}(ovo={ovo}) on the {'-' if aff is None else aff[1]} affinity",
         fw.fitted_state(m1), fw.fitted_state(m2))
    direct = float(g(m1.predict_proba(X), A))
    if not core.close(m1.score(X), direct, rtol=1e-12, atol=1e-13):
        fails.append({"key": "documented:gemini-score", "what": f"{e}(gemini={gv!r}).score {m1.score(X)!r} is not the documented {cls}(ovo={ovo}) value {direct!r}",
                      "expected": direct, "actual": m1.score(X)})
    return fails, info


def check_kauri(spec):
    fails, info = [], {}
    X = np.array(spec["X"], float)
    junk = np.array(spec["junk"], float)
    from sklearn.metrics import pairwise_kernels
    A = pairwise_kernels(X, metric=spec["name"])
    c = fw.live_hyper(_common(spec))
    with fw.kauri_transliterated():
        from gemclus.tree import Kauri
        m1 = Kauri(kernel=spec["name"], **c).fit(X)
        m2 = Kauri(kernel="precomputed", **c).fit(X, A)
        info["nodes"] = int(m1.tree_.n_nodes)
        _cmp(fails, "kauri:named-vs-precomputed", "Kauri tree and labels with named vs precomputed kernel", fw.kauri_state(m1), fw.kauri_state(m2))
        s1, s2 = m1.score(X), m2.score(X, A)
        _cmp(fails, "kauri:score", f"Kauri score {s1!r} (named) vs {s2!r} (precomputed)", [("s", float(s1))], [("s", float(s2))])
        # the same through fit_predict: the matrix handed as y must reach the search there too
        import warnings as _w
        with _w.catch_warnings(record=True) as wl:
            _w.simplefilter("always")
            m4 = Kauri(kernel="precomputed", **c)
            lab4 = m4.fit_predict(X, A)
        if any("precomputed kernel was supposed" in str(w.message) for w in wl):
            fails.append({"key": "kauri:fit_predict-drops-matrix", "what": "Kauri(kernel='precomputed').fit_predict(X, K) warns that no matrix was "
                          "passed although K was given", "expected": "the matrix is used", "actual": "fallback to the linear kernel"})
        _cmp(fails, "kauri:fit_predict-precomputed", "Kauri.fit_predict(X, K) vs the named kernel (tree and labels)", fw.kauri_state(m1), fw.kauri_state(m4))
        if not np.array_equal(np.asarray(lab4), np.asarray(m1.labels_)):
            fails.append({"key": "kauri:fit_predict-precomputed", "what": "labels returned by Kauri.fit_predict(X, K) differ from those of the named kernel",
                          "expected": np.asarray(m1.labels_).tolist(), "actual": np.asarray(lab4).tolist()})
        with _w.catch_warnings():
            _w.simplefilter("ignore")
            m5 = Kauri(kernel="precomputed", **c)
            m5.fit(X)                   # documented fall-back: a warning and the linear kernel for THIS call
            k_after = m5.get_params()["kernel"]
            m5.fit(X, A)
        if k_after != "precomputed":
            fails.append({"key": "kauri:warning-branch-rewrites-kernel", "what": f"Kauri(kernel='precomputed').fit(X) without a matrix left kernel={k_after!r}",
                          "expected": "precomputed", "actual": k_after})
        _cmp(fails, "kauri:matrix-after-forgotten-matrix", "Kauri.fit(X, K) after an earlier fit(X) that forgot the matrix vs the named kernel",
             fw.kauri_state(m1), fw.kauri_state(m5))
        m3 = Kauri(kernel=spec["name"], **c).fit(X, junk)
        _cmp(fails, "kauri:named-ignores-y", "Kauri.fit(X, y) with a named kernel must not use y", fw.kauri_state(m1), fw.kauri_state(m3))
        _cmp(fails, "kauri:named-ignores-y", "Kauri.score(X, y) with a named kernel must not use y", [("s", float(s1))], [("s", float(m1.score(X, junk)))])
    return fails, info


def check_reconfigured(spec):
    """the GEMINI / affinity used is the one the parameters describe AT THE TIME OF THE CALL: an estimator that has already
    been used with one configuration and is then reconfigured with set_params behaves like a fresh estimator built with
    the new configuration (fit state, score, get_gemini)."""
    fails, info = [], {}
    X = np.array(spec["X"], float)
    e = spec["estimator"]
    c = fw.live_hyper(_common(spec))
    E = fl.estimators()
    first, second = fw.live_hyper(spec["first"]), fw.live_hyper(spec["second"])
    m = E[e](**first, **c)
    if spec["use"] == "fit":
        m.fit(X)
        m.score(X)
    elif spec["use"] == "get_gemini":
        m.get_gemini()
    else:
        m.fit_predict(X)
    m.set_params(**second)
    fresh = E[e](**{**first, **second}, **c)
    m.fit(X)
    fresh.fit(X)
    _cmp(fails, "reconfigured:fit", f"{e}: fit after {spec['use']} with {spec['first']} and set_params({spec['second']}) vs a fresh estimator",
         fw.fitted_state(m), fw.fitted_state(fresh))
    s1, s2 = m.score(X), fresh.score(X)
    if not fw.same_bits(np.asarray(s1), np.asarray(s2)):
        fails.append({"key": "reconfigured:score", "what": f"{e}: score after reconfiguration {s1!r} differs from a fresh estimator's {s2!r}",
                      "expected": s2, "actual": s1})
    # what one estimator's objective object is turned into by its user must not reach another estimator resolving the same name
    ga = fresh.get_gemini()
    before = {k: v for k, v in vars(ga).items()}
    for attr, val in (("kernel", "rbf"), ("metric", "cityblock"), ("ovo", not bool(getattr(ga, "ovo", False))), ("epsilon", 0.25)):
        if hasattr(ga, attr):
            try:
                setattr(ga, attr, val)
            except Exception:
                pass
    other = E[e](**{**first, **second}, **c)
    gb = other.get_gemini()
    leaked = sorted(k for k in before if k in vars(gb) and vars(gb)[k] != before[k] and not callable(before[k]))
    if gb is ga or leaked:
        fails.append({"key": "reconfigured:shared-objective", "what": f"{e}: the objective object resolved for gemini={second.get('gemini', first.get('gemini'))!r} is shared between "
                      f"estimators (attributes changed on one appear on another: {leaked or 'same object'})", "expected": "independent objects", "actual": leaked or "same object"})
    for k, v in before.items():
        try:
            setattr(ga, k, v)
        except Exception:
            pass
    g1, g2 = m.get_gemini(), fresh.get_gemini()
    d1 = (fw.eval_owner(g1), bool(g1.ovo), getattr(g1, "kernel", None), getattr(g1, "metric", None))
    d2 = (fw.eval_owner(g2), bool(g2.ovo), getattr(g2, "kernel", None), getattr(g2, "metric", None))
    if d1 != d2:
        fails.append({"key": "reconfigured:get_gemini", "what": f"{e}: get_gemini() after reconfiguration is {d1}, a fresh estimator's is {d2}",
                      "expected": str(d2), "actual": str(d1)})
    return fails, info


# --------------------------------------------------------------------------- parameter dictionaries: any key order, any subset
def _affinity_of(kind, name, params, X, A_user=None):
    """the affinity the hyperparameters describe, from scikit-learn called with KEYWORDS (or f(X) / the user's matrix)"""
    if isinstance(name, dict) and "callable" in name:
        return fw.CALLABLES_X[name["callable"]](X)
    if name == "precomputed":
        return A_user
    return fw.sk_affinity(kind, name, params, X)


def _check_affinity(fails, key, what, got_fn, expected, closed=None):
    """`got_fn()` must return the expected matrix (1e-10: the same scikit-learn function on the same data; the closed form
    of the kernel is a second, scikit-learn-free opinion at 1e-8); legal parameters must not be rejected"""
    try:
        got = got_fn()
    except Exception as ex:
        fails.append({"key": key + ":raised", "what": f"{what} raised {type(ex).__name__}: {str(ex)[:160]}",
                      "expected": "the scikit-learn affinity", "actual": type(ex).__name__})
        return None
    got = np.asarray(got, float)
    if got.shape != expected.shape or not np.allclose(got, expected, rtol=1e-10, atol=1e-12):
        worst = float(np.abs(got - expected).max()) if got.shape == expected.shape else float("inf")
        fails.append({"key": key, "what": f"{what} is not the scikit-learn affinity the parameters describe (max abs difference {worst:.3g})",
                      "expected": expected[:2].tolist(), "actual": got[:2].tolist()})
    elif closed is not None and not np.allclose(got, closed, rtol=1e-8, atol=1e-10):
        fails.append({"key": key + ":closed-form", "what": f"{what} differs from the kernel's formula (max abs difference {float(np.abs(got - closed).max()):.3g})",
                      "expected": closed[:2].tolist(), "actual": got[:2].tolist()})
    return got


def check_param_order(spec):
    """kernel_params / metric_params reach scikit-learn BY NAME: the dictionary may list its keys in any order and hold any
    subset of the function's parameters.  The affinity of the GEMINI object, of the estimator's GEMINI, and the whole
    named-vs-precomputed comparison, against scikit-learn called with keywords (and the kernel's closed form)."""
    fails, info = [], {}
    X = np.array(spec["X"], float)
    e, kind, name = spec["estimator"], spec["kind"], spec["name"]
    params = fw.items_dict(spec["items"])
    A = fw.sk_affinity(kind, name, params, X)
    closed = fw.closed_form_kernel(name, params, X) if kind == "kernel" else None
    import gemclus.gemini as G
    pretty = f"kernel={name!r}, kernel_params={params}" if kind == "kernel" else f"metric={name!r}, metric_params={params}"
    for ovo in (False, True):
        mk = ((lambda: G.MMDGEMINI(ovo=ovo, kernel=name, kernel_params=fw.items_dict(spec["items"]))) if kind == "kernel"
              else (lambda: G.WassersteinGEMINI(ovo=ovo, metric=name, metric_params=fw.items_dict(spec["items"]))))
        _check_affinity(fails, "param-order:gemini-affinity", f"{'MMDGEMINI' if kind == 'kernel' else 'WassersteinGEMINI'}({pretty}, ovo={ovo}).compute_affinity(X)",
                        lambda: mk().compute_affinity(X), A, closed)
    full = dict(spec, params=params)
    hn = _named_hyper(full)
    _check_affinity(fails, "param-order:estimator-affinity", f"{e}({pretty}, via {spec.get('via', 'param')}).get_gemini().compute_affinity(X)",
                    lambda: fw.make(e, hn).get_gemini().compute_affinity(X), A, closed)
    if not fails:
        f2, info = check_named_vs_precomputed(full)
        fails += f2
    else:
        # the affinity is already wrong: still show what it does to training (without letting an exception hide the rest)
        try:
            f2, info = check_named_vs_precomputed(dict(full, path=False))
            fails += f2
        except Exception as ex:
            fails.append({"key": "param-order:fit-raised", "what": f"{e}({pretty}).fit raised {type(ex).__name__}: {str(ex)[:160]}",
                          "expected": "a fit", "actual": type(ex).__name__})
    return fails, info


# --------------------------------------------------------------------------- copies of an estimator (clone, deepcopy, pickle ...)
def _copies(m0, with_pickle):
    """the ways scikit-learn tooling (GridSearchCV, Pipeline, cross_validate, joblib) duplicates an unfitted estimator"""
    import copy
    import pickle
    from sklearn.base import clone
    out = [("clone", lambda: clone(m0)), ("clone of clone", lambda: clone(clone(m0))), ("deepcopy", lambda: copy.deepcopy(m0)),
           ("constructor(**get_params(deep=False))", lambda: type(m0)(**m0.get_params(deep=False))),
           ("constructor().set_params(**get_params())", lambda: type(m0)().set_params(**m0.get_params()))]
    if with_pickle:
        out.append(("pickle round trip", lambda: pickle.loads(pickle.dumps(m0))))
    return out


def _gem_descr(g):
    d = {"class": type(g).__name__, "evaluate": fw.eval_owner(g)}
    for a in ("ovo", "epsilon", "kernel", "metric", "kernel_params", "metric_params"):
        if hasattr(g, a):
            v = getattr(g, a)
            d[a] = ("<callable>" if callable(v) else v)
    return d


def check_cloned(spec):
    """a copy of an (unfitted) estimator made the scikit-learn way behaves exactly like the estimator it was copied from:
    the same GEMINI (class, one-vs-one flag, epsilon), the same affinity -- the scikit-learn one its kernel / metric and
    parameter dictionary describe --, the same fitted weights, labels and score for the same random_state; all of it equal
    to the precomputed route (the documented GEMINI given the scikit-learn matrix)."""
    fails, info = [], {}
    X = np.array(spec["X"], float)
    e, kind, name = spec["estimator"], spec.get("kind"), spec.get("name")
    params = fw.items_dict(spec.get("items"))
    hyper = dict(spec["hyper"])
    hyper.update(_common(spec))
    A_user = None
    if name == "precomputed":
        A_user = fw.sk_affinity(kind, "rbf" if kind == "kernel" else "l1", None, X)
    A = None if kind is None else _affinity_of(kind, name, params, X, A_user)
    closed = fw.closed_form_kernel(name, params, X) if (kind == "kernel" and isinstance(name, str)) else None
    has_callable = isinstance(name, dict)
    # reference 1: the estimator itself, never copied
    ref = fw.make(e, hyper)
    gref = _gem_descr(ref.get_gemini())
    ref.fit(X, A_user)
    sref = fw.fitted_state(ref)
    scref = ref.score(X, A_user)
    # reference 2 (independent of every forwarding): the documented objective given the scikit-learn matrix
    spre = None
    if kind is not None and spec.get("hyper_precomputed") is not None:
        hp = dict(spec["hyper_precomputed"])
        hp.update(_common(spec))
        mp = fw.make(e, hp).fit(X, A)
        spre, scpre = fw.fitted_state(mp), mp.score(X, A)
        _cmp(fails, "cloned:original-vs-precomputed", f"{e}: the estimator itself vs the precomputed route", sref, spre)
    m0 = fw.make(e, hyper)
    before = _gem_descr(m0.get_gemini())
    for label, build in _copies(m0, not has_callable):
        try:
            m = build()
        except Exception as ex:
            fails.append({"key": "cloned:copy-raised", "what": f"{e}: {label} raised {type(ex).__name__}: {str(ex)[:160]}",
                          "expected": "a copy", "actual": type(ex).__name__})
            continue
        info["copies"] = info.get("copies", 0) + 1
        try:
            g = m.get_gemini()
        except Exception as ex:
            fails.append({"key": "cloned:get_gemini-raised", "what": f"{e}: get_gemini() of the {label} raised {type(ex).__name__}: {str(ex)[:160]}",
                          "expected": str(gref), "actual": type(ex).__name__})
            continue
        gd = _gem_descr(g)
        for a in ("class", "evaluate", "ovo", "epsilon"):
            if gd.get(a) != gref.get(a):
                fails.append({"key": f"cloned:gemini-{a}", "what": f"{e}: the GEMINI of the {label} has {a}={gd.get(a)!r}, the original's has {gref.get(a)!r}",
                              "expected": str(gref), "actual": str(gd)})
        if A is not None:
            _check_affinity(fails, "cloned:affinity", f"{e}: get_gemini().compute_affinity(X) of the {label} ({ {k: v for k, v in gref.items() if k not in ('class', 'evaluate')} })",
                            lambda: g.compute_affinity(X, A_user), A, closed)
        try:
            m.fit(X, A_user)
            sm, scm = fw.fitted_state(m), m.score(X, A_user)
        except Exception as ex:
            fails.append({"key": "cloned:fit-raised", "what": f"{e}: fit / score of the {label} raised {type(ex).__name__}: {str(ex)[:160]}",
                          "expected": "a fit", "actual": type(ex).__name__})
            continue
        _cmp(fails, "cloned:fit", f"{e}: fit of the {label} vs fit of the original ({ {k: v for k, v in gref.items() if k not in ('class', 'evaluate')} })", sref, sm)
        _cmp(fails, "cloned:score", f"{e}: score of the {label} {scm!r} vs the original's {scref!r}", [("s", scref)], [("s", scm)])
        if spre is not None:
            _cmp(fails, "cloned:fit-vs-precomputed", f"{e}: fit of the {label} vs the precomputed route", spre, sm)
            _cmp(fails, "cloned:score-vs-precomputed", f"{e}: score of the {label} {scm!r} vs the precomputed route's {scpre!r}", [("s", scpre)], [("s", scm)])
    # copying must leave the original as it was
    after = _gem_descr(m0.get_gemini())
    if after != before:
        fails.append({"key": "cloned:original-changed", "what": f"{e}: copying the estimator changed the original's GEMINI from {before} to {after}",
                      "expected": str(before), "actual": str(after)})
    return fails, info


CHECKS = {"param_order": check_param_order, "cloned": check_cloned, "named_vs_precomputed": check_named_vs_precomputed, "callable": check_callable, "missing": check_missing,
          "documented": check_documented, "kauri": check_kauri, "reconfigured": check_reconfigured}


def safe_check(spec):
    """run one oracle; an exception escaping it is itself a failure of the property on that input"""
    unit = spec["check"]
    try:
        return CHECKS[unit](spec)
    except Exception as ex:
        import traceback
        tb = traceback.format_exc().strip().splitlines()
        where = next((l.strip() for l in reversed(tb) if l.strip().startswith("File") and "gemclus" in l), tb[-3].strip() if len(tb) > 2 else "")
        return [{"key": f"{unit}:raised", "what": f"{unit} on {spec['estimator']} raised {type(ex).__name__}: {str(ex)[:200]} @ {where[:160]}",
                 "expected": None, "actual": type(ex).__name__}], {}


def run_spec(ctx, spec):
    unit = spec["check"]
    fails, info = safe_check(spec)
    for f in fails:
        ctx.violation(f["what"], unit, spec, expected=f.get("expected"), actual=f.get("actual"), key=f["key"],
                      how="harness.props.c11.CHECKS[spec['check']](spec)  /  ./check C11 --replay <this file>")
    for k, v in info.items():
        if k.startswith(("bitwise", "within_tol")):
            ctx.count(f"path:{k}", int(v))
    small = {k: v for k, v in spec.items() if k not in ("X", "X2", "junk")}
    ctx.case(json.dumps(spec, sort_keys=True, default=str), True, small)
    ctx.count("oracle:" + unit)
    return fails


def gen_specs(ctx, rs):
    thorough = ctx.tier != "quick"
    specs = []

    def common(e, rs, bs=None):
        c = {"n_clusters": int(rs.randint(2, 4)), "max_iter": int(rs.randint(1, 4)), "random_state": int(rs.randint(0, 1000)),
             "learning_rate": [0.05, 0.01, 0.1][rs.randint(3)], "solver": ["adam", "sgd"][rs.randint(2)]}
        if not e.startswith("Categorical") and bs is not None:
            c["batch_size"] = bs
        if e.startswith("Sparse"):
            c["alpha"] = 0.2
        if "MLP" in e:
            c["n_hidden_dim"] = int(rs.randint(2, 5))
        if e == "Douglas":
            c["n_cuts"] = 1
        return c

    def dat(nonneg=False, n=None, d=None):
        n = n or int(rs.randint(8, 13))
        d = d or int(rs.randint(2, 4))
        X = fw.data(rs, n, d, nonneg)
        J = rs.rand(n, n) * 3
        return X, J + J.T
    # (i) named vs precomputed, through the convenience parameter and through an instance
    kernels = fw.KERNELS if thorough else [fw.KERNELS[i] for i in rs.permutation(len(fw.KERNELS))[:5]] + [fw.KERNELS[1]]
    metrics = fw.METRICS if thorough else [fw.METRICS[i] for i in rs.permutation(len(fw.METRICS))[:3]] + [fw.METRICS[1]]
    reps = 3 if thorough else 1
    for _ in range(reps):
        for e in fw.MMD_EST:
            for (k, p) in kernels:
                ovo = bool(rs.randint(2))
                X, J = dat(k in fw.NONNEG_KERNELS)
                bs = None if rs.rand() < 0.6 else int(rs.randint(3, 7))
                specs.append({"check": "named_vs_precomputed", "estimator": e, "kind": "kernel", "name": k, "params": p,
                              "ovo": ovo, "via": "param", "common": common(e, rs, bs), "X": X.tolist(), "junk": J.tolist()})
        for e in fw.WASS_EST:
            for (k, p) in metrics:
                ovo = bool(rs.randint(2))
                X, J = dat()
                bs = None if rs.rand() < 0.6 else int(rs.randint(3, 7))
                specs.append({"check": "named_vs_precomputed", "estimator": e, "kind": "metric", "name": k, "params": p,
                              "ovo": ovo, "via": "param", "common": common(e, rs, bs), "X": X.tolist(), "junk": J.tolist()})
        for e in fw.GENERIC_EST:
            for kind, lst in (("kernel", kernels[:3]), ("metric", metrics[:2])):
                for (k, p) in lst:
                    ovo = bool(rs.randint(2))
                    X, J = dat(k in fw.NONNEG_KERNELS, d=2 if e == "Douglas" else None)
                    bs = None if rs.rand() < 0.6 else int(rs.randint(3, 7))
                    specs.append({"check": "named_vs_precomputed", "estimator": e, "kind": kind, "name": k, "params": p,
                                  "ovo": ovo, "via": "instance", "common": common(e, rs, bs), "X": X.tolist(), "junk": J.tolist()})
    # (iii) callables
    for e in fw.MMD_EST + (["LinearModel", "SparseMLPModel"] if thorough else ["LinearModel"]):
        for cn in fw.CALLABLES_X:
            X, _ = dat()
            specs.append({"check": "callable", "estimator": e, "callable": cn, "ovo": bool(rs.randint(2)),
                          "via": "param" if e in fw.MMD_EST else "instance", "with_params": bool(rs.randint(2)),
                          "common": common(e, rs), "X": X.tolist()})
    for (k, p) in (fw.KERNELS[:7] if thorough else [fw.KERNELS[1], fw.KERNELS[2]]):
        X, _ = dat()
        X2, _ = dat(n=4, d=X.shape[1])
        specs.append({"check": "callable", "estimator": "KernelRIM", "name": k, "params": p, "common": common("KernelRIM", rs),
                      "X": X.tolist(), "X2": X2.tolist()})
    # (ii) missing matrix
    for e in fw.MMD_EST + fw.WASS_EST + fw.GENERIC_EST:
        kind = "metric" if e in fw.WASS_EST or (e in fw.GENERIC_EST and rs.rand() < 0.5) else "kernel"
        X, _ = dat(d=2 if e == "Douglas" else None)
        specs.append({"check": "missing", "estimator": e, "kind": kind, "name": "linear" if kind == "kernel" else "euclidean",
                      "ovo": bool(rs.randint(2)), "via": "param" if e not in fw.GENERIC_EST else "instance",
                      "common": common(e, rs), "X": X.tolist()})
    # (ii') missing matrix with SQUARE non-negative data (which scikit-learn itself would take for a precomputed matrix)
    for e in fw.MMD_EST + fw.WASS_EST + [g for g in fw.GENERIC_EST if g != "Douglas"]:
        kind = "metric" if e in fw.WASS_EST or (e in fw.GENERIC_EST and rs.rand() < 0.5) else "kernel"
        n = int(rs.randint(6, 9))
        Xs = np.abs(fw.data(rs, n, n, True))
        specs.append({"check": "missing", "estimator": e, "kind": kind, "name": "linear" if kind == "kernel" else "euclidean",
                      "ovo": bool(rs.randint(2)), "via": "param" if e not in fw.GENERIC_EST else "instance",
                      "common": common(e, rs), "X": Xs.tolist(), "square": True})
    # (v) reconfiguration through set_params after a first use
    names = fl.GEMINI_NAMES
    for e in fw.GENERIC_EST:
        for use in (("fit", "get_gemini", "fit_predict") if thorough else (["fit", "get_gemini", "fit_predict"][rs.randint(3)],)):
            a, b = [names[i] for i in rs.permutation(len(names))[:2]]
            first = {"gemini": [None, a][rs.randint(2)]}
            X, _ = dat(n=int(rs.randint(6, 9)), d=2 if e == "Douglas" else None)
            specs.append({"check": "reconfigured", "estimator": e, "use": use, "first": first, "second": {"gemini": b},
                          "common": common(e, rs), "X": X.tolist()})
    for e in fw.MMD_EST + fw.WASS_EST:
        key = "kernel" if e in fw.MMD_EST else "metric"
        lst = fw.KERNELS if e in fw.MMD_EST else fw.METRICS
        k1, k2 = [lst[i][0] for i in rs.permutation(len(lst))[:2]]
        nonneg = any(k in fw.NONNEG_KERNELS for k in (k1, k2))
        X, _ = dat(nonneg)
        second = {key: k2} if rs.rand() < 0.5 else {"ovo": True}
        specs.append({"check": "reconfigured", "estimator": e, "use": "fit", "first": {key: k1, "ovo": False}, "second": second,
                      "common": common(e, rs), "X": X.tolist()})
    # (iv) documented objective
    for e in GENERIC_OF:
        lst = fw.KERNELS if e in fw.MMD_EST else fw.METRICS
        for i in (range(len(lst)) if thorough else rs.permutation(len(lst))[:2]):
            k, p = lst[i]
            X, _ = dat(k in fw.NONNEG_KERNELS)
            specs.append({"check": "documented", "estimator": e, "kind": "kernel" if e in fw.MMD_EST else "metric", "name": k,
                          "params": p, "ovo": bool(rs.randint(2)), "common": common(e, rs), "X": X.tolist()})
    for e in ("RIM", "SparseLinearMI"):
        X, _ = dat()
        specs.append({"check": "documented", "estimator": e, "common": common(e, rs), "X": X.tolist()})
    for (k, p) in (fw.KERNELS[:7] if thorough else [fw.KERNELS[0], fw.KERNELS[1], fw.KERNELS[2]]):
        X, _ = dat()
        X2, _ = dat(n=4, d=X.shape[1])
        specs.append({"check": "documented", "estimator": "KernelRIM", "name": k, "params": p,
                      "common": common("KernelRIM", rs), "X": X.tolist(), "X2": X2.tolist()})
    for e in fw.GENERIC_EST:
        gvals = ["omit", None] + (fl.GEMINI_NAMES if thorough else [fl.GEMINI_NAMES[i] for i in rs.permutation(13)[:4]] + ["mi"])
        for gv in gvals:
            X, _ = dat(n=int(rs.randint(6, 9)), d=2 if e == "Douglas" else None)
            specs.append({"check": "documented", "estimator": e, "gemini": gv, "common": common(e, rs), "X": X.tolist()})
    # Kauri
    for k in (["linear", "rbf", "poly", "polynomial", "sigmoid", "laplacian", "cosine"] if thorough else ["linear", "rbf", "sigmoid", "poly"]):
        for _ in range(3 if thorough else 1):
            X, J = dat()
            specs.append({"check": "kauri", "estimator": "Kauri", "name": k,
                          "common": {"max_clusters": int(rs.randint(2, 5)), "random_state": int(rs.randint(100)),
                                     "max_depth": [None, 2, 3][rs.randint(3)]}, "X": X.tolist(), "junk": J.tolist()})
    # ---- the kinds below were added after the ones above: they draw from the generator last, so the cases above are unchanged
    # (vi) parameter dictionaries in EVERY key order and with EVERY subset of the keys (kernels with several parameters),
    #      the metric parameters scikit-learn accepts for the documented metrics (squared, for euclidean / l2)
    import itertools

    def pval(q):
        return int(rs.randint(1, 4)) if q == "degree" else (round(float(rs.rand()) + 0.05, 3) if q == "gamma" else round(float(rs.rand()) * 2, 3))

    def rand_items(name, nonempty=True):
        keys = fw.KERNEL_PARAM_KEYS.get(name, [])
        if not keys:
            return None if rs.rand() < 0.5 else []
        sub = [q for q in keys if rs.rand() < 0.6]
        if nonempty and not sub:
            sub = [keys[rs.randint(len(keys))]]
        return [[q, pval(q)] for q in (sub[i] for i in rs.permutation(len(sub)))]

    def pick_est(kind):
        pool = (fw.MMD_EST if kind == "kernel" else fw.WASS_EST) + fw.GENERIC_EST
        e = pool[rs.randint(len(pool))]
        return e, ("instance" if e in fw.GENERIC_EST else "param")
    orders = []
    for name in ("poly", "polynomial", "sigmoid"):
        keys = fw.KERNEL_PARAM_KEYS[name]
        for r in range(1, len(keys) + 1):
            for perm in itertools.permutations(keys, r):
                orders.append(("kernel", name, [[q, pval(q)] for q in perm]))
    for name in ("rbf", "laplacian", "chi2"):
        orders.append(("kernel", name, [["gamma", pval("gamma")]]))
    for name in ("euclidean", "l2"):
        for sq in (True, False):
            orders.append(("metric", name, [["squared", sq]]))
    orders.append(("metric", ["l1", "manhattan", "cityblock", "cosine"][rs.randint(4)], []))
    for _ in range(2 if thorough else 1):
        for kind, name, items in orders:
            e, via = pick_est(kind)
            X, J = dat(name in fw.NONNEG_KERNELS, d=2 if e == "Douglas" else None)
            bs = None if rs.rand() < 0.6 else int(rs.randint(3, 7))
            specs.append({"check": "param_order", "estimator": e, "kind": kind, "name": name, "items": items, "ovo": bool(rs.randint(2)),
                          "via": via, "common": common(e, rs, bs), "X": X.tolist(), "junk": J.tolist(),
                          "path": bool(rs.rand() < 0.4)})
    # (vii) copies of an estimator (clone, clone of clone, deepcopy, get_params round trips, pickle) behave like the original
    def inst(cls, kw):
        return {"gemini": {"gemini": {"cls": cls, "kw": kw}}}

    def cloned(e, hyper, hp=None, kind=None, name=None, items=None, nonneg=False):
        X, _ = dat(nonneg, d=2 if e == "Douglas" else None)
        bs = None if rs.rand() < 0.6 else int(rs.randint(3, 7))
        specs.append({"check": "cloned", "estimator": e, "hyper": hyper, "hyper_precomputed": hp, "kind": kind, "name": name,
                      "items": items, "common": common(e, rs, bs), "X": X.tolist()})

    def geo_instance(e, kind, name, items):
        cls, key, pkey = (("MMDGEMINI", "kernel", "kernel_params") if kind == "kernel" else ("WassersteinGEMINI", "metric", "metric_params"))
        ovo, eps = bool(rs.randint(2)), [1e-12, 1e-9, 1e-6][rs.randint(3)]
        hp = None if name == "precomputed" else inst(cls, {"ovo": ovo, key: "precomputed", "epsilon": eps})
        cloned(e, inst(cls, {"ovo": ovo, key: name, pkey: fw.O(items), "epsilon": eps}), hp, kind, name, items,
               nonneg=name in fw.NONNEG_KERNELS)

    def geo_param(e, kind, name, items):
        key, pkey = ("kernel", "kernel_params") if kind == "kernel" else ("metric", "metric_params")
        ovo = bool(rs.randint(2))
        hp = None if name == "precomputed" else {"ovo": ovo, key: "precomputed"}
        cloned(e, {"ovo": ovo, key: name, pkey: fw.O(items)}, hp, kind, name, items, nonneg=name in fw.NONNEG_KERNELS)
    multi = ["poly", "polynomial", "sigmoid"]
    knames = sorted(fw.KERNEL_PARAM_KEYS)
    fdiv = ["KLGEMINI", "TVGEMINI", "HellingerGEMINI", "ChiSquareGEMINI"]
    for _ in range(2 if thorough else 1):
        for e in fw.GENERIC_EST:
            geo_instance(e, "metric", ["euclidean", "l2"][rs.randint(2)], [["squared", True]])
            k = multi[rs.randint(3)]
            geo_instance(e, "kernel", k, rand_items(k))
            other = rs.randint(7)
            if other == 0:
                geo_instance(e, "kernel", {"callable": list(fw.CALLABLES_X)[rs.randint(len(fw.CALLABLES_X))]}, None)
            elif other == 1:
                geo_instance(e, ["kernel", "metric"][rs.randint(2)], "precomputed", None)
            elif other == 2:
                k = knames[rs.randint(len(knames))]
                geo_instance(e, "kernel", k, rand_items(k, nonempty=False))
            elif other == 3:
                geo_instance(e, "metric", ["l1", "manhattan", "cityblock", "cosine", "euclidean"][rs.randint(5)], [None, []][rs.randint(2)])
            elif other == 4:
                cloned(e, inst(fdiv[rs.randint(4)], {"ovo": bool(rs.randint(2)), "epsilon": [1e-12, 1e-6][rs.randint(2)]}))
            elif other == 5:
                cloned(e, {"gemini": fl.GEMINI_NAMES[rs.randint(len(fl.GEMINI_NAMES))]})
            else:
                cloned(e, {})
        for e in fw.MMD_EST:
            k = knames[rs.randint(len(knames))] if rs.rand() < 0.5 else multi[rs.randint(3)]
            geo_param(e, "kernel", k, rand_items(k, nonempty=False))
        for e in fw.WASS_EST:
            if rs.rand() < 0.7:
                geo_param(e, "metric", ["euclidean", "l2"][rs.randint(2)], [["squared", bool(rs.rand() < 0.8)]])
            else:
                geo_param(e, "metric", ["l1", "manhattan", "cityblock", "cosine"][rs.randint(4)], [None, []][rs.randint(2)])
        k = multi[rs.randint(3)]
        cloned("KernelRIM", {"base_kernel": k, "base_kernel_params": fw.O(rand_items(k))})
        cloned("RIM", {})
        cloned("SparseLinearMI", {})
    return specs


def run(ctx):
    ctx.rule = ("correspondence: 18 estimators x representative hyperparameters (ovo omitted/False/True x kernel|metric omitted/"
                "named/precomputed/callable/undocumented x params omitted/None/dict; gemini omitted/None/13 names/unknown/7 "
                "instances) + random assignments, each with and without a user matrix; oracles: tiny fits (n 6..12, d 2..3, "
                "max_iter 1..3, both solvers, full and mini-batches) of the same estimator with a named affinity (10 kernels, 7 "
                "metrics, non-default parameter dictionaries), with 'precomputed' + the scikit-learn matrix, with callables, "
                "with a junk y, without a matrix; convenience vs generic+documented instance; Kauri named vs precomputed. "
                "A correspondence case is non-trivial when some hyperparameter is given; every oracle case is; distinct = "
                "distinct (estimator, hyperparameters[, data]) hash")
    regen(ctx)
    ctx.do_prove()
    fl.quiet()
    rs = np.random.RandomState(ctx.seed * 7919 + 11)
    correspondence(ctx, rs)
    rs = np.random.RandomState(ctx.seed * 7919 + 12)
    for _ in range(1 if ctx.tier == "quick" else 6):
        for spec in gen_specs(ctx, rs):
            run_spec(ctx, spec)
    ctx.trusted += ["scikit-learn pairwise_kernels / pairwise_distances are opaque operations of the model (theorems hold for any interpretation)",
                    "that fit / path / score depend on the kernel hyperparameters only through the affinity and the resolved GEMINI is "
                    "not a theorem: it is what the bitwise named-vs-precomputed runs of this check observe",
                    "Kauri runs on the pure-Python transliteration of the current _utils.pyx (no Cython in the sandbox)"]
    ctx.notes.append("Kauri's documented fall-back (warning + linear kernel) for a missing precomputed matrix is modelled as the code "
                     "does and not reported (DESIGN.md section 12); Wasserstein estimators reject callables in the GEMINI "
                     "constructor (DESIGN.md section 8 item 11), modelled, not reported")
    return ctx.finish()


def replay(ctx, path):
    fl.quiet()
    rep = json.load(open(path))
    spec = rep.get("input") or {}
    if "check" not in spec:
        print(f"replay {path}: no concrete input (kind={rep.get('kind')})")
        return 2
    ctx.proof = {"theorems": [], "discharged": [], "broken": [], "build_ok": True, "log": ""}
    fails, _ = safe_check(spec)
    for f in fails:
        print(f"REPRODUCED {f['key']}: {f['what']}")
    if not fails:
        print("replay: the property holds on this input now")
    return 1 if fails else 0
