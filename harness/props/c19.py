"""C19 — the printed KAURI tree is a faithful description of the fitted tree."""
import contextlib
import io
import re

import numpy as np

from .. import core, kauri_lib as kl
from . import c08, c09


def printed(model, names):
    from gemclus.tree import print_kauri_tree
    buf = io.StringIO()
    with contextlib.redirect_stdout(buf):
        print_kauri_tree(model, names)
    return buf.getvalue()


def parse_rules(text, names):
    """read the printed text back into nested rules, independently of the tree arrays.
    grammar:  node := PRE 'Node k' NL ( PRE ' Cluster: c' | PRE '|=' NAME ' <= ' T NL node PRE '|=' NAME ' > ' T NL node )"""
    lines = text.rstrip("\n").split("\n")
    pos = [0]

    def node(depth):
        pre = "| " * depth
        l = lines[pos[0]]
        assert l.startswith(pre + "Node "), l
        pos[0] += 1
        l = lines[pos[0]]
        if l.startswith(pre + " Cluster: "):
            pos[0] += 1
            return ("leaf", int(l[len(pre) + 10:]))
        m = re.match(re.escape(pre) + r"\|=(.*) <= (\S+)$", l)
        assert m, l
        name, thr = m.group(1), float(m.group(2))
        pos[0] += 1
        left = node(depth + 1)
        l = lines[pos[0]]
        m2 = re.match(re.escape(pre) + r"\|=(.*) > (\S+)$", l)
        assert m2 and m2.group(1) == name and float(m2.group(2)) == thr, l
        pos[0] += 1
        right = node(depth + 1)
        return ("split", name, thr, left, right)
    tree = node(0)
    assert pos[0] == len(lines), "trailing output"
    return tree


def eval_rules(rules, x, name_to_col):
    while rules[0] == "split":
        _, name, thr, left, right = rules
        rules = left if x[name_to_col(name)] <= thr else right
    return rules[1]


def run(ctx):
    ctx.rule = ("random fitted Kauri trees on dyadic data (depth up to 4, any feature usage), printed with default names and "
                "with user names (exact count, more names than features); query points random incl. threshold values; "
                "non-trivial = tree has >= 1 split")
    c08.regen(ctx)
    ctx.do_prove()
    nf = 80 if ctx.tier == "quick" else 600
    rs = np.random.RandomState(ctx.seed * 11 + 19)
    lines, texts, inputs = [], [], []
    how = "print_kauri_tree(Kauri(**params).fit(X, kernel), names) captured from stdout; harness.props.c19.parse_rules/eval_rules"
    for it in range(nf):
        X, kern, params = c09.gen_fit_case(rs, big=True)
        X = X / float(rs.choice([1, 2, 4]))
        if len(X) < params["min_samples_leaf"]:
            continue
        inp = {"X": X.tolist(), "kernel": kern.tolist(), "params": params}
        try:
            model, draws, score, pred = c09.run_fit(X, kern, params)
        except Exception as e:
            ctx.count("fit-raised")
            continue
        d = X.shape[1]
        mode = it % 4
        names = None if mode == 0 else [f"f{j}" for j in range(d + (2 if mode == 2 else 0))]
        if mode == 3:
            # names are arbitrary user strings: ones that contain the very tokens the printer emits must come out untouched
            pool = ["age<=30", "x <= y", "a > b", "5<seniority<=15", "|=w", "Node 1", "Cluster: 0", "p>q<=r", "<=", "X[:, 9]"]
            names = [pool[i] for i in rs.permutation(len(pool))[:d]]
        try:
            text = printed(model, names)
        except Exception as e:
            ctx.violation(f"print_kauri_tree raised {type(e).__name__}: {e}", "print", {**inp, "names": names}, key="print:raise", how=how)
            continue
        nsplits = (model.tree_.n_nodes - 1) // 2
        ctx.case((X.tobytes(), kern.tobytes(), repr(params), mode), nsplits >= 1, {"params": params, "names": names, "printed": text})
        ctx.count(f"names:{['default', 'exact', 'extra', 'adversarial'][mode]}")
        # oracle: read back and evaluate
        try:
            rules = parse_rules(text, names)
        except (AssertionError, IndexError, ValueError) as e:
            ctx.violation(f"printed text is not a nested rule set: {e}", "print", {**inp, "names": names, "printed": text}, key="print:unparsable", how=how)
            continue
        if names is None:
            col = lambda nm: int(re.match(r"X\[:, (\d+)\]$", nm).group(1))
        else:
            col = lambda nm: names.index(nm)
        Q = np.vstack([X, rs.randint(-2, 8, size=(12, d)) / 2.0])
        pq = model.predict(Q)
        for r in range(len(Q)):
            try:
                c = eval_rules(rules, Q[r], col)
            except Exception as e:
                c = f"error {e}"
            if c != pq[r]:
                ctx.violation(f"printed rules give cluster {c} for {Q[r].tolist()}, predict gives {pq[r]}", "print",
                              {**inp, "names": names, "printed": text, "x": Q[r].tolist()}, key="print:unfaithful", how=how)
                break
        if mode != 3:       # the line protocol of the Lean printer separates names by blanks: adversarial names go to the oracle only
            lines.append(c09.fit_line(X, kern, params, draws).replace("fit ", "print ", 1) + " " +
                         (f"0" if names is None else f"{len(names)} " + " ".join(names)))
            texts.append(text)
            inputs.append({**inp, "names": names})
        # too few names are rejected (only meaningful when the tree uses a feature index beyond the list)
        used = sorted({f for f in model.tree_.features if f is not None})
        if used:
            # every list that does not reach the largest used feature index is rejected: a ValueError/TypeError raised
            # BEFORE anything is printed (an IndexError half-way through the text is a crash, not a rejection) ...
            for L in sorted({0, max(used) // 2, max(used) - 1, max(used)} - {-1}):
                few = [f"g{j}" for j in range(L)]
                for kind, arg in (("list", few), ("ndarray", np.array(few, dtype=object))):
                    buf = io.StringIO()
                    try:
                        with contextlib.redirect_stdout(buf):
                            from gemclus.tree import print_kauri_tree as _p
                            _p(model, arg)
                        ctx.violation(f"{L} feature names ({kind}) accepted although the tree uses feature {max(used)}", "print",
                                      {**inp, "names": few}, key="print:too-few-accepted", how=how)
                    except (ValueError, TypeError):
                        if buf.getvalue():
                            ctx.violation(f"{L} feature names ({kind}) rejected only after part of the tree was printed", "print",
                                          {**inp, "names": few, "printed": buf.getvalue()}, key="print:too-few-late", how=how)
                        ctx.count("too-few-rejected")
                    except Exception as e:
                        ctx.violation(f"{L} feature names ({kind}) for a tree that uses feature {max(used)}: {type(e).__name__}: {e} "
                                      f"instead of a rejection (ValueError/TypeError before printing)", "print",
                                      {**inp, "names": few, "printed": buf.getvalue()}, key="print:too-few-crash", how=how)
            # ... and a list that just covers the used features is enough
            just = [f"h{j}" for j in range(max(used) + 1)]
            try:
                t2 = printed(model, just)
                r2 = parse_rules(t2, just)
                for r in range(len(Q)):
                    if eval_rules(r2, Q[r], lambda nm: just.index(nm)) != pq[r]:
                        ctx.violation(f"with {len(just)} names (just covering the used features) the printed rules disagree with predict at {Q[r].tolist()}",
                                      "print", {**inp, "names": just, "printed": t2}, key="print:unfaithful:just-enough", how=how)
                        break
                ctx.count("names:just-enough")
            except Exception as e:
                ctx.violation(f"{len(just)} names cover every used feature (largest index {max(used)}) but print_kauri_tree raised "
                              f"{type(e).__name__}: {e}", "print", {**inp, "names": just}, key="print:just-enough-rejected", how=how)
    # real-valued data (thresholds with many significant digits): read-back oracle only (the exact Lean tie uses
    # dyadic data); the query points include the training samples that define the thresholds
    from gemclus.tree import Kauri
    for it in range(nf // 3):
        n, d = int(rs.randint(6, 30)), int(rs.randint(1, 4))
        # every magnitude of feature values: thresholds whose repr is in scientific notation (|t| < 1e-4, |t| >= 1e16) included
        X = rs.randn(n, d) * float([1e-6, 0.01, 1.0, 1234.5, 1e-9, 1e17][it % 6])
        try:
            import gemclus.tree.kauri as K
            from translator import pyx2py
            pyx2py.install(kl.translit(False))
            model = Kauri(max_clusters=int(rs.randint(2, 5)), kernel=str(rs.choice(["linear", "rbf"])),
                          random_state=int(rs.randint(100))).fit(X)
            text = printed(model, None)
            rules = parse_rules(text, None)
        except Exception as e:
            ctx.violation(f"print/read-back failed on real-valued data: {type(e).__name__}: {e}", "print", {"X": X.tolist()}, key="print:real-valued:raise", how=how)
            continue
        ctx.case(("real", X.tobytes()), model.tree_.n_nodes > 1, None)
        ctx.count("real-valued-trees")
        col = lambda nm: int(re.match(r"X\[:, (\d+)\]$", nm).group(1))
        Q = np.vstack([X, X + 1e-9 * np.abs(X), X - 1e-9 * np.abs(X), rs.randn(10, d) * np.abs(X).max()])
        pq = model.predict(Q)
        for r in range(len(Q)):
            c = eval_rules(rules, Q[r], col)
            if c != pq[r]:
                ctx.violation(f"printed rules give cluster {c} for {Q[r].tolist()}, predict gives {pq[r]} (real-valued thresholds)", "print",
                              {"X": X.tolist(), "printed": text, "x": Q[r].tolist()}, key="print:unfaithful", how=how)
                break
    # unfitted / foreign objects are refused
    from gemclus.tree import Kauri, print_kauri_tree
    for obj, what in ((Kauri(), "unfitted"), (object(), "foreign"), (None, "None")):
        try:
            with contextlib.redirect_stdout(io.StringIO()):
                print_kauri_tree(obj)
            ctx.violation(f"print_kauri_tree accepted an {what} object", "print", {"object": what}, key=f"print:accepts-{what}", how=how)
        except Exception:
            ctx.count(f"refused:{what}")
    try:
        outs = core.run_driver("Kauri", lines)
    except core.DriverBuildError as e:
        ctx.proof["broken"].append({"theorem": "model build", "reason": str(e)[-400:]})
        outs = []
    for inp, text, o in zip(inputs, texts, outs):
        ctx.compared("print")
        if text.rstrip("\n") != o.replace("⏎", "\n"):
            ctx.corr_break("print", inp, {"impl": text, "model": o.replace("⏎", "\n")})
    return ctx.finish()
