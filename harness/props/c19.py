"""C19 — the printed KAURI tree is a faithful description of the fitted tree."""
import contextlib
import io
import re

import numpy as np

from .. import core, kauri_lib as kl
from . import c08, c09


def printed(model, names):
    from gemclus.tree import print_kauri_tree
    buf = io.StringIO()
    with contextlib.redirect_stdout(buf):
        print_kauri_tree(model, names)
    return buf.getvalue()


def parse_rules(text, names):
    """read the printed text back into nested rules, independently of the tree arrays.
    grammar:  node := PRE 'Node k' NL ( PRE ' Cluster: c' | PRE '|=' NAME ' <= ' T NL node PRE '|=' NAME ' > ' T NL node )"""
    lines = text.rstrip("\n").split("\n")
    pos = [0]

    def node(depth):
        pre = "| " * depth
        l = lines[pos[0]]
        assert l.startswith(pre + "Node "), l
        pos[0] += 1
        l = lines[pos[0]]
        if l.startswith(pre + " Cluster: "):
            pos[0] += 1
            return ("leaf", int(l[len(pre) + 10:]))
        m = re.match(re.escape(pre) + r"\|=(.*) <= (\S+)$", l)
        assert m, l
        name, thr = m.group(1), float(m.group(2))
        pos[0] += 1
        left = node(depth + 1)
        l = lines[pos[0]]
        m2 = re.match(re.escape(pre) + r"\|=(.*) > (\S+)$", l)
        assert m2 and m2.group(1) == name and float(m2.group(2)) == thr, l
        pos[0] += 1
        right = node(depth + 1)
        return ("split", name, thr, left, right)
    tree = node(0)
    assert pos[0] == len(lines), "trailing output"
    return tree


def eval_rules(rules, x, name_to_col):
    while rules[0] == "split":
        _, name, thr, left, right = rules
        rules = left if x[name_to_col(name)] <= thr else right
    return rules[1]


def call_print(model, arg):
    """(exception or None, what reached stdout) of print_kauri_tree(model, arg)"""
    from gemclus.tree import print_kauri_tree
    buf, exc = io.StringIO(), None
    try:
        with contextlib.redirect_stdout(buf):
            print_kauri_tree(model, arg)
    except Exception as e:
        exc = e
    return exc, buf.getvalue()


def name_variants(rs, used, d):
    """`feature_names` arguments for a tree that uses the features `used` (d columns): (kind, argument, ndim, entries).
    `ndim` and `entries` (each as an f-string formats it) are what the generator BUILT, not what numpy says of the result:
    they are the input of the Lean model `printKauriTree` (Model/KauriNames.lean)."""
    mx = max(used) if used else -1
    out = [("None", None, None, [])]

    def wrap(kind, names):
        if kind == "list":
            return list(names)
        if kind == "tuple":
            return tuple(names)
        if kind == "ndarray-object":
            a = np.empty(len(names), dtype=object)
            a[:] = names
            return a
        return np.array(names, dtype=str) if len(names) else np.empty(0, dtype=str)      # numpy string array
    kinds = ["list", "tuple", "ndarray-object", "ndarray-str"]
    # one-dimensional arguments of every length around the largest used index: max(used)+0 is the longest list that
    # must be rejected, max(used)+1 the shortest that must be accepted
    for L in sorted({0, 1, mx - 1, mx, mx + 1, mx + 2, d, d + 2} - {-1, -2}):
        ks = kinds if L in (mx, mx + 1) else [kinds[int(rs.randint(4))]]
        for kind in ks:
            names = [f"n{j}" for j in range(L)]
            out.append((f"{kind}[{L}]", wrap(kind, names), 1, names))
    for L in sorted({mx, mx + 1, d} - {-1}):
        # entries that are not str (ints, floats), entries colliding with the printed syntax, empty / repeated entries
        out.append((f"list-of-int[{L}]", [10 + j for j in range(L)], 1, [str(10 + j) for j in range(L)]))
        out.append((f"ndarray-int[{L}]", np.arange(L) * 3, 1, [str(3 * j) for j in range(L)]))
        pool = ["age<=30", "x <= y", "a > b", "|=w", "Node 1", " Cluster: 0", "", "é ü", "X[:, 9]", "| | ", "<=", "a\tb"]
        adv = [pool[i % len(pool)] + ("" if i < len(pool) else str(i)) for i in rs.permutation(max(L, len(pool)))[:L]]
        out.append((f"adversarial[{L}]", adv, 1, adv))
        out.append((f"repeated[{L}]", ["same"] * L, 1, ["same"] * L))
        out.append((f"newline[{L}]", tuple(f"l{j}\nm" for j in range(L)), 1, [f"l{j}\nm" for j in range(L)]))
    # arguments that are not one-dimensional (long enough in every direction: only the shape is wrong)
    L = max(mx + 2, 2)
    names = [f"n{j}" for j in range(L)]
    ent = lambda a: [f"{x}" for x in a]
    out.append(("str", "abcdefgh"[:L].ljust(L, "z"), 0, []))
    out.append(("0-d ndarray", np.array("n0"), 0, []))
    out.append(("number", 7, 0, []))
    out.append(("dict", {j: names[j] for j in range(L)}, 0, []))
    out.append(("set", set(names), 0, []))
    a = np.array([names]); out.append((f"ndarray(1,{L})", a, 2, ent(a)))
    a = np.array(names).reshape(L, 1); out.append((f"ndarray({L},1)", a, 2, ent(a)))
    a = [[n, n + "'"] for n in names]; out.append((f"nested lists {L}x2", a, 2, ent(a)))
    a = np.array(names * 2, dtype=object).reshape(L, 2, 1); out.append((f"ndarray({L},2,1)", a, 3, ent(a)))
    out.append(("ndarray(0,3)", np.empty((0, 3)), 2, []))
    out.append(("[[]]", [[]], 2, ["[]"]))
    return out


def hx(s):
    return "x" + s.encode("utf-8").hex()


def judge_names(ctx, model, kind, arg, ndim, names, used, Q, pq, inp, how):
    """oracle verdict on one (tree, feature_names) pair, from what the real function did (independent of the Lean model)"""
    exc, text = call_print(model, arg)
    desc = {**inp, "names_kind": kind, "names": repr(arg)}
    mx = max(used) if used else -1
    if ndim is None:
        pass                                            # feature_names=None: judged by the main block
    elif ndim != 1:
        # not judged as accept/reject; an exception half-way through the text, or one that is not a rejection, is a crash
        if exc is not None and (text or not isinstance(exc, (ValueError, TypeError))):
            ctx.violation(f"feature_names of kind {kind} (ndim {ndim}): {type(exc).__name__}: {exc} "
                          f"{'after part of the tree was printed' if text else 'instead of a rejection (ValueError/TypeError)'}",
                          "print", {**desc, "printed": text}, key="print:names-crash", how=how)
    elif len(names) <= mx:
        if exc is None:
            ctx.violation(f"{len(names)} feature names ({kind}) accepted although the tree uses feature {mx}", "print", desc,
                          key="print:too-few-accepted", how=how)
        elif not isinstance(exc, (ValueError, TypeError)):
            ctx.violation(f"{len(names)} feature names ({kind}) for a tree that uses feature {mx}: {type(exc).__name__}: {exc} "
                          f"instead of a rejection (ValueError/TypeError before printing)", "print", {**desc, "printed": text},
                          key="print:too-few-crash", how=how)
        elif text:
            ctx.violation(f"{len(names)} feature names ({kind}) rejected only after part of the tree was printed", "print",
                          {**desc, "printed": text}, key="print:too-few-late", how=how)
        else:
            ctx.count("pairs:too-few-rejected")
    else:
        if exc is not None:
            ctx.violation(f"{len(names)} names ({kind}) cover every used feature (largest index {mx}) but print_kauri_tree raised "
                          f"{type(exc).__name__}: {exc}", "print", {**desc, "printed": text}, key="print:just-enough-rejected", how=how)
        elif not any("\n" in n for n in names):
            try:
                rules = parse_rules(text, names)
            except (AssertionError, IndexError, ValueError) as e:
                ctx.violation(f"printed text ({kind}) is not a nested rule set: {e}", "print", {**desc, "printed": text},
                              key="print:unparsable", how=how)
                rules = None
            if rules is not None and len(set(names[f] for f in used)) == len(used):
                # labels of the used features are pairwise distinct: the text alone fixes the columns
                col = {names[f]: f for f in used}
                for r in range(len(Q)):
                    try:
                        c = eval_rules(rules, Q[r], lambda nm: col[nm])
                    except Exception as e:
                        c = f"error {e}"
                    if c != pq[r]:
                        ctx.violation(f"with names of kind {kind} the printed rules give cluster {c} for {Q[r].tolist()}, predict "
                                      f"gives {pq[r]}", "print", {**desc, "printed": text, "x": Q[r].tolist()},
                                      key="print:unfaithful:named", how=how)
                        break
            ctx.count("pairs:covering-accepted")
    return exc, text


def run(ctx):
    ctx.rule = ("random fitted Kauri trees on dyadic data (depth up to 4, any feature usage), printed with default names and "
                "with user names (exact count, more names than features); query points random incl. threshold values; "
                "non-trivial = tree has >= 1 split; for every tree ~45 feature_names arguments (None; list/tuple/object array/string array "
                "of every length around max(used feature), exactly max(used)+0 and +1 in every kind; int entries, adversarial, repeated, "
                "newline entries; str, number, dict, set, 0-d, 2-d, 3-d, nested, empty arrays): accept/reject and stdout of the real "
                "function compared with the Lean model printKauriTree")
    c08.regen(ctx)
    ctx.do_prove()
    nf = 80 if ctx.tier == "quick" else 600
    rs = np.random.RandomState(ctx.seed * 11 + 19)
    lines, texts, inputs = [], [], []
    nlines, npairs = [], []
    how = "print_kauri_tree(Kauri(**params).fit(X, kernel), names) captured from stdout; harness.props.c19.parse_rules/eval_rules"
    for it in range(nf):
        X, kern, params = c09.gen_fit_case(rs, big=True)
        X = X / float(rs.choice([1, 2, 4]))
        if len(X) < params["min_samples_leaf"]:
            continue
        inp = {"X": X.tolist(), "kernel": kern.tolist(), "params": params}
        try:
            model, draws, score, pred = c09.run_fit(X, kern, params)
        except Exception as e:
            ctx.count("fit-raised")
            continue
        d = X.shape[1]
        mode = it % 4
        names = None if mode == 0 else [f"f{j}" for j in range(d + (2 if mode == 2 else 0))]
        if mode == 3:
            # names are arbitrary user strings: ones that contain the very tokens the printer emits must come out untouched
            pool = ["age<=30", "x <= y", "a > b", "5<seniority<=15", "|=w", "Node 1", "Cluster: 0", "p>q<=r", "<=", "X[:, 9]"]
            names = [pool[i] for i in rs.permutation(len(pool))[:d]]
        try:
            text = printed(model, names)
        except Exception as e:
            ctx.violation(f"print_kauri_tree raised {type(e).__name__}: {e}", "print", {**inp, "names": names}, key="print:raise", how=how)
            continue
        nsplits = (model.tree_.n_nodes - 1) // 2
        ctx.case((X.tobytes(), kern.tobytes(), repr(params), mode), nsplits >= 1, {"params": params, "names": names, "printed": text})
        ctx.count(f"names:{['default', 'exact', 'extra', 'adversarial'][mode]}")
        # oracle: read back and evaluate
        try:
            rules = parse_rules(text, names)
        except (AssertionError, IndexError, ValueError) as e:
            ctx.violation(f"printed text is not a nested rule set: {e}", "print", {**inp, "names": names, "printed": text}, key="print:unparsable", how=how)
            continue
        if names is None:
            col = lambda nm: int(re.match(r"X\[:, (\d+)\]$", nm).group(1))
        else:
            col = lambda nm: names.index(nm)
        Q = np.vstack([X, rs.randint(-2, 8, size=(12, d)) / 2.0])
        pq = model.predict(Q)
        for r in range(len(Q)):
            try:
                c = eval_rules(rules, Q[r], col)
            except Exception as e:
                c = f"error {e}"
            if c != pq[r]:
                ctx.violation(f"printed rules give cluster {c} for {Q[r].tolist()}, predict gives {pq[r]}", "print",
                              {**inp, "names": names, "printed": text, "x": Q[r].tolist()}, key="print:unfaithful", how=how)
                break
        if mode != 3:       # the line protocol of the Lean printer separates names by blanks: adversarial names go to the oracle only
            lines.append(c09.fit_line(X, kern, params, draws).replace("fit ", "print ", 1) + " " +
                         (f"0" if names is None else f"{len(names)} " + " ".join(names)))
            texts.append(text)
            inputs.append({**inp, "names": names})
        # too few names are rejected (only meaningful when the tree uses a feature index beyond the list)
        used = sorted({f for f in model.tree_.features if f is not None})
        if used:
            # every list that does not reach the largest used feature index is rejected: a ValueError/TypeError raised
            # BEFORE anything is printed (an IndexError half-way through the text is a crash, not a rejection) ...
            for L in sorted({0, max(used) // 2, max(used) - 1, max(used)} - {-1}):
                few = [f"g{j}" for j in range(L)]
                for kind, arg in (("list", few), ("ndarray", np.array(few, dtype=object))):
                    buf = io.StringIO()
                    try:
                        with contextlib.redirect_stdout(buf):
                            from gemclus.tree import print_kauri_tree as _p
                            _p(model, arg)
                        ctx.violation(f"{L} feature names ({kind}) accepted although the tree uses feature {max(used)}", "print",
                                      {**inp, "names": few}, key="print:too-few-accepted", how=how)
                    except (ValueError, TypeError):
                        if buf.getvalue():
                            ctx.violation(f"{L} feature names ({kind}) rejected only after part of the tree was printed", "print",
                                          {**inp, "names": few, "printed": buf.getvalue()}, key="print:too-few-late", how=how)
                        ctx.count("too-few-rejected")
                    except Exception as e:
                        ctx.violation(f"{L} feature names ({kind}) for a tree that uses feature {max(used)}: {type(e).__name__}: {e} "
                                      f"instead of a rejection (ValueError/TypeError before printing)", "print",
                                      {**inp, "names": few, "printed": buf.getvalue()}, key="print:too-few-crash", how=how)
            # ... and a list that just covers the used features is enough
            just = [f"h{j}" for j in range(max(used) + 1)]
            try:
                t2 = printed(model, just)
                r2 = parse_rules(t2, just)
                for r in range(len(Q)):
                    if eval_rules(r2, Q[r], lambda nm: just.index(nm)) != pq[r]:
                        ctx.violation(f"with {len(just)} names (just covering the used features) the printed rules disagree with predict at {Q[r].tolist()}",
                                      "print", {**inp, "names": just, "printed": t2}, key="print:unfaithful:just-enough", how=how)
                        break
                ctx.count("names:just-enough")
            except Exception as e:
                ctx.violation(f"{len(just)} names cover every used feature (largest index {max(used)}) but print_kauri_tree raised "
                              f"{type(e).__name__}: {e}", "print", {**inp, "names": just}, key="print:just-enough-rejected", how=how)
        # generated (tree, feature_names) pairs: each judged by the oracle, and the outcome of the real function (raised or
        # not, what reached stdout) compared below with the Lean model of the whole call, validation included
        rs2 = np.random.RandomState((ctx.seed * 13 + 1919 + it) % (2 ** 31))
        pairs, parts = [], []
        for kind, arg, ndim, ent in name_variants(rs2, used, d):
            exc, text = judge_names(ctx, model, kind, arg, ndim, ent, used, Q[:len(X) + 4], pq, inp, how)
            pairs.append(({**inp, "names_kind": kind, "names": repr(arg), "ndim": ndim, "len": len(ent)}, exc, text))
            parts.append("none" if ndim is None else f"{ndim} {len(ent)} " + " ".join(hx(e) for e in ent))
        nlines.append(c09.fit_line(X, kern, params, draws).replace("fit ", "printn ", 1) + f" {len(parts)} " + " ".join(parts))
        npairs.append(pairs)
    # real-valued data (thresholds with many significant digits): read-back oracle only (the exact Lean tie uses
    # dyadic data); the query points include the training samples that define the thresholds
    from gemclus.tree import Kauri
    for it in range(nf // 3):
        n, d = int(rs.randint(6, 30)), int(rs.randint(1, 4))
        # every magnitude of feature values: thresholds whose repr is in scientific notation (|t| < 1e-4, |t| >= 1e16) included
        X = rs.randn(n, d) * float([1e-6, 0.01, 1.0, 1234.5, 1e-9, 1e17][it % 6])
        try:
            import gemclus.tree.kauri as K
            from translator import pyx2py
            pyx2py.install(kl.translit(False))
            model = Kauri(max_clusters=int(rs.randint(2, 5)), kernel=str(rs.choice(["linear", "rbf"])),
                          random_state=int(rs.randint(100))).fit(X)
            text = printed(model, None)
            rules = parse_rules(text, None)
        except Exception as e:
            ctx.violation(f"print/read-back failed on real-valued data: {type(e).__name__}: {e}", "print", {"X": X.tolist()}, key="print:real-valued:raise", how=how)
            continue
        ctx.case(("real", X.tobytes()), model.tree_.n_nodes > 1, None)
        ctx.count("real-valued-trees")
        col = lambda nm: int(re.match(r"X\[:, (\d+)\]$", nm).group(1))
        Q = np.vstack([X, X + 1e-9 * np.abs(X), X - 1e-9 * np.abs(X), rs.randn(10, d) * np.abs(X).max()])
        pq = model.predict(Q)
        for r in range(len(Q)):
            c = eval_rules(rules, Q[r], col)
            if c != pq[r]:
                ctx.violation(f"printed rules give cluster {c} for {Q[r].tolist()}, predict gives {pq[r]} (real-valued thresholds)", "print",
                              {"X": X.tolist(), "printed": text, "x": Q[r].tolist()}, key="print:unfaithful", how=how)
                break
    # unfitted / foreign objects are refused
    from gemclus.tree import Kauri, print_kauri_tree
    for obj, what in ((Kauri(), "unfitted"), (object(), "foreign"), (None, "None")):
        try:
            with contextlib.redirect_stdout(io.StringIO()):
                print_kauri_tree(obj)
            ctx.violation(f"print_kauri_tree accepted an {what} object", "print", {"object": what}, key=f"print:accepts-{what}", how=how)
        except Exception:
            ctx.count(f"refused:{what}")
    try:
        outs = core.run_driver("Kauri", lines + nlines)
    except core.DriverBuildError as e:
        ctx.proof["broken"].append({"theorem": "model build", "reason": str(e)[-400:]})
        outs = []
    nouts, outs = outs[len(lines):], outs[:len(lines)]
    for pairs, o in zip(npairs, nouts):
        answers = o.split(" ; ")
        if len(answers) != len(pairs):
            raise core.MachineryError(f"driver Kauri/printn answered {len(answers)} outcomes for {len(pairs)} arguments: {o[:300]}")
        for (pinp, exc, text), ans in zip(pairs, answers):
            toks = ans.split()
            mtext = "".join(bytes.fromhex(tk[1:]).decode("utf-8") + "\n" for tk in toks[1:])
            ctx.compared("print-names")
            ctx.count("pairs:" + ("accepted" if toks[0] == "ok" else "rejected:" + toks[0]))
            if (toks[0] != "ok") != (exc is not None) or mtext != text:
                ctx.corr_break("print-names", pinp, {"impl": {"raised": None if exc is None else f"{type(exc).__name__}: {exc}", "stdout": text},
                                                     "model": {"outcome": toks[0], "stdout": mtext}})
    for inp, text, o in zip(inputs, texts, outs):
        ctx.compared("print")
        if text.rstrip("\n") != o.replace("⏎", "\n"):
            ctx.corr_break("print", inp, {"impl": text, "model": o.replace("⏎", "\n")})
    return ctx.finish()
