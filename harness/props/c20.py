"""C20 — synthetic data generators follow their documented distributions.

Correspondence: every primitive draw of numpy is recorded (harness.datagen_lib.RecordingRS), replayed into the Lean
assembly model (Drivers/DataGen.lean, on Float) and the model's output compared with what the real function returned
(selection parts bit for bit, affine parts within 1e-12).
Oracle (from the docstrings / Celeux et al., not from the code): parameters of every primitive call against the
documented distribution, row i = draw of component y[i], shapes, label ranges, determinism, no use of numpy's global
state, 6-sigma moment tests, rejection catalogue.
"""
import json
import math

import numpy as np

from .. import core, datagen_lib as dl
from translator import datagen as tr
from translator.tables import TranslationFailure

HOW = ("harness.datagen_lib.run_recorded(function, kwargs, seed) runs gemclus.data.<function>(random_state=RecordingRS(seed), "
       "**kwargs); `./check C20 --replay <this file>` re-evaluates the oracle on this input")


def regen(ctx):
    try:
        data, text = tr.datagen()
    except TranslationFailure as e:
        ctx.extra["translation_failure"] = f"datagen: {e}"
        return None
    changed = core.write_if_changed(core.LEAN + "/GemVerif/Gen/DataGen.lean", text)
    ctx.translation = {"units": ["data/synthetic_data.py::{draw_gmm,multivariate_student_t,gstm,celeux_one,celeux_two} "
                                 "-> Gen/DataGen.lean"], "regenerated": 1, "identical_to_committed": not changed}
    return data


def jl(a):
    return np.asarray(a).tolist()


# ------------------------------------------------------------------ parameter generators
def gen_pvals(rs, K, kind):
    if kind == "dyadic":
        w = np.ones(K, dtype=int)
        for _ in range(16 - K):
            w[rs.randint(K)] += 1
        return w / 16.0
    if kind == "equal":
        return np.ones(K) / K
    while True:
        w = rs.rand(K) + 0.05
        p = w / w.sum()
        if np.sum(p) == 1:
            return p


def gen_cov(rs, d, kind="pd"):
    while True:
        A = rs.randint(-3, 4, size=(d, d)) / 2.0
        S = A @ A.T
        if kind == "pd":
            S = S + np.diag(rs.randint(1, 4, size=d) / 2.0)
        elif kind == "singular":
            S = np.diag([float(rs.randint(1, 4))] + [0.0] * (d - 1))
        if np.all(S == 0) or np.any(np.linalg.eigvals(S) < 0):
            continue
        return S


def gen_gmm(rs, d=None, K=None):
    K = K or rs.randint(2, 6)
    d = d or rs.randint(1, 5)
    loc = rs.randint(-8, 9, size=(K, d)) / 2.0
    if d == 1:
        scale = rs.choice([0.25, 0.5, 2.25, 4.0, 6.25, 9.0, 1.0, 0.04], size=(K, 1))
        if np.all(scale == 1.0):
            scale[0, 0] = 4.0
    else:
        scale = np.array([gen_cov(rs, d, "singular" if rs.rand() < 0.15 else "pd") for _ in range(K)])
    pvals = gen_pvals(rs, K, ["dyadic", "equal", "general"][rs.randint(3)])
    return loc, scale, pvals


# ------------------------------------------------------------------ per-call oracles (documented distribution)
def structural(fn):
    """recorded calls whose sizes / shapes do not fit the documented structure make the array bookkeeping of an oracle
    fail: that is reported as a violation (not as a machinery error)"""
    def wrapped(o, *a, **k):
        try:
            return fn(o, *a, **k)
        except (ValueError, IndexError, KeyError, TypeError) as e:
            o.bad(f"the recorded primitive calls / outputs do not have the documented structure ({type(e).__name__}: {e})",
                  f"structure:{o.fname}")
            return None
    wrapped.__name__ = fn.__name__
    return wrapped


def eq(a, b):
    return dl.same_bits(a, b)


def size_is(sz, n):
    return sz == n or (isinstance(sz, tuple) and tuple(sz) == (n,))


class Oracle:
    def __init__(self, ctx, fname, kwargs, seed):
        self.ctx, self.fname, self.kwargs, self.seed = ctx, fname, kwargs, seed
        self.inp = {"function": fname, "kwargs": {k: (jl(v) if isinstance(v, (np.ndarray, list)) else v) for k, v in kwargs.items()},
                    "seed": seed}

    def bad(self, what, key, expected=None, actual=None):
        self.ctx.violation(f"{self.fname}: {what}", self.fname, self.inp, expected=expected, actual=actual,
                           key=f"{key}", how=HOW)


def check_gmm_calls(o, log, n, loc, scale, pvals, tag="draw_gmm"):
    """`log` = the K+1 primitive calls of one draw_gmm execution; documented: y ~ Categorical(pvals),
    X_k ~ N(loc[k], scale[k]) with scale[k] a COVARIANCE (a variance when d = 1)."""
    K, d = loc.shape
    ok = True
    if len(log) != K + 1:
        o.bad(f"{len(log)} primitive draws for a {K}-component mixture (expected 1 choice + {K} component draws)", f"calls:{tag}:count")
        return False
    c = log[0]
    a = c["params"].get("a")
    a_ok = (isinstance(a, (int, np.integer)) and a == K) or (not isinstance(a, (int, np.integer)) and eq(np.asarray(a, float), np.arange(K)))
    if c["prim"] != "choice" or not a_ok or c["params"].get("p") is None or not eq(c["params"]["p"], pvals) \
            or not size_is(c["params"].get("size"), n) or c["params"].get("replace") is not True:
        o.bad("labels are not drawn by choice(K, p=pvals, size=n)", f"calls:{tag}:choice", expected={"a": K, "p": jl(pvals), "size": n},
              actual={"prim": c["prim"], **{k: (jl(v) if isinstance(v, np.ndarray) else v) for k, v in c["params"].items()}})
        ok = False
    for k in range(K):
        c = log[1 + k]
        P = c["params"]
        if d == 1:
            var = float(np.asarray(scale[k]).ravel()[0])
            if c["prim"] != "normal" or not eq(P.get("loc"), loc[k]) or not size_is(P.get("size"), n):
                o.bad(f"component {k} is not drawn by normal(loc[k], ., size=n)", f"calls:{tag}:normal-loc")
                ok = False
            std = float(np.asarray(P.get("scale")).ravel()[0])
            if not core.close(std, math.sqrt(var), rtol=1e-12, atol=0):
                o.bad(f"component {k} has documented variance {var}; numpy's normal() was handed scale={std} as the STANDARD DEVIATION "
                      f"(sqrt(variance) = {math.sqrt(var)}), so the samples have variance {std * std}", f"calls:{tag}:normal-std",
                      expected=math.sqrt(var), actual=std)
                ok = False
        else:
            if c["prim"] != "multivariate_normal" or not eq(P.get("mean"), loc[k]) or not eq(P.get("cov"), scale[k]) \
                    or not size_is(P.get("size"), n):
                o.bad(f"component {k} is not drawn by multivariate_normal(loc[k], scale[k], size=n)", f"calls:{tag}:mvn")
                ok = False
    return ok


def check_selection(o, X, y, log, K, d, tag="draw_gmm"):
    try:
        return _check_selection(o, X, y, log, K, d, tag)
    except (ValueError, IndexError, KeyError, TypeError) as e:
        o.bad(f"the recorded draws do not have the documented shapes ({type(e).__name__}: {e})", f"structure:{tag}")
        return None, False


def _check_selection(o, X, y, log, K, d, tag="draw_gmm"):
    """each sample is the draw of the component named by its label: X[i] = draw_{y[i]}[i]"""
    n = len(y)
    draws = np.stack([np.asarray(log[1 + k]["out"], dtype=float).reshape(n, d) for k in range(K)])
    yy = np.asarray(log[0]["out"])
    if not eq(y, yy):
        o.bad("returned labels differ from the component indices drawn", f"select:{tag}:labels")
        return draws, False
    want = draws[yy.astype(int), np.arange(n)]
    if not eq(X, want):
        i = int(np.argmax(np.any(np.asarray(X) != want, axis=1)))
        o.bad(f"row {i} carries label {int(yy[i])} but is not the draw of that component", f"select:{tag}:rows",
              expected=jl(want[i]), actual=jl(np.asarray(X)[i]))
        return draws, False
    return draws, True


def check_shape_labels(o, X, y, n, d, K, tag):
    X, y = np.asarray(X), np.asarray(y)
    if X.shape != (n, d) or y.shape != (n,):
        o.bad(f"shapes {X.shape}, {y.shape} instead of ({n}, {d}), ({n},)", f"shape:{tag}", expected=[[n, d], [n]], actual=[list(X.shape), list(y.shape)])
        return False
    if not np.all((y == np.floor(y)) & (y >= 0) & (y < K)):
        o.bad(f"labels outside 0..{K - 1}", f"labels:{tag}", actual=jl(np.unique(y)))
        return False
    if not np.isfinite(X).all():
        o.bad("non-finite sample", f"finite:{tag}")
        return False
    return True


# ------------------------------------------------------------------ one case of each generator (small n, driver)
class Batch:
    def __init__(self):
        self.lines, self.after = [], []

    def add(self, line, fn):
        self.lines.append(line)
        self.after.append(fn)


def case_gmm(ctx, B, rs, seed, n, loc, scale, pvals):
    kwargs = {"n": n, "loc": loc, "scale": scale, "pvals": pvals}
    o = Oracle(ctx, "draw_gmm", kwargs, seed)
    out, log, untouched, warns = dl.run_recorded("draw_gmm", kwargs, seed)
    K, d = loc.shape
    ctx.case(("gmm", n, loc.tobytes(), scale.tobytes(), pvals.tobytes(), seed), n >= 2 and len(set(jl(log[0]["out"]) if log else [])) >= 2,
             {"function": "draw_gmm", "n": n, "K": K, "d": d, "pvals": jl(pvals), "seed": seed})
    ctx.count(f"gmm:d={'1' if d == 1 else 'n'}")
    if isinstance(out, Exception):
        o.bad(f"valid mixture parameters rejected: {type(out).__name__}: {out}", "accept:draw_gmm")
        return
    X, y = out
    if not untouched:
        o.bad("numpy's global RNG state changed although a generator was passed", "rng:global:draw_gmm")
    if not check_shape_labels(o, X, y, n, d, K, "draw_gmm"):
        return
    check_gmm_calls(o, log, n, loc, scale, pvals)
    if len(log) != K + 1:
        return
    draws, _ = check_selection(o, X, y, log, K, d)
    if draws is None:
        return
    line = dl.gmm_line(loc, scale, pvals, log[0]["out"], draws)

    def after(ans):
        ctx.compared("draw_gmm:assembly")
        if not ans.startswith("ok "):
            ctx.corr_break("draw_gmm:assembly", o.inp, {"impl": "accepted", "model": ans[:80]})
            return
        sec = dl.parse_sections(ans, {"std", "X", "y"})
        if not (dl.same_bits(dl.floats_of(sec["X"]), X) and [int(v) for v in sec["y"]] == [int(v) for v in y]):
            ctx.corr_break("draw_gmm:assembly", o.inp, {"impl": jl(X)[:3], "model": jl(dl.floats_of(sec["X"]))[:6]})
        if d == 1:
            ctx.compared("draw_gmm:normal-std-argument")
            rec = [float(np.asarray(log[1 + k]["params"]["scale"]).ravel()[0]) for k in range(K)]
            if not dl.same_bits(dl.floats_of(sec["std"]), rec):
                ctx.corr_break("draw_gmm:normal-std-argument", o.inp, {"impl": rec, "model": jl(dl.floats_of(sec["std"]))})
    B.add(line, after)


def case_student(ctx, B, rs, seed, n, loc, scale, df):
    kwargs = {"n": n, "loc": loc, "scale": scale, "df": df}
    o = Oracle(ctx, "student", kwargs, seed)
    out, log, untouched, warns = dl.run_recorded("student", kwargs, seed)
    d = len(loc)
    ctx.case(("student", n, loc.tobytes(), scale.tobytes(), df, seed), n >= 2, {"function": "multivariate_student_t", "n": n, "d": d, "df": df, "seed": seed})
    if isinstance(out, Exception):
        o.bad(f"valid parameters rejected: {type(out).__name__}: {out}", "accept:student")
        return
    X = np.asarray(out)
    if X.shape != (n, d) or not np.isfinite(X).all():
        o.bad(f"shape {X.shape} instead of ({n}, {d}) or non-finite values", "shape:student")
        return
    if not untouched:
        o.bad("numpy's global RNG state changed although a generator was passed", "rng:global:student")
    if [c["prim"] for c in log] != ["multivariate_normal", "chisquare"]:
        o.bad(f"primitive sequence {[c['prim'] for c in log]} instead of multivariate_normal, chisquare", "calls:student:sequence")
        return
    m, c = log
    if not (eq(m["params"]["mean"], np.zeros(d)) and eq(m["params"]["cov"], scale) and size_is(m["params"]["size"], n)):
        o.bad("the Gaussian part is not multivariate_normal(0, scale, n)", "calls:student:mvn")
    if not (float(c["params"]["df"]) == float(df) and size_is(c["params"]["size"], n)):
        o.bad("the chi-square part is not chisquare(df, n)", "calls:student:chisquare", expected=df, actual=c["params"]["df"])
    if np.asarray(m["out"]).shape != (n, d) or np.asarray(c["out"]).size != n:
        o.bad("recorded draws do not have shapes (n, d) and (n,)", "structure:student")
        return
    nx, u = np.asarray(m["out"], float).reshape(n, d), np.asarray(c["out"], float).reshape(n)
    want = np.sqrt(df / u)[:, None] * nx + loc[None, :]
    if not dl.close_arr(X, want):
        o.bad("output is not sqrt(df/u) * z + loc for the drawn (z, u)", "formula:student", expected=jl(want[0]), actual=jl(X[0]))
    line = f"student {n} {d} {core.fhex(df)} {core.fl(loc)} {core.fl(u)} {core.fl(nx)}"

    def after(ans):
        ctx.compared("student:formula")
        got = dl.floats_of(ans.split())
        if not dl.close_arr(got, X):
            ctx.corr_break("student:formula", o.inp, {"impl": jl(X)[:2], "model": jl(got)[:4]})
        elif dl.same_bits(got, X):
            ctx.count("student:bit-exact")
    B.add(line, after)


@structural
def check_gstm(o, out, log, n, alpha, df):
    """documented: 3 Gaussians N(alpha*loc_k, I) with proportions 1/3 on 3n//4 samples, a Student-t(df) at alpha*(-1,-1)
    on the rest carrying label 3, shuffled."""
    doc = dl.doc_gstm(n, alpha, df)
    nG = doc["n_gauss"]
    nS = n - nG
    X, y = np.asarray(out[0]), np.asarray(out[1])
    if not check_shape_labels(o, X, y, n, 2, 4, "gstm"):
        return None
    if [c["prim"] for c in log] != ["choice"] + ["multivariate_normal"] * 4 + ["chisquare", "permutation"]:
        o.bad(f"primitive sequence {[c['prim'] for c in log]}", "calls:gstm:sequence")
        return None
    ok = check_gmm_calls(o, log[:4], nG, doc["locs"][:3], np.array([doc["cov"]] * 3), doc["pvals"], tag="gstm")
    m, c, p = log[4], log[5], log[6]
    if not (eq(m["params"]["mean"], np.zeros(2)) and eq(m["params"]["cov"], np.eye(2)) and size_is(m["params"]["size"], nS)
            and float(c["params"]["df"]) == float(df) and size_is(c["params"]["size"], nS)):
        o.bad("Student-t part is not built from multivariate_normal(0, I, n - 3n//4) and chisquare(df, n - 3n//4)", "calls:gstm:student")
        ok = False
    order = np.asarray(p["out"])
    if not (isinstance(p["params"]["x"], (int, np.integer)) and p["params"]["x"] == n and sorted(order.tolist()) == list(range(n))):
        o.bad("final shuffle is not permutation(n)", "calls:gstm:permutation")
        return None
    yG = np.asarray(log[0]["out"])
    draws = np.stack([np.asarray(log[1 + k]["out"], float).reshape(nG, 2) for k in range(3)])
    XG = draws[yG, np.arange(nG)] if nG else np.zeros((0, 2))
    nx, u = np.asarray(m["out"], float).reshape(nS, 2), np.asarray(c["out"], float).reshape(nS)
    XS = np.sqrt(df / u)[:, None] * nx + doc["locs"][3][None, :]
    wantX = np.vstack([XG, XS])[order]
    wanty = np.concatenate([yG, np.full(nS, 3)])[order]
    if int(np.sum(y == 3)) != nS:
        o.bad(f"{int(np.sum(y == 3))} samples carry the Student-t label 3, documented n - 3n//4 = {nS}", "labels:gstm:count", expected=nS, actual=int(np.sum(y == 3)))
        ok = False
    if not eq(y, wanty):
        o.bad("labels are not (component drawn | 3 for the Student-t part) after the shuffle", "select:gstm:labels")
        ok = False
    gm = y != 3
    if not (eq(X[gm], wantX[gm]) and dl.close_arr(X[~gm], wantX[~gm])):
        o.bad("a sample is not the draw of the component named by its label", "select:gstm:rows")
        ok = False
    return {"yG": yG, "draws": draws, "nx": nx, "u": u, "order": order, "nG": nG, "nS": nS, "ok": ok}


def case_gstm(ctx, B, rs, seed, n, alpha, df):
    kwargs = {"n": n, "alpha": alpha, "df": df}
    o = Oracle(ctx, "gstm", kwargs, seed)
    out, log, untouched, warns = dl.run_recorded("gstm", kwargs, seed)
    ctx.case(("gstm", n, alpha, df, seed), n >= 5, {"function": "gstm", **kwargs, "seed": seed})
    if isinstance(out, Exception):
        o.bad(f"valid parameters rejected: {type(out).__name__}: {out}", "accept:gstm")
        return
    if not untouched:
        o.bad("numpy's global RNG state changed although a generator was passed", "rng:global:gstm")
    r = check_gstm(o, out, log, n, alpha, df)
    if r is None:
        return
    X, y = np.asarray(out[0]), np.asarray(out[1])
    line = (f"gstm {n} {core.fhex(alpha)} {core.fhex(df)} {r['nG']} {dl.nats(r['yG'])} {core.fl(r['draws'])} {r['nS']} "
            f"{core.fl(r['u'])} {core.fl(r['nx'])} {dl.nats(r['order'])}")
    doc = dl.doc_gstm(n, alpha, df)

    def after(ans):
        ctx.compared("gstm:assembly")
        sec = dl.parse_sections(ans, {"X", "y", "nG", "locs", "glocs", "sloc"})
        mx = dl.floats_of(sec["X"])
        my = [(-1 if v == "none" else int(v)) for v in sec["y"]]
        if not (dl.close_arr(mx, X) and my == [int(v) for v in y] and int(sec["nG"][0]) == r["nG"]):
            ctx.corr_break("gstm:assembly", o.inp, {"impl_y": jl(y), "model_y": my, "model_nG": sec["nG"]})
        ctx.compared("gstm:locations")
        rec = np.vstack([log[1 + k]["params"]["mean"] for k in range(3)])
        if not (dl.same_bits(dl.floats_of(sec["glocs"]), rec)):
            ctx.corr_break("gstm:locations", o.inp, {"impl": jl(rec), "model": jl(dl.floats_of(sec["glocs"]))})
    B.add(line, after)


@structural
def check_celeux_one(o, out, log, n, p, mu):
    doc = dl.doc_celeux_one(mu)
    X, y = np.asarray(out[0]), np.asarray(out[1])
    if not check_shape_labels(o, X, y, n, 5 + p, 3, "celeux_one"):
        return None
    if [c["prim"] for c in log] != ["choice"] + ["multivariate_normal"] * 3 + ["normal"]:
        o.bad(f"primitive sequence {[c['prim'] for c in log]}", "calls:celeux_one:sequence")
        return None
    check_gmm_calls(o, log[:4], n, doc["means"], np.array([doc["cov"]] * 3), doc["pvals"], tag="celeux_one")
    z = log[4]
    if not (float(np.asarray(z["params"]["loc"])) == 0.0 and float(np.asarray(z["params"]["scale"])) == 1.0
            and tuple(z["params"]["size"]) == (n, p)):
        o.bad("noise is not standard normal of shape (n, p)", "calls:celeux_one:noise")
    draws, sel = check_selection(o, X[:, :5], y, log[:4], 3, 5, tag="celeux_one")
    if draws is None:
        return None
    noise = np.asarray(z["out"], float).reshape(n, p)
    if not eq(X[:, 5:], noise):
        o.bad("columns 5.. are not the independent noise draw", "select:celeux_one:noise")
    return {"draws": draws, "noise": noise}


def case_celeux_one(ctx, B, rs, seed, n, p, mu):
    kwargs = {"n": n, "p": p, "mu": mu}
    o = Oracle(ctx, "celeux_one", kwargs, seed)
    out, log, untouched, warns = dl.run_recorded("celeux_one", kwargs, seed)
    ctx.case(("c1", n, p, mu, seed), n >= 2, {"function": "celeux_one", **kwargs, "seed": seed})
    if isinstance(out, Exception):
        o.bad(f"valid parameters rejected: {type(out).__name__}: {out}", "accept:celeux_one")
        return
    if not untouched:
        o.bad("numpy's global RNG state changed although a generator was passed", "rng:global:celeux_one")
    r = check_celeux_one(o, out, log, n, p, mu)
    if r is None:
        return
    X, y = np.asarray(out[0]), np.asarray(out[1])
    line = f"c1 {n} {p} {core.fhex(mu)} {dl.nats(log[0]['out'])} {core.fl(r['draws'])} {core.fl(r['noise'])}"

    def after(ans):
        ctx.compared("celeux_one:assembly")
        sec = dl.parse_sections(ans, {"X", "y", "means"})
        if not (dl.same_bits(dl.floats_of(sec["X"]), X) and [int(v) for v in sec["y"]] == [int(v) for v in y]):
            ctx.corr_break("celeux_one:assembly", o.inp, {"impl": jl(X)[:1], "model": jl(dl.floats_of(sec["X"]))[:8]})
        ctx.compared("celeux_one:means")
        rec = np.vstack([log[1 + k]["params"]["mean"] for k in range(3)])
        if not dl.same_bits(dl.floats_of(sec["means"]), rec):
            ctx.corr_break("celeux_one:means", o.inp, {"impl": jl(rec), "model": jl(dl.floats_of(sec["means"]))})
    B.add(line, after)


@structural
def check_celeux_two(o, out, log, n):
    doc = dl.doc_celeux_two()
    X, y = np.asarray(out[0]), np.asarray(out[1])
    if not check_shape_labels(o, X, y, n, 14, 4, "celeux_two"):
        return None
    if [c["prim"] for c in log] != ["choice"] + ["multivariate_normal"] * 6:
        o.bad(f"primitive sequence {[c['prim'] for c in log]}", "calls:celeux_two:sequence")
        return None
    check_gmm_calls(o, log[:5], n, doc["means"], np.array([doc["cov"]] * 4), doc["pvals"], tag="celeux_two")
    e, l = log[5], log[6]
    if not (eq(e["params"]["mean"], np.zeros(9)) and dl.close_arr(e["params"]["cov"], doc["omega"]) and size_is(e["params"]["size"], n)):
        o.bad("regression noise is not N(0, diag(I3, 0.5 I2, R(pi/3)' diag(1,3) R(pi/3), R(pi/6)' diag(2,6) R(pi/6)))", "calls:celeux_two:noise",
              expected=jl(doc["omega"]), actual=jl(e["params"]["cov"]))
    if not (dl.close_arr(l["params"]["mean"], doc["x1214_mean"]) and eq(l["params"]["cov"], np.eye(3)) and size_is(l["params"]["size"], n)):
        o.bad("X12..X14 are not N((3.2, 3.6, 4), I3)", "calls:celeux_two:x1214", expected=jl(doc["x1214_mean"]), actual=jl(l["params"]["mean"]))
    draws, sel = check_selection(o, X[:, :2], y, log[:5], 4, 2, tag="celeux_two")
    if draws is None:
        return None
    noise = np.asarray(e["out"], float).reshape(n, 9)
    last = np.asarray(l["out"], float).reshape(n, 3)
    want = doc["offsets"][None, :] + X[:, :2] @ doc["b"] + noise
    if not dl.close_arr(X[:, 2:11], want):
        o.bad("X3..X11 are not offsets + (X1, X2) b + noise with the documented b and offsets", "affine:celeux_two",
              expected=jl(want[0]), actual=jl(X[0, 2:11]))
    if not eq(X[:, 11:], last):
        o.bad("X12..X14 are not the last draw", "select:celeux_two:x1214")
    return {"draws": draws, "noise": noise, "last": last}


def case_celeux_two(ctx, B, rs, seed, n):
    kwargs = {"n": n}
    o = Oracle(ctx, "celeux_two", kwargs, seed)
    out, log, untouched, warns = dl.run_recorded("celeux_two", kwargs, seed)
    ctx.case(("c2", n, seed), n >= 2, {"function": "celeux_two", **kwargs, "seed": seed})
    if isinstance(out, Exception):
        o.bad(f"valid parameters rejected: {type(out).__name__}: {out}", "accept:celeux_two")
        return
    if not untouched:
        o.bad("numpy's global RNG state changed although a generator was passed", "rng:global:celeux_two")
    r = check_celeux_two(o, out, log, n)
    if r is None:
        return
    X, y = np.asarray(out[0]), np.asarray(out[1])
    line = f"c2 {n} {dl.nats(log[0]['out'])} {core.fl(r['draws'])} {core.fl(r['noise'])} {core.fl(r['last'])}"

    def after(ans):
        ctx.compared("celeux_two:assembly")
        sec = dl.parse_sections(ans, {"X", "y"})
        mx = dl.floats_of(sec["X"]).reshape(n, 14)
        if not (dl.same_bits(mx[:, :2], X[:, :2]) and dl.same_bits(mx[:, 11:], X[:, 11:]) and dl.close_arr(mx[:, 2:11], X[:, 2:11])
                and [int(v) for v in sec["y"]] == [int(v) for v in y]):
            ctx.corr_break("celeux_two:assembly", o.inp, {"impl": jl(X)[:1], "model": jl(mx)[:1]})
    B.add(line, after)
    return log


# ------------------------------------------------------------------ acceptor: model vs code, and rejection catalogue
def catalogue(rs):
    """(class, must_reject, loc, scale, pvals).  must_reject: the property names the class as 'does not describe a
    mixture'; None: informational (only compared with the model)."""
    out = []
    for rep in range(3):
        loc, scale, pvals = gen_gmm(rs, d=rs.randint(2, 4))
        K, d = loc.shape
        out.append(("valid", False, loc, scale, pvals))
        out.append(("len:covariances+1", True, loc, np.concatenate([scale, scale[:1]]), pvals))
        out.append(("len:covariances-1", True, np.concatenate([loc, loc[:1]]), scale, np.ones(K + 1) / (K + 1)) if (K + 1) in (2, 4, 8) else
                   ("len:covariances-1", True, np.concatenate([loc, loc[:1]]), scale, gen_pvals(rs, K + 1, "dyadic")))
        out.append(("len:proportions+1", True, loc, scale, gen_pvals(rs, K + 1, "dyadic")))
        if K > 2:
            out.append(("len:proportions-1", True, loc, scale, gen_pvals(rs, K - 1, "dyadic")))
        out.append(("dim:covariance-larger", True, loc, np.array([np.eye(d + 1)] * K), pvals))
        out.append(("dim:covariance-not-square", True, loc, np.ones((K, d, d + 1)), pvals))
        out.append(("dim:covariance-not-square-T", True, loc, np.ones((K, d + 1, d)), pvals))
        p = pvals.copy()
        p[0], p[1] = p[0] + p[1], 0.0
        out.append(("proportion:zero", True, loc, scale, p))
        p = pvals.copy()
        p[0], p[1] = p[0] + 2 * p[1], -p[1]
        out.append(("proportion:negative", True, loc, scale, p))
        out.append(("proportion:sum<1", True, loc, scale, pvals * 0.875))
        out.append(("proportion:sum>1", True, loc, scale, pvals * 1.25))
        out.append(("proportion:sum=K", True, loc, scale, np.ones(K)))
        s = scale.copy()
        j = rs.randint(K)
        s[j] = -np.eye(d)
        out.append(("cov:negative-definite", True, loc, s, pvals))
        s = scale.copy()
        A = np.eye(d)
        A[0, 1] = A[1, 0] = float(rs.choice([2.0, 3.0, -2.5]))
        s[j] = A
        out.append(("cov:symmetric-indefinite", True, loc, s, pvals))
        s = scale.copy()
        A = np.eye(d)
        A[0, 1] = float(rs.choice([3.0, -4.0, 5.0]))     # x'Ax = |x|^2 + c x0 x1 is negative at x0 = -sign(c) x1: not PSD
        s[j] = A
        out.append(("cov:not-symmetric-indefinite", True, loc, s, pvals))
        # not symmetric, although its symmetric part is positive definite (a Cholesky factor handed over by mistake, ...): a covariance
        # matrix is symmetric, so this does not describe a mixture either — and no sample could have the covariance that was passed
        s = scale.copy()
        A = 2.0 * np.eye(d)
        A[0, 1], A[1, 0] = float(rs.choice([0.9, -0.8, 0.5])), 0.1
        s[j] = A
        out.append(("cov:not-symmetric-psd-part", True, loc, s, pvals))
        s = scale.copy()
        s[j] = 0.0
        out.append(("cov:all-zero", None, loc, s, pvals))
        # one-dimensional mixtures
        loc1, sc1, pv1 = gen_gmm(rs, d=1)
        K1 = len(loc1)
        out.append(("valid-1d", False, loc1, sc1, pv1))
        out.append(("valid-1d-documented-shape(K,1,1)", False, loc1, sc1.reshape(K1, 1, 1), pv1))
        s = sc1.copy()
        s[rs.randint(K1), 0] = -float(rs.choice([0.5, 1.0, 4.0]))
        out.append(("variance:negative", True, loc1, s, pv1))
        s = sc1.copy()
        s[rs.randint(K1), 0] = 0.0
        out.append(("variance:zero", None, loc1, s, pv1))
        out.append(("len:variances+1", True, loc1, np.concatenate([sc1, sc1[:1]]), pv1))
        p = pv1.copy()
        p[0], p[1] = p[0] + p[1], 0.0
        out.append(("proportion:zero-1d", True, loc1, sc1, p))
        out.append(("proportion:sum<1-1d", True, loc1, sc1, pv1 * 0.5))
    return out


def run_catalogue(ctx, B, rs, seed0):
    for idx, (cls, must, loc, scale, pvals) in enumerate(catalogue(rs)):
        seed = seed0 + idx
        n = int(rs.randint(1, 12))
        kwargs = {"n": n, "loc": loc, "scale": scale, "pvals": pvals}
        o = Oracle(ctx, "draw_gmm", kwargs, seed)
        o.inp["class"] = cls
        out, log, untouched, warns = dl.run_recorded("draw_gmm", kwargs, seed)
        rejected = isinstance(out, Exception)
        ctx.case(("cat", cls, loc.tobytes(), scale.tobytes(), pvals.tobytes()), True, None)
        ctx.count(f"catalogue:{cls}:{'rejected' if rejected else 'accepted'}")
        if must is True:
            if not rejected:
                o.bad(f"parameter set of class `{cls}` does not describe a mixture but was accepted"
                      + (f" (numpy warned: {warns[0]})" if warns else ""), f"reject:{cls}", expected="ValueError/TypeError", actual="accepted")
            elif not isinstance(out, (ValueError, TypeError)):
                o.bad(f"class `{cls}` rejected with {type(out).__name__} (not in the ValueError/TypeError family): {out}", f"reject-kind:{cls}")
        if must is False and rejected:
            o.bad(f"valid mixture parameters ({cls}) rejected: {type(out).__name__}: {out}", f"accept:{cls}", expected="accepted", actual=f"{type(out).__name__}: {out}")
        if not rejected:
            K, d = loc.shape
            check_shape_labels(o, out[0], out[1], n, d, K, "draw_gmm")
        # model acceptor vs code (only for the (K,1) form of 1-D variances: the model's `var1`)
        arrs = dl.gmm_arrays(loc, scale, pvals)
        if arrs is None or (arrs[0].shape[1] == 1 and arrs[1].ndim != 2):
            ctx.count("acceptor:outside-model")
            continue
        L, S, P = arrs
        impl = "accepted" if not rejected else (dl.guard_of_exception(out) or "rejected")
        if rejected:
            line = dl.gmm_line(L, S, P)
        else:
            K, d = L.shape
            try:
                draws = np.stack([np.asarray(log[1 + k]["out"], float).reshape(n, d) for k in range(K)])
            except (ValueError, IndexError):
                o.bad("recorded draws do not have the documented shapes", "structure:draw_gmm")
                continue
            line = dl.gmm_line(L, S, P, log[0]["out"], draws)

        def after(ans, impl=impl, o=o, cls=cls):
            ctx.compared("draw_gmm:acceptor")
            model = "accepted" if ans.startswith("ok") else ans.split()[1]
            # an `a or b` guard raises one message for two model tokens (symmetry and eigenvalue test: "not PSD")
            same = (model == impl) or (impl == "rejected" and model != "accepted") or {model, impl} == {"symmetric", "eigNonneg"}
            if not same:
                ctx.corr_break("draw_gmm:acceptor", o.inp, {"impl": impl, "model": model, "class": cls})
        B.add(line, after)


# ------------------------------------------------------------------ determinism
def determinism(ctx, rs, reps):
    F = dl.funcs()
    for r in range(reps):
        seed = int(rs.randint(0, 2 ** 31 - 1))
        loc, scale, pvals = gen_gmm(rs)
        calls = [("draw_gmm", {"n": 9, "loc": loc, "scale": scale, "pvals": pvals}),
                 ("student", {"n": 7, "loc": loc[0], "scale": gen_cov(rs, loc.shape[1]), "df": float(rs.choice([1, 2.5, 7]))}),
                 ("gstm", {"n": int(rs.randint(4, 30)), "alpha": float(rs.choice([1, 2, 3.5])), "df": float(rs.choice([1, 3]))}),
                 ("celeux_one", {"n": int(rs.randint(1, 20)), "p": int(rs.randint(1, 5)), "mu": float(rs.choice([1.7, 0.5]))}),
                 ("celeux_two", {"n": int(rs.randint(1, 20))})]
        for fname, kw in calls:
            o = Oracle(ctx, fname, kw, seed)
            ctx.compared("determinism")
            np.random.seed(99)
            st0 = np.random.get_state()
            a = F[fname](random_state=seed, **kw)
            st1 = np.random.get_state()
            np.random.seed(int(rs.randint(1000)))      # a different global state must not matter
            b = F[fname](random_state=seed, **kw)
            c, _, _, _ = dl.run_recorded(fname, kw, seed)
            ta = a if isinstance(a, tuple) else (a,)
            tb = b if isinstance(b, tuple) else (b,)
            tc = c if isinstance(c, tuple) else (c,)
            if not all(eq(x, y) for x, y in zip(ta, tb)):
                o.bad("two calls with the same integer seed returned different data", f"determinism:{fname}")
            if isinstance(c, Exception) or not all(eq(x, y) for x, y in zip(ta, tc)):
                o.bad("random_state=seed and random_state=RandomState(seed) returned different data", f"determinism-rs:{fname}")
            if not (st0[0] == st1[0] and np.array_equal(st0[1], st1[1]) and st0[2:] == st1[2:]):
                o.bad("numpy's global RNG state changed by a call with an integer seed", f"rng:global:{fname}")
            d = F[fname](random_state=seed + 1, **kw)
            td = d if isinstance(d, tuple) else (d,)
            if all(eq(x, y) for x, y in zip(ta, td)) and np.asarray(ta[0]).size > 2:
                o.bad("different seeds returned identical data (the seed is ignored)", f"determinism-ignored:{fname}")


# ------------------------------------------------------------------ moment tests (6 sigma) on the real outputs
def report_bands(ctx, o, Bd, key, what):
    ctx.count("moment-comparisons", Bd.n)
    ctx.extra["worst_sigma"] = round(max(ctx.extra.get("worst_sigma", 0.0), Bd.worst if not Bd.fail else 0.0), 2)
    if Bd.fail:
        f = sorted(Bd.fail, key=lambda x: -abs(x["observed"] - x["expected"]) / max(x["band"], 1e-300))[0]
        o.bad(f"{what}: {f['what']} = {f['observed']:.6g}, documented {f['expected']:.6g} (6-sigma band {f['band']:.3g}); "
              f"{len(Bd.fail)} of {Bd.n} comparisons outside their band", key, expected=f["expected"], actual=f["observed"])


def moments(ctx, rs, reps, nbig):
    for r in range(reps):
        seed = int(rs.randint(0, 2 ** 31 - 1))
        # ---- draw_gmm, 1-D and n-D
        for dim in (1, int(rs.randint(2, 4))):
            K = int(rs.randint(2, 4))
            loc, scale, pvals = gen_gmm(rs, d=dim, K=K)
            kw = {"n": nbig, "loc": loc, "scale": scale, "pvals": pvals}
            o = Oracle(ctx, "draw_gmm", kw, seed)
            out, log, _, _ = dl.run_recorded("draw_gmm", kw, seed)
            ctx.case(("mom-gmm", dim, seed, loc.tobytes(), scale.tobytes()), True, None)
            if isinstance(out, Exception):
                o.bad(f"valid parameters rejected: {out}", "accept:draw_gmm")
                continue
            X, y = out
            if not check_shape_labels(o, X, y, nbig, dim, K, "draw_gmm"):
                continue
            check_gmm_calls(o, log, nbig, loc, scale, pvals)
            if len(log) == K + 1:
                check_selection(o, X, y, log, K, dim)
            Bd = dl.Bands()
            dl.proportions(Bd, "draw_gmm", y, pvals)
            for k in range(K):
                Xk = X[y == k]
                if len(Xk) >= 200:
                    cov = np.asarray(scale[k], float).reshape(dim, dim)
                    dl.gaussian_component_moments(Bd, f"component {k}", Xk, loc[k], cov)
            report_bands(ctx, o, Bd, f"moments:draw_gmm:{'1d' if dim == 1 else 'nd'}", "sample moments of the labelled components")
        # ---- Student-t
        d = int(rs.randint(1, 4))
        df = float(rs.choice([1.0, 2.0, 3.5, 10.0]))
        loc = rs.randint(-6, 7, size=d) / 2.0
        scale = gen_cov(rs, d)
        kw = {"n": nbig, "loc": loc, "scale": scale, "df": df}
        o = Oracle(ctx, "student", kw, seed)
        out, log, _, _ = dl.run_recorded("student", kw, seed)
        ctx.case(("mom-student", seed, d, df), True, None)
        if isinstance(out, Exception) or np.asarray(out).shape != (nbig, d):
            o.bad("valid parameters rejected or wrong shape", "accept:student")
        else:
            Bd = dl.Bands()
            dl.student_radial(Bd, "multivariate_student_t", np.asarray(out), loc, scale, df)
            report_bands(ctx, o, Bd, "moments:student", "Student-t radial law / medians")
        # ---- gstm
        alpha, df = float(rs.choice([1.0, 2.0, 3.0])), float(rs.choice([1.0, 2.0, 4.0]))
        kw = {"n": nbig, "alpha": alpha, "df": df}
        o = Oracle(ctx, "gstm", kw, seed)
        out, log, _, _ = dl.run_recorded("gstm", kw, seed)
        ctx.case(("mom-gstm", seed, alpha, df), True, None)
        if isinstance(out, Exception):
            o.bad(f"valid parameters rejected: {out}", "accept:gstm")
        elif check_gstm(o, out, log, nbig, alpha, df) is not None:
            X, y = np.asarray(out[0]), np.asarray(out[1])
            doc = dl.doc_gstm(nbig, alpha, df)
            Bd = dl.Bands()
            dl.proportions(Bd, "gstm gaussian part", y[y != 3], doc["pvals"])
            for k in range(3):
                dl.gaussian_component_moments(Bd, f"gstm component {k}", X[y == k], doc["locs"][k], doc["cov"])
            dl.student_radial(Bd, "gstm component 3", X[y == 3], doc["locs"][3], doc["cov"], df)
            report_bands(ctx, o, Bd, "moments:gstm", "gstm components")
        # ---- celeux_one
        mu, p = float(rs.choice([1.7, 0.6, 2.5])), int(rs.randint(1, 5))
        kw = {"n": nbig, "p": p, "mu": mu}
        o = Oracle(ctx, "celeux_one", kw, seed)
        out, log, _, _ = dl.run_recorded("celeux_one", kw, seed)
        ctx.case(("mom-c1", seed, mu, p), True, None)
        if isinstance(out, Exception):
            o.bad(f"valid parameters rejected: {out}", "accept:celeux_one")
        elif check_celeux_one(o, out, log, nbig, p, mu) is not None:
            X, y = np.asarray(out[0]), np.asarray(out[1])
            doc = dl.doc_celeux_one(mu)
            Bd = dl.Bands()
            dl.proportions(Bd, "celeux_one", y, doc["pvals"])
            for k in range(3):
                dl.gaussian_component_moments(Bd, f"celeux_one component {k}", X[y == k][:, :5], doc["means"][k], doc["cov"])
                dl.gaussian_component_moments(Bd, f"celeux_one noise | label {k}", X[y == k][:, 5:], np.zeros(p), np.eye(p))
            dl.gaussian_component_moments(Bd, "celeux_one noise", X[:, 5:], np.zeros(p), np.eye(p))
            report_bands(ctx, o, Bd, "moments:celeux_one", "celeux_one components / noise")
        # ---- celeux_two
        kw = {"n": nbig}
        o = Oracle(ctx, "celeux_two", kw, seed)
        out, log, _, _ = dl.run_recorded("celeux_two", kw, seed)
        ctx.case(("mom-c2", seed), True, None)
        if isinstance(out, Exception):
            o.bad(f"valid parameters rejected: {out}", "accept:celeux_two")
        elif check_celeux_two(o, out, log, nbig) is not None:
            X, y = np.asarray(out[0]), np.asarray(out[1])
            doc = dl.doc_celeux_two()
            Bd = dl.Bands()
            dl.proportions(Bd, "celeux_two", y, doc["pvals"])
            for k in range(4):
                dl.gaussian_component_moments(Bd, f"celeux_two component {k}", X[y == k][:, :2], doc["means"][k], doc["cov"])
                dl.gaussian_component_moments(Bd, f"celeux_two X12-14 | label {k}", X[y == k][:, 11:], doc["x1214_mean"], doc["x1214_cov"])
            # linear dependencies: OLS of X3..X11 on (1, X1, X2) recovers (offsets, b)
            Z = np.hstack([np.ones((nbig, 1)), X[:, :2]])
            ZtZi = np.linalg.inv(Z.T @ Z)
            coef = ZtZi @ Z.T @ X[:, 2:11]
            for j in range(9):
                se = np.sqrt(doc["omega"][j, j] * np.diag(ZtZi))
                Bd.check(f"celeux_two regression intercept of X{j + 3}", coef[0, j], doc["offsets"][j], se[0])
                Bd.check(f"celeux_two regression slope of X{j + 3} on X1", coef[1, j], doc["b"][0, j], se[1])
                Bd.check(f"celeux_two regression slope of X{j + 3} on X2", coef[2, j], doc["b"][1, j], se[2])
            E = X[:, 2:11] - doc["offsets"][None, :] - X[:, :2] @ doc["b"]
            dl.gaussian_component_moments(Bd, "celeux_two regression residuals", E, np.zeros(9), doc["omega"])
            report_bands(ctx, o, Bd, "moments:celeux_two", "celeux_two components / linear dependencies")


# ------------------------------------------------------------------ constants: translated vs documented vs model
def constants(ctx, data, B):
    """translated constants (Gen) against the live parameters recorded from the real functions (ties the translator to
    the implementation), and the Lean model's constants against the recorded ones."""
    out, log, _, _ = dl.run_recorded("celeux_two", {"n": 3}, 0)
    if isinstance(out, Exception) or len(log) != 7:
        return
    o = Oracle(ctx, "celeux_two", {"n": 3}, 0)

    def after(ans):
        sec = dl.parse_sections(ans, {"means", "b", "offsets", "noisecov", "x1214mean"})
        rec_means = np.vstack([log[1 + k]["params"]["mean"] for k in range(4)])
        X = np.asarray(out[0])
        pairs = [("means", rec_means), ("noisecov", log[5]["params"]["cov"]), ("x1214mean", log[6]["params"]["mean"])]
        for nm, rec in pairs:
            ctx.compared(f"celeux_two:constants:{nm}")
            if not dl.close_arr(dl.floats_of(sec[nm]), rec):
                ctx.corr_break(f"celeux_two:constants:{nm}", o.inp, {"impl": jl(rec), "model": jl(dl.floats_of(sec[nm]))})
        # b and offsets are observed through the output: X3_11 - noise = offsets + good @ b
        b = dl.floats_of(sec["b"]).reshape(2, 9)
        off = dl.floats_of(sec["offsets"])
        ctx.compared("celeux_two:constants:b,offsets")
        if not dl.close_arr(X[:, 2:11], off[None, :] + X[:, :2] @ b + np.asarray(log[5]["out"]).reshape(3, 9)):
            ctx.corr_break("celeux_two:constants:b,offsets", o.inp, {"model_b": jl(b), "model_offsets": jl(off)})
    B.add("c2params", after)


# ------------------------------------------------------------------ entry points
def run(ctx):
    ctx.rule = ("draw_gmm: K in 2..5, d in 1..4, n in 1..30, half-integer means, variances from {0.04..9} (1-D) / random PSD "
                "incl. singular (n-D), dyadic / equal / general proportions; student: d 1..4, df in {0.1..30}; gstm: n 4..40; "
                "celeux_one: n 1..30, p 1..6; celeux_two: n 1..30; plus a randomised catalogue of invalid parameter sets, "
                "determinism runs and fixed-seed moment tests (n = 6000 quick / 20000 thorough). A case is non-trivial when at "
                "least two components are drawn (n >= 2); distinct = distinct (function, parameters, seed).")
    ctx.assumptions += ["numpy's primitives draw from the distribution their parameters name (choice, normal with a STANDARD DEVIATION, "
                        "multivariate_normal with a covariance, chisquare, permutation) — only their arguments and outputs are observed",
                        "np.linalg.eigvals(S) < 0 is numpy's PSD test; it is a PSD test for symmetric S only",
                        "scikit-learn's check_array / parameter validation refuse NaN, ragged and wrongly-typed inputs (outside the model)"]
    ctx.trusted += ["harness.datagen_lib.RecordingRS (subclass of numpy RandomState that logs top-level primitive calls)",
                    "distributional claims are statistical tests (6-sigma bands), not theorems"]
    data = regen(ctx)
    ctx.do_prove()
    quick = ctx.tier == "quick"
    rs = np.random.RandomState(ctx.seed * 7907 + 20)
    B = Batch()
    reps = 30 if quick else 1200
    for r in range(reps):
        seed = int(rs.randint(0, 2 ** 31 - 1))
        loc, scale, pvals = gen_gmm(rs, d=(1 if r % 3 == 0 else None))
        case_gmm(ctx, B, rs, seed, int(rs.randint(1, 31)), loc, scale, pvals)
        d = int(rs.randint(1, 5))
        case_student(ctx, B, rs, seed, int(rs.randint(1, 26)), rs.randint(-6, 7, size=d) / 2.0, gen_cov(rs, d),
                     float(rs.choice([0.1, 0.2, 0.5, 1, 2.5, 3, 10, 30])))      # small df: chi-square draws of 1e-20 are ordinary there
        case_gstm(ctx, B, rs, seed, int(rs.randint(4, 41)), float(rs.choice([0.5, 1, 2, 3.7])), float(rs.choice([0.15, 1, 2, 5])))
        case_celeux_one(ctx, B, rs, seed, int(rs.randint(1, 31)), int(rs.randint(1, 7)), float(rs.choice([1.7, 0.3, 2.0])))
        case_celeux_two(ctx, B, rs, seed, int(rs.randint(1, 31)))
    for r in range(2 if quick else 40):
        run_catalogue(ctx, B, rs, int(rs.randint(0, 2 ** 30)))
    constants(ctx, data, B)
    determinism(ctx, rs, 3 if quick else 50)
    moments(ctx, rs, 3 if quick else 50, 6000 if quick else 20000)
    # translated tokens vs the live behaviour (ties the translator to the implementation)
    if data is not None:
        ctx.compared("translator:global-rng-flag")
        if data["global_rng"]:
            ctx.corr_break("translator:global-rng-flag", {}, {"translated": "uses np.random.* / foreign generator"})
    try:
        outs = core.run_driver("DataGen", B.lines)
    except core.DriverBuildError as e:
        ctx.proof["broken"].append({"theorem": "model build", "reason": str(e)[-400:]})
        outs = []
    for ans, fn in zip(outs, B.after):
        fn(ans)
    if not quick and ctx.proof and not ctx.proof["broken"]:
        ok, log = core.leanchecker(["GemVerif.Props.C20"])
        ctx.extra["leanchecker"] = "ok" if ok else log[-400:]
        if not ok:
            ctx.proof["broken"].append({"theorem": "*", "reason": "leanchecker: " + log[-300:]})
    return ctx.finish()


def replay(ctx, path):
    """re-evaluate the oracle on the input of a replay file"""
    rep = json.load(open(path))
    inp = rep.get("input") or {}
    fname, kw, seed = inp.get("function"), dict(inp.get("kwargs") or {}), inp.get("seed", 0)
    if fname is None:
        print(f"replay {path}: no concrete input (kind={rep.get('kind')})")
        return 2
    for k in ("loc", "scale", "pvals"):
        if k in kw:
            kw[k] = np.asarray(kw[k], dtype=float)
    o = Oracle(ctx, fname, kw, seed)
    out, log, untouched, warns = dl.run_recorded(fname, kw, seed)
    key = rep.get("key", "")
    if fname == "draw_gmm":
        if key.startswith("reject:"):
            if not isinstance(out, Exception):
                o.bad(f"parameter set of class `{inp.get('class')}` accepted", key)
        elif isinstance(out, Exception):
            o.bad(f"valid mixture parameters rejected: {type(out).__name__}: {out}", key if key.startswith("accept:") else "accept:draw_gmm")
        else:
            loc, scale, pvals = kw["loc"], kw["scale"], kw["pvals"]
            K, d = loc.shape
            X, y = out
            check_gmm_calls(o, log, kw["n"], loc, scale, pvals)
            if len(log) == K + 1:
                check_selection(o, X, y, log, K, d)
            Bd = dl.Bands()
            dl.proportions(Bd, "draw_gmm", y, pvals)
            for k in range(K):
                if np.sum(y == k) >= 200:
                    dl.gaussian_component_moments(Bd, f"component {k}", X[y == k], loc[k], np.asarray(scale[k], float).reshape(d, d))
            report_bands(ctx, o, Bd, f"moments:draw_gmm:{'1d' if d == 1 else 'nd'}", "sample moments of the labelled components")
    elif isinstance(out, Exception):
        o.bad(f"valid parameters rejected: {out}", f"accept:{fname}")
    elif fname == "gstm":
        check_gstm(o, out, log, kw["n"], kw["alpha"], kw["df"])
    elif fname == "celeux_one":
        check_celeux_one(o, out, log, kw["n"], kw["p"], kw["mu"])
    elif fname == "celeux_two":
        check_celeux_two(o, out, log, kw["n"])
    for v in ctx.violations:
        print(f"VIOLATION property=C20 replay={path} :: {v['what']}")
    if not ctx.violations:
        print(f"replay {path}: the input no longer violates the property")
    return 1 if ctx.violations else 0
