"""C09 — KAURI trees respect their structural limits and reproduce their own partition."""
from fractions import Fraction

import numpy as np

from .. import core, kauri_lib as kl
from . import c08


def gen_fit_case(rs, big=False):
    n = int(rs.choice([1, 2, 3]) if rs.rand() < 0.1 else rs.randint(4, 11 if not big else 14))
    d = int(rs.randint(1, 4))
    X = rs.randint(0, 3 if rs.rand() < 0.7 else 5, size=(n, d)).astype(float)
    if rs.rand() < 0.15:
        X[:, rs.randint(d)] = 1.0
    A = rs.randint(-2, 3, size=(n, n))
    kern = (A + A.T).astype(float) if rs.rand() < 0.5 else (A @ A.T).astype(float)
    msl = int(rs.choice([1, 1, 1, 1, 2, 3]))
    params = dict(max_clusters=int(rs.randint(1, 6)), max_depth=[None, 1, 2, 3, 4][rs.randint(5)],
                  min_samples_leaf=msl, max_features=[None, 1, 2, 5][rs.randint(4)],
                  max_leaves=[None, 2, 3, 4, 6][rs.randint(5)], kernel="precomputed", random_state=int(rs.randint(1000)))
    params["min_samples_split"] = max(2, 2 * msl) + int(rs.choice([0, 0, 0, 0, 1, 3, 8]))
    return X, kern, params


NEAR = [0.0, 0.0, 0.0, 1e-9, -1e-9, 2e-9, 1e-10, -1e-10, 1e-11, 1e-12, -1e-12, 1e-15]


def gen_near_tie_case(rs):
    """data family "near ties": a feature whose values form a few coarse groups; inside a group the values are exactly tied or
    differ by a relative 1e-9 .. 1e-15 (distinct float64 numbers, far below single precision), in either order of
    appearance, next to ordinary gaps.  The kernel prefers a partition into blocks that are contiguous along the coarse
    order but cut THROUGH the near-tie groups arbitrarily (precomputed block kernel, optionally noisy, or driven by a second
    feature which may or may not be visible to the tree); min_samples_leaf sits at the size of a block (the boundary of
    the admissible window), n is small (n = 2, 3 with default limits included)."""
    n = int(rs.choice([2, 2, 3]) if rs.rand() < 0.15 else rs.randint(4, 11))
    m = int(rs.randint(1, max(2, (n + 1) // 2) + 1))                      # coarse groups
    bases = rs.choice([-3.0, -1.0, 0.5, 1.0, 2.0, 3.0, 7.0, 1000.0], size=m, replace=False)
    coarse = bases[rs.randint(0, m, size=n)]
    x0 = coarse * (1.0 + rs.choice(NEAR, size=n))
    # blocks: contiguous along (coarse value, random tie-break)
    order = np.lexsort((rs.rand(n), coarse))
    G = int(rs.randint(2, 4)) if n > 2 else 2
    cuts = np.sort(rs.choice(np.arange(1, n), size=min(G - 1, n - 1), replace=False))
    grp = np.zeros(n, dtype=int)
    grp[order] = np.searchsorted(cuts, np.arange(n), side="right")
    sizes = np.bincount(grp)
    kind = int(rs.randint(3))
    g2 = (10 * grp + rs.randint(0, 3, size=n)).astype(float)
    visible = rs.rand() < 0.5
    X = np.column_stack([x0, g2]) if visible else x0[:, None]
    if rs.rand() < 0.3:
        X = np.column_stack([X, rs.randint(0, 3, size=n).astype(float)])
    if kind == 0:
        kern = (3 * (grp[:, None] == grp[None, :]) + np.eye(n, dtype=int)).astype(float)
        if rs.rand() < 0.3:
            N = rs.randint(-1, 2, size=(n, n))
            kern += np.triu(N, 1) + np.triu(N, 1).T
    elif kind == 1:
        kern = np.outer(g2, g2)                                               # driven by the second feature (integer valued)
    else:
        F = np.column_stack([x0, g2])                                         # linear kernel of both features
        kern = F @ F.T
        kern = (kern + kern.T) / 2
    msl = int(rs.choice([1, int(sizes.min()), int(sizes[0]), int(sizes[-1]), max(1, n // 2)]))
    msl = max(1, min(msl, n // 2))
    params = dict(max_clusters=int(rs.choice([2, G, G + 1])), max_depth=[None, None, 1, 2][rs.randint(4)],
                  min_samples_leaf=msl, max_features=[None, None, 1][rs.randint(3)],
                  max_leaves=[None, None, 2, 3][rs.randint(4)], kernel="precomputed", random_state=int(rs.randint(1000)))
    params["min_samples_split"] = max(2, 2 * msl) + int(rs.choice([0, 0, 0, 1, n]))
    if n <= 3 and rs.rand() < 0.5:
        params.update(max_depth=None, min_samples_leaf=1, min_samples_split=2, max_features=None, max_leaves=None)   # the defaults
    return X, kern, params


def run_fit(X, kern, params):
    """real Kauri.fit on the transliterated (exact) find_best_split; returns the fitted model and the recorded RNG draws"""
    import gemclus.tree.kauri as K
    from gemclus.tree import Kauri
    mx = kl.translit(True)
    draws = []

    def fbs(kernel, Xa, lte, Y, Z, ncl, Kmax, nl, ml, feats):
        draws.append([int(f) for f in feats])
        return mx.find_best_split(kl.to_q_array(kernel), Xa, lte, kl.to_q_array(Y), kl.to_q_array(Z), ncl, Kmax, nl, ml, feats)
    old = K.find_best_split, K.gemini_objective
    K.find_best_split = fbs
    K.gemini_objective = lambda y_pred, kernel: mx.gemini_objective(y_pred, kl.to_q_array(kernel))
    try:
        model = Kauri(**params).fit(X, kern)
        score = model.score(X, kern)
        pred = model.predict(X)
        model._c09_sub_scores = sub_scores(model, X, kern, pred)
    finally:
        K.find_best_split, K.gemini_objective = old
    return model, draws, score, pred


def sub_scores(model, X, kern, pred):
    """score on batches OTHER than the training set (must be called while the transliterated gemini_objective is installed):
    the samples of each single cluster (the labels present then skip the lower ids), the samples outside cluster 0, one half"""
    out = []
    labs = sorted(set(np.asarray(pred).tolist()))
    groups = [np.where(np.asarray(pred) == c)[0] for c in labs[:4]]
    if len(labs) > 1:
        groups.append(np.where(np.asarray(pred) != labs[0])[0])
    groups.append(np.arange(0, len(X), 2))
    for idx in groups:
        if len(idx) == 0:
            continue
        try:
            sc = model.score(X[idx], kern[np.ix_(idx, idx)])
            out.append((idx.tolist(), sc, None))
        except Exception as e:
            out.append((idx.tolist(), None, f"{type(e).__name__}: {e}"))
    return out


def fit_line(X, kern, params, draws):
    n, d = X.shape
    maxDepth = n if params["max_depth"] is None else params["max_depth"]
    maxLeaves = n if params["max_leaves"] is None else params["max_leaves"]
    parts = ["fit", n, d] + [kl.q(v) for v in kern.ravel()] + [kl.q(v) for v in X.ravel()]
    parts += [params["max_clusters"], maxDepth, params["min_samples_split"], params["min_samples_leaf"], maxLeaves, len(draws)]
    for dr in draws:
        parts += [len(dr)] + dr
    return " ".join(str(p) for p in parts)


def canon_impl(model, score, pred):
    t = model.tree_
    opt = lambda v: "None" if v is None else str(int(v))
    optq = lambda v: "None" if v is None else kl.q(float(v))
    f = lambda l: " ".join(str(int(x)) for x in l)
    return (f"nleaves {len(set(model.leaves_.tolist()))} labels {f(model.labels_)} leaves {f(model.leaves_)} "
            f"left {f(t.children_left)} right {f(t.children_right)} target {f(t.target)} "
            f"feat {' '.join(opt(x) for x in t.features)} thr {' '.join(optq(x) for x in t.thresholds)} "
            f"gains {' '.join(kl.q(Fraction(g)) for g in t.gains)} depths {f(t.depths)} "
            f"score {kl.q(Fraction(score))} route {f(pred)}")


def canon_model(line):
    # drop "steps k" and "nclusters k" (not observable on the estimator)
    t = line.split()
    out = []
    i = 0
    while i < len(t):
        if t[i] in ("steps", "nclusters"):
            i += 2
            continue
        out.append(t[i])
        i += 1
    return " ".join(out)


def invariants(model, X, kern, params, pred, score):
    """the clauses of C09, checked on the fitted estimator straight from the property text"""
    n = len(X)
    t = model.tree_
    bad = []
    leaves = [i for i in range(t.n_nodes) if t.children_left[i] == -1]
    nleaves = len(leaves)
    maxl = params["max_leaves"] or n
    if nleaves > max(maxl, 1):
        bad.append(("max_leaves", f"{nleaves} leaves > max_leaves {maxl}"))
    if params["max_depth"] is not None and max(t.depths) > params["max_depth"]:
        bad.append(("max_depth", f"depth {max(t.depths)} > max_depth {params['max_depth']}"))
    labs = sorted(set(model.labels_.tolist()))
    if labs != list(range(len(labs))) or len(labs) > params["max_clusters"]:
        bad.append(("clusters", f"labels {labs} not contiguous from 0 / more than max_clusters {params['max_clusters']}"))
    if t.n_nodes != 2 * nleaves - 1 or len(t.children_left) != t.n_nodes:
        bad.append(("nodes", f"{t.n_nodes} nodes for {nleaves} leaves"))
    # samples per node by routing
    def members(node, idx):
        out = {node: idx}
        if t.children_left[node] != -1:
            f, th = t.features[node], t.thresholds[node]
            left = [i for i in idx if X[i, f] <= th]
            right = [i for i in idx if not X[i, f] <= th]
            out.update(members(t.children_left[node], left))
            out.update(members(t.children_right[node], right))
        return out
    mem = members(0, list(range(n)))
    for node, idx in mem.items():
        if t.children_left[node] == -1:
            if len(idx) < params["min_samples_leaf"] and t.n_nodes > 1:
                bad.append(("min_samples_leaf", f"leaf node {node} holds {len(idx)} < {params['min_samples_leaf']} samples"))
        else:
            if len(idx) < params["min_samples_split"]:
                bad.append(("min_samples_split", f"node {node} with {len(idx)} < min_samples_split {params['min_samples_split']} samples was split"))
            if t.thresholds[node] not in set(X[idx, t.features[node]].tolist()):
                bad.append(("threshold", f"threshold {t.thresholds[node]} of node {node} is not an observed value"))
    if list(pred) != model.labels_.tolist():
        bad.append(("predict", "predict(X_train) != labels_"))
    # every leaf of the routed partition carries one cluster = its target
    for node in leaves:
        cl = set(model.labels_[mem[node]].tolist()) if mem[node] else set()
        if len(cl) > 1 or (cl and cl != {t.target[node]}):
            bad.append(("leaf-cluster", f"leaf node {node}: labels {cl}, target {t.target[node]}"))
    for idx, sc, err in getattr(model, "_c09_sub_scores", []):
        sub = kern[np.ix_(idx, idx)]
        want = kl.J(sub, [int(pred[i]) for i in idx])
        if err is not None:
            bad.append(("score-subset", f"score on the samples {idx} raised {err}"))
        elif Fraction(sc) != want:
            bad.append(("score-subset", f"score on the samples {idx} (predicted clusters {sorted(set(int(pred[i]) for i in idx))}) is "
                                        f"{float(Fraction(sc))}, the objective of their predicted labels is {float(want)}"))
    if Fraction(score) != kl.J(kern, list(pred)):
        bad.append(("score", f"score {float(Fraction(score))} != objective of predicted labels {float(kl.J(kern, list(pred)))}"))
    # leaves_ consistent with routing: samples with the same leaves_ id share a routed leaf
    for a in set(model.leaves_.tolist()):
        nodes = {nd for nd in leaves for i in mem[nd] if model.leaves_[i] == a}
        if len(nodes) != 1:
            bad.append(("leaves_", f"leaves_ id {a} spread over nodes {nodes}"))
    return bad


def run(ctx):
    ctx.rule = ("random Kauri.fit runs on integer data (n in 1..9/13, d in 1..3, ties and constant columns) with symmetric integer "
                "precomputed kernels (PSD or not), all combinations of max_clusters 1..5, max_depth None/1..4, min_samples_split, "
                "min_samples_leaf 1..3, max_features None/1/2/5, max_leaves None/2/3/4/6, seeds; non-trivial = the tree has >= 1 split. "
                "Plus a family 'near ties': n in 2..10, a feature with exact ties and values 1e-9..1e-15 relative apart in either order, "
                "block / second-feature / linear kernels whose blocks cut through the near-tie groups, min_samples_leaf at a block size")
    c08.regen(ctx)
    ctx.do_prove()
    nf = 80 if ctx.tier == "quick" else 800
    rs = np.random.RandomState(ctx.seed * 7 + 9)
    cases, lines, impls = [], [], []
    how = "harness.props.c09.run_fit(X, kernel, params) (Kauri.fit on the transliterated _utils.pyx) ; invariants()"
    rs2 = np.random.RandomState(ctx.seed * 7919 + 90013)      # own stream: the older families keep their inputs
    nt = 150 if ctx.tier == "quick" else 1500
    for fam, rg in [("plain", rs)] * nf + [("near-tie", rs2)] * nt:
        if fam == "plain":
            X, kern, params = gen_fit_case(rg, big=ctx.tier != "quick")
        else:
            X, kern, params = gen_near_tie_case(rg)
            ctx.count("family:near-tie")
        inp = {"X": X.tolist(), "kernel": kern.tolist(), "params": params}
        try:
            model, draws, score, pred = run_fit(X, kern, params)
        except Exception as e:
            ctx.case(("raise", X.tobytes(), repr(params)), False, None)
            if isinstance(e, ValueError) and len(X) < params["min_samples_leaf"]:
                ctx.count("rejected:n<min_samples_leaf")   # documented input validation, not a failure
                continue
            ctx.violation(f"Kauri.fit/score/predict raised {type(e).__name__}: {e}", "fit", inp, key=f"fit:raise:{type(e).__name__}", how=how)
            continue
        nsplits = (model.tree_.n_nodes - 1) // 2
        ctx.case((X.tobytes(), kern.tobytes(), repr(sorted(params.items(), key=str))), nsplits >= 1,
                 {"n": len(X), "params": params, "splits": nsplits})
        ctx.count(f"splits:{min(nsplits, 5)}")
        for name, msg in invariants(model, X, kern, params, pred, score):
            ctx.violation(msg, "fit", inp, key=f"inv:{name}", how=how)
        cases.append(inp)
        impls.append(canon_impl(model, score, pred))
        lines.append(fit_line(X, kern, params, draws))
        # new points: label of the leaf region that contains them (routing is per row)
        Xn = rg.randint(-1, 4, size=(5, X.shape[1])).astype(float)
        if fam == "near-tie":
            # points a hair beside the training values (on either side of a threshold)
            Xn[:3] = X[rg.randint(0, len(X), size=3)] * (1.0 + rg.choice(NEAR, size=(3, X.shape[1])))
        pn = model.predict(Xn)
        for r in range(len(Xn)):
            node = 0
            t = model.tree_
            while t.children_left[node] != -1:
                node = t.children_left[node] if Xn[r, t.features[node]] <= t.thresholds[node] else t.children_right[node]
            if pn[r] != t.target[node]:
                ctx.violation(f"new point {Xn[r].tolist()} predicted {pn[r]} but lies in the region of leaf node {node} (cluster {t.target[node]})",
                              "predict", {**inp, "x": Xn[r].tolist()}, key="predict:new-point", how=how)
            # the same point predicted ALONE (a one-row array: most internal nodes then receive no sample at all)
            alone = model.predict(Xn[r:r + 1])[0]
            if alone != t.target[node]:
                ctx.violation(f"new point {Xn[r].tolist()} predicted alone gives {alone} but lies in the region of leaf node {node} "
                              f"(cluster {t.target[node]})", "predict", {**inp, "x": Xn[r].tolist()}, key="predict:new-point:alone", how=how)
        for i in rg.choice(len(X), size=min(3, len(X)), replace=False):
            alone = model.predict(X[i:i + 1])[0]
            if alone != model.labels_[i]:
                ctx.violation(f"training sample {int(i)} predicted alone gives {alone}, its label is {model.labels_[i]}", "predict",
                              {**inp, "i": int(i)}, key="predict:train-point:alone", how=how)
    hybrid(ctx, rs, 120 if ctx.tier == "quick" else 1000, cases, impls, lines)
    try:
        outs = core.run_driver("Kauri", lines)
    except core.DriverBuildError as e:
        ctx.proof["broken"].append({"theorem": "model build", "reason": str(e)[-400:]})
        outs = []
    for inp, a, o in zip(cases, impls, outs):
        unit = "fit:hybrid" if "scripted_prefix" in inp else "fit"
        ctx.compared(unit)
        if a != canon_model(o):
            ctx.corr_break(unit, inp, {"impl": a, "model": canon_model(o)})
    return ctx.finish()


def gen_hybrid_case(rs):
    """cases for the scripted-prefix runs: room for several clusters and leaves, few structural limits"""
    n = int(rs.randint(6, 15))
    d = int(rs.randint(1, 4))
    X = rs.randint(0, 6, size=(n, d)).astype(float)
    A = rs.randint(-2, 3, size=(n, n))
    kern = (A + A.T).astype(float) if rs.rand() < 0.6 else (A @ A.T).astype(float)
    msl = int(rs.choice([1, 1, 1, 2]))
    params = dict(max_clusters=int(rs.choice([2, 3, 4, 5, 5, 6, 7])), max_depth=[None, None, None, 3, 4][rs.randint(5)],
                  min_samples_leaf=msl, max_features=[None, None, 1, 2][rs.randint(4)],
                  max_leaves=[None, None, None, 5, 6][rs.randint(5)], kernel="precomputed", random_state=int(rs.randint(1000)))
    params["min_samples_split"] = max(2, 2 * msl) + int(rs.choice([0, 0, 0, 1, 2, 4, 6]))
    if rs.rand() < 0.25:
        # a feature with geometrically growing gaps: the greedy tree peels one sample off at a time (very unbalanced trees)
        X[:, 0] = np.sort(2.0 ** rs.permutation(len(X))[:len(X)])[rs.permutation(len(X))]
        kern = (X[:, :1] @ X[:, :1].T)
        params["max_clusters"] = int(rs.choice([5, 6, 8]))
        params["max_leaves"], params["max_depth"] = None, None
    return X, kern, params


def hybrid(ctx, rs, count, cases, impls, lines):
    """the fit loop from intermediate states the greedy search seldom reaches: the first answers of find_best_split are
    scripted admissible splits of every kind (star, double star, switch, reallocation), the rest is the real search"""
    how = ("harness.kauri_lib.run_hybrid_fit(X, kernel, params, rs, prefix_len): Kauri.fit with scripted admissible answers "
           "of find_best_split for the first steps; invariants()")
    for _ in range(count):
        X, kern, params = gen_hybrid_case(rs)
        plen = int(rs.randint(1, 7))
        inp = {"X": X.tolist(), "kernel": kern.tolist(), "params": params}
        try:
            h = kl.run_hybrid_fit(X, kern, params, rs, plen)
        except Exception as e:
            ctx.case(("hybrid-raise", X.tobytes(), repr(params)), False, None)
            ctx.violation(f"Kauri.fit/score/predict raised {type(e).__name__}: {e} (after scripted admissible splits)", "fit:hybrid",
                          inp, key=f"fit:hybrid:raise:{type(e).__name__}", how=how)
            continue
        model = h["model"]
        inp["scripted_prefix"] = [[str(x) for x in b] for b in h["prefix"]]
        nsplits = (model.tree_.n_nodes - 1) // 2
        ctx.case(("hybrid", X.tobytes(), kern.tobytes(), repr(sorted(params.items(), key=str)), repr(h["prefix"])),
                 nsplits >= 1, {"n": len(X), "params": params, "splits": nsplits, "scripted": len(h["prefix"])} if nsplits > 2 else None)
        for st, tup, scripted, errs in h["calls"]:
            if scripted:
                ctx.count("scripted:" + kl.split_kind(st, tup[2], tup[3], tup[1]))
            elif tup[0] > 0:
                ctx.count("after-script:" + kl.split_kind(st, tup[2], tup[3], tup[1]))
            for e in errs:
                ctx.violation(f"find_best_split is called on an inconsistent tree state: {e}", "fit:hybrid", inp,
                              key="fit:bookkeeping", how=how)
        for name, msg in invariants(model, X, kern, params, h["pred"], h["score"]):
            ctx.violation(msg + " (run with a scripted prefix of admissible splits)", "fit:hybrid", inp, key=f"inv:{name}", how=how)
        cases.append(inp)
        impls.append(canon_impl(model, h["score"], h["pred"]))
        lines.append(kl.fith_line(X, kern, params, h["prefix"], h["draws"]))
