"""C03 — every training update follows the true gradient of the regularised objective."""
import contextlib
import io
import itertools

import numpy as np

from .. import core, fit_lib as fl, gemini_lib as gl, optim_lib
from translator import nets as tn, tables
from . import c15


def regen(ctx):
    """regenerate Gen/Nets.lean (the straight-line NumPy code of _infer/_compute_grads, as the source says now);
    Props/C03Gen.lean proves it equal to the hand models the C03 theorems are stated about"""
    try:
        data, text = tn.nets()
    except (tables.TranslationFailure, SyntaxError, OSError) as e:
        ctx.extra["translation_failure"] = f"nets: {e}"
        return None
    changed = core.write_if_changed(core.LEAN + "/GemVerif/Gen/Nets.lean", text)
    ctx.translation = {"units": [f"{u['file']}::{u['class']}.{u['method']} -> Gen/Nets.lean::{name}" for name, u in data.items()],
                       "regenerated": len(data), "identical_to_committed": not changed}
    return data


# ------------------------------------------------------------------ part A: _compute_grads vs the Lean model
def corr_cases(ctx, rs, reps):
    from gemclus import linear, mlp, sparse, nonparametric
    lines, expect = [], []
    for r in range(reps):
        n, d, h, K = int(rs.randint(1, 7)), int(rs.randint(1, 4)), int(rs.randint(1, 4)), int(rs.randint(2, 5))
        X = rs.randn(n, d) * rs.choice([0.3, 1.0, 3.0])
        G = rs.randn(n, K)
        scale = float(rs.choice([0.2, 1.0, 4.0]))   # parameters far from initialisation included
        # Linear / RIM
        for kind in ("linear", "rim"):
            m = (linear.LinearModel if kind == "linear" else linear.RIM)(n_clusters=K)
            m.W_, m.b_ = rs.randn(d, K) * scale, rs.randn(1, K) * scale
            y = m._infer(X)
            if kind == "linear":
                gr = m._compute_grads(X, y, G.copy())
                lines.append(f"grads linear {n} {d} {K} {core.fl(X)} {core.fl(y)} {core.fl(G)}")
            else:
                m.reg = float(rs.choice([0.0, 0.1, 2.0]))
                gr = m._compute_grads(X, y, G.copy())
                cap = []

                class O:  # stands for the optimiser: records what it is handed
                    def update_params(self, w, g):
                        cap.append([np.array(a) for a in g])
                m.optimiser_ = O()
                m._update_weights(m._get_weights(), gr)
                gr = cap[0]
                lines.append(f"grads rim {n} {d} {K} {core.fhex(m.reg)} {core.fl(X)} {core.fl(m.W_)} {core.fl(y)} {core.fl(G)}")
            expect.append((kind, np.concatenate([gr[0].ravel(), gr[1].ravel()]), {"X": X.tolist(), "W": m.W_.tolist(), "b": m.b_.tolist(), "G": G.tolist()}))
            lines.append(f"infer linear {n} {d} {K} {core.fl(X)} {core.fl(m.W_)} {core.fl(m.b_)}")
            expect.append(("infer-linear", y.ravel(), {"X": X.tolist(), "W": m.W_.tolist(), "b": m.b_.tolist()}))
        # KernelRIM: a (shuffled) batch of kernel rows, penalty on the complete training kernel
        kern = gl.gen_affinity(rs, n, "rbf")
        m = linear.KernelRIM(n_clusters=K, reg=float(rs.choice([0.0, 0.1, 2.0])))
        m.W_, m.b_ = rs.randn(n, K) * scale, rs.randn(1, K) * scale
        m._training_kernel = kern
        rows = rs.permutation(n)[:int(rs.randint(1, n + 1))]
        Xb = kern[rows]
        y = m._infer(Xb)
        Gb = G[:len(rows)]
        gr = m._compute_grads(Xb, y, Gb.copy())
        lines.append(f"grads krim {len(rows)} {n} {K} {core.fhex(m.reg)} {core.fl(kern)} {core.fl(Xb)} {core.fl(m.W_)} {core.fl(y)} {core.fl(Gb)}")
        expect.append(("krim", np.concatenate([gr[0].ravel(), gr[1].ravel()]), {"kernel": kern.tolist(), "rows": rows.tolist(), "W": m.W_.tolist(), "G": Gb.tolist()}))
        # MLP / SparseMLP
        for kind in ("mlp", "smlp"):
            m = (mlp.MLPModel if kind == "mlp" else sparse.SparseMLPModel)(n_clusters=K, n_hidden_dim=h)
            m.W1_, m.b1_ = rs.randn(d, h) * scale, rs.randn(1, h) * scale
            m.W2_, m.b2_ = rs.randn(h, K) * scale, rs.randn(1, K) * scale
            if kind == "smlp":
                m.W_skip_ = rs.randn(d, K) * scale
            y = m._infer(X)
            gr = m._compute_grads(X, y, G.copy())
            lines.append(f"grads mlp {n} {d} {h} {K} {core.fl(X)} {core.fl(m.H_)} {core.fl(m.W2_)} {core.fl(y)} {core.fl(G)}")
            if kind == "mlp":
                flat = np.concatenate([gr[0].ravel(), gr[1].ravel(), gr[2].ravel(), gr[3].ravel()])
            else:
                flat = np.concatenate([gr[0].ravel(), gr[1].ravel(), gr[3].ravel(), gr[4].ravel(), gr[2].ravel()])
            expect.append((kind, flat, {"X": X.tolist(), "W1": m.W1_.tolist(), "b1": m.b1_.tolist(), "W2": m.W2_.tolist(), "b2": m.b2_.tolist(), "G": G.tolist()}))
            if kind == "mlp":
                lines.append(f"infer mlp {n} {d} {h} {K} {core.fl(X)} {core.fl(m.W1_)} {core.fl(m.b1_)} {core.fl(m.W2_)} {core.fl(m.b2_)}")
            else:
                lines.append(f"infer smlp {n} {d} {h} {K} {core.fl(X)} {core.fl(m.W1_)} {core.fl(m.b1_)} {core.fl(m.W2_)} {core.fl(m.b2_)} {core.fl(m.W_skip_)}")
            expect.append(("infer-" + kind, y.ravel(), {"X": X.tolist()}))
        # Categorical
        m = nonparametric.CategoricalModel(n_clusters=K)
        m.logits_ = rs.randn(n, K) * scale
        y = m._infer(X)
        gr = m._compute_grads(X, y, G.copy())
        lines.append(f"grads cat {n} {K} {core.fl(y)} {core.fl(G)}")
        expect.append(("cat", gr[0].ravel(), {"logits": m.logits_.tolist(), "G": G.tolist()}))
        lines.append(f"infer cat {n} {K} {core.fl(m.logits_)}")
        expect.append(("infer-cat", y.ravel(), {"logits": m.logits_.tolist()}))
    return lines, expect


# ------------------------------------------------------------------ part B: numeric oracle on real fits
def objective(model, gemini, Xb, Ab, pairs=None):
    """the regularised objective of the property, evaluated by the model's public forward pass"""
    y = model._infer(Xb, retain=False)
    val = float(gemini(y, Ab))
    name = type(model).__name__
    if name == "RIM":
        val -= model.reg * float(np.sum(model.W_ ** 2))
    if name == "KernelRIM":
        # documented penalty: kernel-weighted l2 on the weights, with the kernel between ALL training samples
        from sklearn.metrics import pairwise_kernels
        Kfull = model._compute_kernel(model.input_data_)
        val -= model.reg * float(np.trace(model.W_.T @ Kfull @ model.W_))
    for deco in ([] if not pairs else (pairs if isinstance(pairs, list) else [pairs])):     # one entry per decoration, each with ITS factor
        idx, ml, cl, factor = deco
        for (i, j) in cl:
            if i in idx and j in idx:
                a, b = idx.index(i), idx.index(j)
                val += 0.5 * factor * float(np.sum((y[a] - y[b]) ** 2))
        for (i, j) in ml:
            if i in idx and j in idx:
                a, b = idx.index(i), idx.index(j)
                val -= 0.5 * factor * float(np.sum((y[a] - y[b]) ** 2))
    return val


def check_step(ctx, rs, model, gemini, weights, before, grads, Xb, Ab, pairs, inp):
    """compare the direction handed to the optimiser with -grad of the objective at the pre-update parameters"""
    saved = [w.copy() for w in weights]
    try:
        for w, b in zip(weights, before):
            np.copyto(w, b)
        if type(gemini).__name__ == "MMDGEMINI" and Ab is not None:
            # next to a zero MMD distance (two clusters with nearly the same conditional distribution: typical right after a random
            # initialisation) the gradient divides by the square root of a cancelling difference; any two correct evaluations differ
            # there by far more than the tolerance (gemini_lib.mmd_conditioning, DESIGN 18): counted, not judged
            from .. import gemini_lib as _gl
            if _gl.mmd_conditioning(np.asarray(model._infer(Xb, retain=False), dtype=float), np.asarray(Ab, dtype=float),
                                    bool(gemini.ovo), float(gemini.epsilon)) < 1e-6:
                ctx.count("illconditioned_mmd_step_skipped")
                return True
        for pi, (w, g) in enumerate(zip(weights, grads)):
            for _ in range(2):
                D = rs.randn(*w.shape)
                base = w.copy()

                def f(t):
                    np.copyto(w, base + t * D)
                    v = objective(model, gemini, Xb, Ab, pairs)
                    np.copyto(w, base)
                    return v
                h1, h2 = 2e-4, 1e-4
                d1 = (f(h1) - f(-h1)) / (2 * h1)
                d2 = (f(h2) - f(-h2)) / (2 * h2)
                rich = (4 * d2 - d1) / 3
                f0 = f(0.0)
                left, right = (f0 - f(-h2)) / h2, (f(h2) - f0) / h2
                an = -float(np.sum(g * D))      # the optimiser minimises: handed direction = -(ascent gradient)
                if not np.isfinite([rich, an]).all():
                    ctx.count("nonfinite_skipped")
                    continue
                if abs(left - right) > 1e-3 * max(abs(left), abs(right), 1e-9) + 1e-7:
                    ctx.count("kink_skipped")
                    continue
                scale = max(abs(an), abs(rich), 1e-7)
                # rounding of the objective itself: values of magnitude |f| carry about eps*|f|, divided by the step in the quotient
                # (weights that diverged under sgd make |f| ~ 1e20 while the slope is ~ 1e10: nothing can be read off the quotient then)
                round_err = 32 * np.finfo(float).eps * abs(f0) / h2
                if round_err > 2e-4 * scale:
                    ctx.count("illconditioned_skipped")
                    continue
                ctx.count("directions_checked")
                if abs(an - rich) > 5e-5 * scale + 10 * abs(d1 - d2) + round_err + 1e-9:
                    ctx.violation(f"parameter #{pi}: the direction handed to the optimiser has slope {an!r} along a random direction, "
                                  f"the regularised objective has {rich!r}", "update", {**inp, "param_index": pi},
                                  expected=rich, actual=an, key=f"direction:{inp['estimator']}:p{pi}",
                                  how="fit the estimator with harness.fit_lib.capture_updates(); compare grads with central differences of the objective")
                    return False
    finally:
        for w, s in zip(weights, saved):
            np.copyto(w, s)
    return True


class BatchSpy:
    """callable proxy around an estimator's `_batchify`: records (X_batch, affinity_batch, indices known to the wrapped object
    after the yield) and forwards every other attribute read / write to the wrapped callable"""

    def __init__(self, inner, steps):
        object.__setattr__(self, "_inner", inner)
        object.__setattr__(self, "_steps", steps)

    def __call__(self, Xa, affinity_matrix=None, random_state=None):
        for xb, ab in self._inner(Xa, affinity_matrix, random_state):
            self._steps.append((np.array(xb, copy=True), None if ab is None else np.array(ab, copy=True),
                                list(getattr(self._inner, "indices", []))))
            yield xb, ab

    def __getattr__(self, name):
        return getattr(object.__getattribute__(self, "_inner"), name)

    def __setattr__(self, name, value):
        setattr(object.__getattribute__(self, "_inner"), name, value)


def fit_lib_rejection(e):
    """exceptions that are documented rejections of the generated configuration, not failures of fit"""
    msg = str(e)
    return isinstance(e, ValueError) and any(t in msg for t in ("n_samples=", "min_samples", "Contradiction", "feature mask",
                                                                  "must be", "parameter of"))


def fit_cases(ctx, rs, nfits):
    import gemclus
    E = fl.estimators()
    fams = ["LinearModel", "RIM", "KernelRIM", "MLPModel", "SparseLinearModel", "SparseMLPModel", "CategoricalModel", "Douglas",
            "LinearMMD", "MLPWasserstein"]
    for it in range(nfits):
        fam = fams[it % len(fams)]
        cls = E[fam]
        n, d, K = int(rs.randint(4, 9)), int(rs.randint(1, 4)), int(rs.randint(2, 4))
        X = fl.small_data(rs, n, d)
        kw = dict(n_clusters=K, max_iter=2, solver=str(rs.choice(["adam", "sgd"])), random_state=int(rs.randint(100)),
                  learning_rate=float(rs.choice([1e-3, 0.05])))
        if fl.accepts(cls, "gemini"):
            kw["gemini"] = str(rs.choice(fl.GEMINI_NAMES))
        if fl.accepts(cls, "batch_size"):
            kw["batch_size"] = [None, 1, 2, n - 1, n][rs.randint(5)]
        if fl.accepts(cls, "n_hidden_dim"):
            kw["n_hidden_dim"] = int(rs.randint(1, 4))
        if fl.accepts(cls, "reg"):
            kw["reg"] = float(rs.choice([0.0, 0.1, 1.0]))
            if fam == "RIM" and it % 20 == 1:
                # dedicated: the penalised RIM on ONE feature (W_ is 1 x K and looks like a bias row; seeded change C03-15)
                X, d = np.ascontiguousarray(X[:, :1]), 1
                kw["reg"] = 1.0
                ctx.count("fit:RIM:one-feature-penalised")
        if fl.accepts(cls, "alpha"):
            kw["alpha"] = float(rs.choice([0.0, 0.01, 0.5]))
            if it % 4 == 1:
                # a penalty strong enough to ELIMINATE features during the fit (exactly-zero weight rows): the direction handed
                # to the optimiser must still be the gradient there, also for the rows that are currently zero
                kw["alpha"] = float(rs.choice([5.0, 30.0]))
                kw["learning_rate"] = 0.05
                kw["max_iter"] = 6
                if fl.accepts(cls, "M"):
                    kw["M"] = float(rs.choice([1.0, 0.25]))
        if fl.accepts(cls, "ovo"):
            kw["ovo"] = bool(rs.randint(2))
        if nfits - 12 - max(8, nfits // 5) <= it < nfits - 12:
            # dedicated: sparse MLP under a penalty that eliminates features within a few steps
            fam, cls = "SparseMLPModel", E["SparseMLPModel"]
            n, d, K = 8, 3, 2
            X = fl.small_data(rs, n, d)
            kw = dict(n_clusters=K, max_iter=8, solver=str(rs.choice(["adam", "sgd"])), random_state=int(rs.randint(100)), learning_rate=0.05,
                      gemini=str(rs.choice(["kl_ova", "mmd_ova", "chi2_ova"])), batch_size=[None, 4][rs.randint(2)], n_hidden_dim=2,
                      alpha=float(rs.choice([10.0, 30.0])), M=float(rs.choice([1.0, 0.5])))
        ded0 = nfits - 12 - max(8, nfits // 5)
        dk0 = ded0 - max(6, nfits // 10)
        force_decorated = False
        if dk0 - max(4, nfits // 12) <= it < dk0:
            # dedicated: decorated MINI-BATCH fits with a short last batch and pairs that are split between the batches of a pass (what the
            # decoration knows about one batch must not leak into the next); every early step is judged
            fam = ["LinearModel", "MLPModel"][it % 2]
            cls = E[fam]
            n, d, K = 8, 2, int(rs.randint(2, 4))
            X = fl.small_data(rs, n, d)
            kw = dict(n_clusters=K, max_iter=3, solver=str(rs.choice(["adam", "sgd"])), random_state=int(rs.randint(100)), learning_rate=0.05,
                      gemini=str(rs.choice(["kl_ova", "mmd_ova", "hellinger_ovo", "chi2_ova"])), batch_size=int(rs.choice([3, 5])))
            if fam == "MLPModel":
                kw["n_hidden_dim"] = 3
            force_decorated = True
        if dk0 <= it < ded0:
            # dedicated: Douglas with several cut points per feature (their order changes under the updates, so the gradient has to be
            # scattered back through the sort), and KernelRIM with a kernel-weighted penalty on several batches per pass (the penalty
            # gradient follows W_ from one batch to the next)
            n, d, K = 8, 2, int(rs.randint(2, 4))
            X = fl.small_data(rs, n, d)
            if (it - ded0) % 2 == 0:
                fam, cls = "Douglas", E["Douglas"]
                kw = dict(n_clusters=K, max_iter=3, solver=str(rs.choice(["adam", "sgd"])), random_state=int(rs.randint(100)), learning_rate=0.05,
                          gemini=str(rs.choice(fl.GEMINI_NAMES)), batch_size=[None, 4][rs.randint(2)], n_cuts=3)
                # a tree on ONE feature (one column, or a mask with a single entry): the leaf memberships then ARE the memberships of that
                # feature (no product is formed), which is the degenerate end of the N-d bookkeeping in `_compute_grads`
                variant = ((it - ded0) // 2) % 3
                if variant == 1:
                    X = X[:, :1]; d = 1
                elif variant == 2:
                    X = fl.small_data(rs, n, 3); d = 3
                    mask = np.zeros(3, dtype=bool); mask[rs.randint(3)] = True
                    kw["feature_mask"] = mask
                ctx.count(f"douglas_dedicated_variant:{variant}")
            else:
                fam, cls = "KernelRIM", E["KernelRIM"]
                kw = dict(n_clusters=K, max_iter=2, solver=str(rs.choice(["adam", "sgd"])), random_state=int(rs.randint(100)), learning_rate=0.05,
                          batch_size=int(rs.choice([1, 2, 3])), reg=float(rs.choice([0.1, 1.0])),
                          base_kernel=str(rs.choice(["rbf", "laplacian", "linear"])))
                if kw["base_kernel"] == "linear":
                    kw["learning_rate"] = 1e-3
        if fam == "Douglas" and "n_cuts" not in kw:
            kw["n_cuts"] = int(rs.randint(1, 4))
            kw["max_iter"] = 2
        if fam == "Douglas" and "feature_mask" not in kw:
            if d > 2:
                X = X[:, :2]; d = 2
        decorated = fam in ("LinearModel", "MLPModel", "CategoricalModel") and (rs.rand() < 0.7 or force_decorated)
        if it >= nfits - 12:
            # dedicated block: each decorable family with each multi-pair shape, all samples in one batch
            fam = ["LinearModel", "MLPModel", "CategoricalModel"][(it - (nfits - 12)) % 3]
            cls = E[fam]
            decorated = True
            kw = dict(n_clusters=K, max_iter=2, solver=str(rs.choice(["adam", "sgd"])), random_state=int(rs.randint(100)),
                      learning_rate=0.05, gemini=str(rs.choice(["kl_ova", "mmd_ova", "hellinger_ovo", "chi2_ova"])))
            if fam == "MLPModel":
                kw["n_hidden_dim"] = 3
        if it % 3 == 2 and fl.accepts(cls, "verbose"):
            # the progress-report path (`verbose=True`) must train exactly like the silent one: what it prints may not disturb the
            # state back-propagation relies on (seeded change C03-14: a full-data `_infer` that overwrote the retained activations)
            kw["verbose"] = True
            if it % 12 == 11 and "batch_size" in kw:
                kw["batch_size"] = None      # the whole data in one batch: the silent-corruption case of a full-data side computation
            ctx.count("fit:verbose")
        inp = {"estimator": fam, "params": {k: (v.tolist() if isinstance(v, np.ndarray) else v) for k, v in kw.items()}, "X": X.tolist(),
               "decorated": bool(decorated)}
        model = cls(**kw)
        ml, cl, factor = [], [], 1.0
        second = None
        if decorated:
            perm = rs.permutation(n)
            factor = float(rs.choice([0.5, 2.0]))
            shape = ((it - (nfits - 12)) // 3) if it >= nfits - 12 else (1 + it % 3 if force_decorated else int(rs.randint(4)))
            refused_block = it >= nfits - 12 and shape == 0
            if shape == 0:      # disjoint pairs
                ml, cl = [(int(perm[0]), int(perm[1]))], [(int(perm[2]), int(perm[3]))]
            elif shape == 1:    # a sample shared by several pairs of the same kind, in the same position (star)
                ml, cl = [(int(perm[0]), int(perm[1])), (int(perm[0]), int(perm[2]))], [(int(perm[3]), int(perm[1])), (int(perm[3]), int(perm[2]))]
            elif shape == 2:    # chains and a repeated pair
                ml, cl = [(int(perm[0]), int(perm[1])), (int(perm[1]), int(perm[2]))], [(int(perm[0]), int(perm[3])), (int(perm[0]), int(perm[3]))]
            else:               # star of cannot-links only
                ml, cl = [], [(int(perm[0]), int(perm[1])), (int(perm[0]), int(perm[2])), (int(perm[0]), int(perm[3]))]
            ctx.count(f"mlcl_shape:{shape}")
            if shape == 0 and (refused_block or rs.rand() < 0.5):
                # a CONTRADICTORY constraint set is refused (ValueError); the estimator must then train as an undecorated one
                bad_ml, bad_cl = [(int(perm[0]), int(perm[1])), (int(perm[1]), int(perm[2]))], [(int(perm[0]), int(perm[2]))]
                try:
                    gemclus.add_mlcl_constraint(model, bad_ml, bad_cl, factor)
                    ctx.count("contradictory_constraints_accepted(see C14)")
                    continue
                except ValueError:
                    ctx.count("mlcl:refused-then-fit")
                decorated, ml, cl = False, [], []
                inp["refused_constraints"] = {"must_link": bad_ml, "cannot_link": bad_cl}
                inp["decorated"] = False
            else:
                try:
                    model = gemclus.add_mlcl_constraint(model, ml, cl, factor)
                except ValueError:
                    ctx.count("mlcl_rejected_valid_pairs(see C14)")
                    continue
                inp["must_link"], inp["cannot_link"], inp["factor"] = ml, cl, factor
                if shape in (0, 3) and (it >= nfits - 12 or rs.rand() < 0.5):
                    # a SECOND decoration of the same estimator, with its own pairs and its own factor: both sets of terms are part of the
                    # objective, each weighted by the factor it was given
                    ml2, cl2, factor2 = [(int(perm[1]), int(perm[0]))] if shape == 3 else [], [(int(perm[0]), int(perm[2]))] if shape == 0 else [], 3.0 * factor
                    try:
                        model = gemclus.add_mlcl_constraint(model, ml2, cl2, factor2)
                        second = (ml2, cl2, factor2)
                        inp["second_decoration"] = {"must_link": ml2, "cannot_link": cl2, "factor": factor2}
                        ctx.count("mlcl:second-decoration")
                    except ValueError:
                        ctx.count("mlcl:second-decoration-rejected")
        steps = []
        try:
            with fl.capture_updates() as ups:
                # a transparent spy on the instance's `_batchify` (possibly the mlcl wrapper, which carries attributes such as
                # `.indices` that `decorate_grads` reads): every attribute access is forwarded to the real object
                model._batchify = BatchSpy(model._batchify, steps)
                with contextlib.redirect_stdout(io.StringIO()):
                    model.fit(X)
        except Exception as e:
            ctx.case((fam, repr(kw)), False, None)
            ctx.count(f"fit_raised:{fam}:{type(e).__name__}")
            ctx.extra.setdefault("fit_errors", []).append(f"{fam} {kw}: {type(e).__name__}: {e}"[:300])
            if not fit_lib_rejection(e):
                # a fit that dies on a configuration the validators accepted is no verdict on THIS property (C04 judges it), but it
                # must not pass silently either: the run cannot vouch for the updates of that fit
                import traceback
                ctx.corr_break("fit:raised", {**inp, "decorated": bool(decorated)},
                               {"fit raised": f"{type(e).__name__}: {e}", "traceback_tail": traceback.format_exc()[-600:]})
                # the updates made BEFORE the crash are still judged
                try:
                    gemini, weights = model.get_gemini(), model._get_weights()
                    for si in range(min(len(ups), len(steps)))[-4:]:
                        before, grads = ups[si]
                        Xb, Ab, idx = steps[si]
                        pairs = ([(idx, ml, cl, factor)] + ([(idx,) + second] if second else [])) if decorated else None
                        if not check_step(ctx, rs, model, gemini, weights, before, grads, Xb, Ab, pairs, {**inp, "step": int(si)}):
                            break
                except Exception:
                    pass
            continue
        ctx.case((fam, repr(sorted(kw.items(), key=str)), X.tobytes(), decorated), True,
                 {"estimator": fam, "params": kw, "n": n, "d": d, "decorated": bool(decorated)} if it < 12 else None)
        ctx.count("fam:" + fam)
        ctx.compared("fit-steps:" + fam, len(ups))
        if len(ups) != len(steps):
            ctx.violation(f"{len(ups)} optimiser updates for {len(steps)} batches", "update", inp, key=f"update-count:{fam}")
            continue
        gemini = model.get_gemini()
        weights = model._get_weights()
        sel = range(len(ups)) if len(ups) <= 3 else sorted(set(rs.choice(len(ups), size=3, replace=False).tolist()) | {len(ups) - 1})
        if decorated and len(ups) > 3:
            # constraint terms depend on which samples share a batch: every step of the first epochs is judged (the first batch
            # of an epoch can be right while the later ones are not)
            sel = list(range(min(len(ups), 8)))
        if fam.startswith("Sparse"):
            # the steps taken while SOME but not all features are eliminated are the interesting ones: judge them first
            dd = X.shape[1]
            def partial(bw):
                z = [int((np.abs(w).sum(axis=1) == 0).sum()) for w in bw if w.ndim == 2 and w.shape[0] == dd]
                return any(0 < c < dd for c in z)
            part = [i for i in range(len(ups)) if partial(ups[i][0])]
            if part:
                sel = sorted(set(part[:3]) | set(list(sel)[:2]))
                ctx.count("sparse-fit:steps-with-partly-eliminated-features", len(part))
            zero_rows = int(sum(int((np.abs(w).sum(axis=1) == 0).sum()) for w in weights if w.ndim == 2 and w.shape[0] == X.shape[1]))
            ctx.count("sparse-fit:some-rows-eliminated" if zero_rows else "sparse-fit:no-row-eliminated")
        for si in sel:
            before, grads = ups[si]
            Xb, Ab, idx = steps[si]
            pairs = ([(idx, ml, cl, factor)] + ([(idx,) + second] if second else [])) if decorated else None
            if not check_step(ctx, rs, model, gemini, weights, before, grads, Xb, Ab, pairs, {**inp, "step": int(si)}):
                break


def run(ctx):
    fl.quiet()
    ctx.rule = ("(A) _compute_grads/_infer of Linear, RIM, KernelRIM(full batch), MLP, SparseMLP, Categorical on random inputs with "
                "parameters at scales 0.2..4 (far from initialisation) vs the Lean model; (B) real fits of 10 families x 13 GEMINIs x "
                "{adam,sgd} x batch sizes {None,1,2,n-1,n} x plain/mlcl-decorated, every captured optimiser call compared with "
                "Richardson central differences of the regularised objective along random per-parameter directions; kinks "
                "(ReLU, TV, OT, Douglas ties) detected by one-sided slopes and skipped; non-trivial = fit completed; (C) SGD/Adam as GemClus builds them: "
                "the real optimiser objects on lists of arrays and the weight trajectories of real fits (observed _update_weights) vs the Lean "
                "model Model/Optim.lean per coordinate and vs the documented update rules")
    regen(ctx)
    c15.regen(ctx)          # Douglas is one of C03's families: Gen/Douglas.lean + companion C15Gen
    ctx.do_prove()
    rs = np.random.RandomState(ctx.seed * 1009 + 3)
    try:
        lines, expect = corr_cases(ctx, rs, 6 if ctx.tier == "quick" else 60)
    except Exception as e:
        # the unit-level comparison drives hand-built objects through private methods; when the source no longer allows that
        # (e.g. _compute_grads reads state that only fit prepares) the tie is broken, and the oracle on REAL fits below is
        # what searches for a failing input
        import traceback
        ctx.corr_break("model:unit-calls", {"source_delta": [f"{f}::{u}" for f, u in ctx.delta]},
                       {"hand-built objects could not be driven": f"{type(e).__name__}: {e}", "traceback_tail": traceback.format_exc()[-800:]})
        lines, expect = [], []
    try:
        outs = core.run_driver("Nets", lines)
    except core.DriverBuildError as e:
        ctx.proof["broken"].append({"theorem": "model build", "reason": str(e)[-400:]})
        outs = []
    for (unit, vals, inp), o in zip(expect, outs):
        m = [core.unhex(x) for x in o.split()]
        if unit == "mlp":
            m = m[:len(vals)]     # the plain MLP has no skip weights: the model's trailing Ws block is not compared
        ctx.compared("model:" + unit)
        ctx.case((unit, np.asarray(vals).tobytes()), True, None)
        if not core.close_vec(list(map(float, vals)), m, rtol=1e-9):
            ctx.corr_break("model:" + unit, inp, {"impl": list(map(float, vals)), "model": m})
    fit_cases(ctx, rs, 54 if ctx.tier == "quick" else 400)
    # (C) the optimiser layer: Model/Optim.lean + Props/C03Optim.lean (own generator: does not shift the draws above)
    optim_lib.run_block(ctx, np.random.RandomState(ctx.seed * 1009 + 77))
    return ctx.finish()
