"""C08 — KAURI gains are real objective increases and the chosen split is the best one."""
import itertools
from fractions import Fraction

import numpy as np

from .. import core, kauri_lib as kl
from translator import kauri as tk, pyx2py, tables


def regen(ctx):
    try:
        data, text = tk.gains()
    except (tables.TranslationFailure, pyx2py.TransliterationError) as e:
        ctx.extra["translation_failure"] = f"kauri gains: {e}"
        return None
    changed = core.write_if_changed(core.LEAN + "/GemVerif/Gen/KauriGains.lean", text)
    ctx.translation = {"units": ["tree/_utils.pyx::compute_all_splits (6 gain formulas) -> Gen/KauriGains.lean"],
                       "regenerated": 1, "identical_to_committed": not changed}
    return data


def binary_status(ctx):
    """is the compiled extension generated from the current .pyx?  (informational; the source is what is verified)"""
    import os, re
    cpp = os.path.join(core.REPO, "gemclus/tree/_utils.cpp")
    pyx = open(os.path.join(core.REPO, "gemclus/tree/_utils.pyx")).read().split("\n")
    if not os.path.exists(cpp):
        ctx.extra["binary_stale"] = "no generated .cpp next to the binary"
        return None
    stale = False
    for m in re.finditer(r'/\* "gemclus/tree/_utils\.pyx":(\d+)\n((?: \*.*\n)+?)\*/', open(cpp, errors="replace").read()):
        ln = int(m.group(1))
        for cl in m.group(2).split("\n"):
            if cl.endswith("# <<<<<<<<<<<<<<"):
                code = cl[3:].replace("# <<<<<<<<<<<<<<", "").rstrip()
                if ln - 1 >= len(pyx) or pyx[ln - 1].rstrip() != code.rstrip():
                    stale = True
    ctx.extra["binary_stale"] = stale
    return stale


def enumerate_small(ctx, limit):
    """exhaustive family: n = 4 samples on one feature, every leaf/cluster assignment with <= 3 leaves,
    kernels from a fixed set of symmetric integer matrices"""
    out = []
    rs = np.random.RandomState(12345)
    kernels = []
    for _ in range(3):
        A = rs.randint(-2, 3, size=(4, 4))
        kernels.append((A + A.T).astype(float))
    X = np.array([[0.0], [1.0], [1.0], [2.0]])
    for kern in kernels:
        for L in (1, 2, 3):
            for leaf in itertools.product(range(L), repeat=4):
                if len(set(leaf)) != L:
                    continue
                for ncl in range(1, L + 1):
                    for cl in itertools.product(range(ncl), repeat=L):
                        if len(set(cl)) != ncl:
                            continue
                        for Kmax in range(ncl, 5):
                            out.append({"n": 4, "d": 1, "L": L, "Kmax": Kmax, "X": X, "kernel": kern, "leaf": list(leaf),
                                        "cluster": list(cl), "ncl": ncl, "explore": list(range(L)), "features": [0],
                                        "min_leaf": 1})
    if limit and len(out) > limit:
        idx = np.random.RandomState(ctx.seed).choice(len(out), size=limit, replace=False)
        return [out[i] for i in sorted(idx)], False
    return out, True


def run(ctx):
    ctx.rule = ("random tree states (n<=8 samples, <=4 leaves, <=4 clusters, integer features in {0,1,2} with ties and "
                "constant columns, symmetric integer kernels PSD or not, explore subsets, feature subsets, min_samples_leaf 1..3) "
                "plus an enumerated family of 4-sample states; non-trivial = at least one admissible split exists; "
                "distinct = distinct state hash. All arithmetic exact (Fractions / Lean Rat). Plus a few whole fits that grow more "
                "than 32 leaves (n 70..110 distinct integer values, linear / block+noise / low-rank integer kernels, 36..55 clusters), judged "
                "in floating point with a relative tolerance 1e-8 (membership, gain = real increase, telescoping, score).")
    data = regen(ctx)
    ctx.do_prove()
    binary_status(ctx)
    nrand = 150 if ctx.tier == "quick" else 1500
    rs = np.random.RandomState(ctx.seed * 104729 + 8)
    states = [kl.gen_state(rs) for _ in range(nrand)]
    states += [kl.gen_state_realloc(rs) for _ in range(nrand // 2)]
    enum, full = enumerate_small(ctx, 200 if ctx.tier == "quick" else 0)
    ctx.exhaustive = False
    ctx.extra["enumerated_family"] = {"size": len(enum), "complete": full}
    states += enum
    # function-level correspondence of compute_all_splits on explicit (not necessarily realisable) stocks
    stocks = [kl.gen_stocks(rs) for _ in range(300 if ctx.tier == "quick" else 3000)]
    try:
        simpl = [kl.impl_cas(sk) for sk in stocks]
        souts = core.run_driver("Kauri", [kl.cas_line(sk) for sk in stocks])
        for sk, r, o in zip(stocks, simpl, souts):
            ctx.compared("compute_all_splits")
            if r != kl.parse_split(o):
                ctx.corr_break("compute_all_splits", {k: str(v) for k, v in sk.items()},
                               {"impl": [str(x) for x in r], "model": o})
    except core.DriverBuildError as e:
        ctx.proof["broken"].append({"theorem": "model build (Gen/KauriGains.lean or Model/Kauri.lean)", "reason": str(e)[-400:]})
    except Exception as e:
        ctx.corr_break("compute_all_splits", {}, {"impl raised": f"{type(e).__name__}: {e}"})
    if ctx.broken:
        # the tie or a proof no longer checks: intensify the failing-input search on realisable states
        states += [kl.gen_state_realloc(rs) for _ in range(6000)]
        states += [kl.gen_state(rs, nmax=9) for _ in range(3000)]
        ctx.notes.append("tie/proof broken: failing-input search intensified (9000 extra states)")
    impl, lines = [], []
    for st in states:
        try:
            impl.append(kl.impl_fbs(st, exact=True))
        except Exception as e:
            impl.append(e)
        lines.append(kl.fbs_line(st))
    try:
        outs = core.run_driver("Kauri", lines)
    except core.DriverBuildError as e:
        ctx.proof["broken"].append({"theorem": "model build (Gen/KauriGains.lean or Model/Kauri.lean)", "reason": str(e)[-400:]})
        outs = [None] * len(lines)
    how = "translator.pyx2py.load(exact=True).find_best_split(...) on the state; harness.kauri_lib.check_split_oracle"
    for st, r, o in zip(states, impl, outs):
        nadm = len(kl.admissible(st))
        ctx.case((st["leaf"], st["cluster"], st["Kmax"], st["X"].tobytes(), st["kernel"].tobytes(), st["explore"],
                  st["features"], st["min_leaf"]), nadm > 0,
                 {k: v for k, v in kl.state_json(st).items()})
        ctx.count("admissible>0" if nadm else "admissible=0")
        inp = kl.state_json(st)
        if isinstance(r, Exception):
            ctx.violation(f"find_best_split raised {type(r).__name__}: {r}", "find_best_split", inp, key="fbs:raise", how=how)
            continue
        kind = "none" if r[0] <= 0 else ("double_star" if r[2] >= st["ncl"] and r[3] >= st["ncl"] else
                                          "star" if max(r[2], r[3]) >= st["ncl"] else
                                          "switch" if st["cluster"][r[1]] in (r[2], r[3]) else "realloc")
        ctx.count("chosen:" + kind)
        if o is not None:
            m = kl.parse_split(o)
            ctx.compared("find_best_split")
            same = (r == m) if r[0] > 0 or m[0] > 0 else True
            if not same:
                ctx.corr_break("find_best_split", inp, {"impl": [str(x) for x in r], "model": [str(x) for x in m]})
        ok, msg, det = kl.check_split_oracle(st, r)
        if not ok:
            key = "fbs:gain-not-real" if "really" in msg else ("fbs:not-maximal" if "alternative" in msg else "fbs:inadmissible")
            ctx.violation(msg, "find_best_split", inp, expected=det, actual=[str(x) for x in r], key=key + ":" + kind, how=how)
    # whole fits: recorded gains telescope to J(final) - J(root), and the loop stops only for a stated reason
    fits(ctx, 25 if ctx.tier == "quick" else 200)
    hybrid_fits(ctx, 80 if ctx.tier == "quick" else 600)
    deep_fits(ctx, 2 if ctx.tier == "quick" else 12)
    return ctx.finish()


def gen_deep_case(rs):
    """data on which the greedy search keeps finding splits of positive gain far beyond 32 leaves: many samples with many
    distinct values, integer-valued (every kernel stock is then exact in floating point), many clusters allowed, no limits"""
    n = int(rs.randint(70, 111))
    d = int(rs.randint(1, 3))
    X = np.zeros((n, d))
    X[:, 0] = rs.permutation(n) - int(rs.randint(0, n))
    if rs.rand() < 0.3:
        X[:, 0] = np.floor(X[:, 0] / 2)          # pairs of exact ties
    if d > 1:
        X[:, 1] = rs.randint(0, 7, size=n)
    kind = int(rs.randint(3))
    if kind == 0:
        kern = X @ X.T                               # linear kernel
    elif kind == 1:
        grp = rs.randint(0, 45, size=n)              # block kernel of many small groups + symmetric integer noise (not PSD)
        N = rs.randint(-1, 2, size=(n, n))
        kern = (6 * (grp[:, None] == grp[None, :]) + N + N.T).astype(float)
        X[:, 0] = grp * 3 + rs.randint(0, 3, size=n)
    else:
        A = rs.randint(-2, 3, size=(n, 5))           # low-rank PSD + linear
        kern = (A @ A.T).astype(float) + X[:, :1] @ X[:, :1].T
    params = dict(max_clusters=int(rs.randint(36, 56)), max_depth=None, min_samples_leaf=1, min_samples_split=2,
                  max_features=None, max_leaves=[None, None, 64][rs.randint(3)], kernel="precomputed",
                  random_state=int(rs.randint(1000)))
    return X, kern, params


def deep_fits(ctx, nfits):
    """whole fits that grow MORE THAN 32 LEAVES (n 70..110, many clusters, no structural limit), judged in floating point with
    a tolerance (integer kernels: the stocks are exact, only divisions round) because the exact pipeline is too slow at that
    size: every sample in exactly one leaf at every step, recorded gain = real objective increase of the applied split, the next
    state is the split applied, root + sum of gains = objective of labels_ = score (harness.kauri_lib.traced_fit_errors)"""
    rs = np.random.RandomState(ctx.seed * 977 + 41)
    how = "harness.kauri_lib.run_traced_fit(X, kernel, params) ; harness.kauri_lib.traced_fit_errors(X, kernel, h)"
    for t in range(nfits):
        X, kern, params = gen_deep_case(rs)
        inp = {"X": X.tolist(), "kernel": kern.tolist(), "params": params}
        try:
            h = kl.run_traced_fit(X, kern, params, exact=False)
        except Exception as e:
            ctx.case(("deep-raise", X.tobytes(), kern.tobytes(), repr(sorted(params.items(), key=str))), False, None)
            ctx.violation(f"Kauri.fit raised {type(e).__name__}: {e} (deep tree)", "fit:deep", inp, key=f"fit:deep:raise:{type(e).__name__}", how=how)
            continue
        nleaves = len(set(h["model"].leaves_.tolist()))
        nnodes = h["model"].tree_.n_nodes
        ctx.case(("deep", X.tobytes(), kern.tobytes(), repr(sorted(params.items(), key=str))), nnodes > 2 * 32 - 1,
                 {"n": len(X), "params": params, "leaves": (nnodes + 1) // 2})
        ctx.compared("fit:deep")
        ctx.count("deep:leaves>32" if nnodes > 2 * 32 - 1 else "deep:leaves<=32")
        ctx.count("deep-step-states", len(h["calls"]))
        for key, msg in kl.traced_fit_errors(X, kern, h):
            ctx.violation(msg + f" (tree of {(nnodes + 1) // 2} leaves, leaves_ has {nleaves} ids)", "fit:deep", inp,
                          key="fit:deep:" + key, how=how)


def hybrid_fits(ctx, nfits):
    """the property quantifies over ALL intermediate tree states, not only those the greedy search reaches from the root:
    the first answers of find_best_split are scripted admissible splits of every kind (harness.kauri_lib.run_hybrid_fit), then
    the real search takes over and every one of its answers is judged by the brute-force oracle; its recorded gains must
    telescope to J(final) - J(state at the take-over)"""
    from . import c09
    rs = np.random.RandomState(ctx.seed * 131 + 17)
    how = "harness.kauri_lib.run_hybrid_fit(X, kernel, params, rs, prefix_len) ; harness.kauri_lib.check_split_oracle on every real step"
    for t in range(nfits):
        X, kern, params = c09.gen_hybrid_case(rs)
        plen = int(rs.randint(1, 6))
        inp = {"X": X.tolist(), "kernel": kern.tolist(), "params": params}
        try:
            h = kl.run_hybrid_fit(X, kern, params, rs, plen)
        except Exception as e:
            ctx.violation(f"Kauri.fit raised {type(e).__name__}: {e} (after scripted admissible splits)", "fit:hybrid", inp,
                          key="fit:hybrid:raise", how=how)
            continue
        inp["scripted_prefix"] = [[str(x) for x in b] for b in h["prefix"]]
        real = [(st, tup, errs) for st, tup, scripted, errs in h["calls"] if not scripted]
        ctx.case(("hybrid", X.tobytes(), kern.tobytes(), repr(sorted(params.items(), key=str)), repr(h["prefix"])),
                 any(tup[0] > 0 for _, tup, _ in real), None)
        ctx.compared("fit:hybrid")
        bad_state = False
        for st, tup, scripted, errs in h["calls"]:
            for e in errs:
                bad_state = True
                ctx.violation(f"find_best_split is called on an inconsistent tree state: {e}", "fit:hybrid", inp,
                              key="fit:bookkeeping", how=how)
        for st, tup, errs in real:
            ctx.count("hybrid-real-step-states")
            if tup[0] > 0:
                ctx.count("hybrid-chosen:" + kl.split_kind(st, tup[2], tup[3], tup[1]))
            if errs:
                continue
            ok, msg, det = kl.check_split_oracle(st, tup)
            if not ok:
                key = "fbs:gain-not-real" if "really" in msg else ("fbs:not-maximal" if "alternative" in msg else "fbs:inadmissible")
                ctx.violation(msg + " (state reached during Kauri.fit after a scripted prefix)", "find_best_split",
                              {**kl.state_json(st), "fit": inp}, expected=det, key=key + ":hybrid", how=how)
        if h["calls"] and not bad_state:
            msg = kl.stopped_early(h["model"], X, params, h["calls"][-1][1][0])
            if msg:
                ctx.violation(msg + " (run with a scripted prefix)", "fit:hybrid", inp, key="fit:stopped-early:hybrid", how=how)
        if real and not bad_state:
            base = kl.J(kern, kl.labels_of(real[0][0]))
            final = kl.J(kern, h["model"].labels_.tolist())
            tot = sum(tup[0] for _, tup, _ in real if tup[0] > 0)
            if tot != final - base:
                ctx.violation(f"sum of the gains recorded after the take-over {float(tot)} != J(final)-J(take-over state) = {float(final - base)}",
                              "fit:hybrid", inp, key="fit:telescope:hybrid", how=how)
            if Fraction(h["score"]) != final:
                ctx.violation(f"score {float(Fraction(h['score']))} != objective of labels_ {float(final)}", "fit:hybrid", inp,
                              key="fit:score:hybrid", how=how)


def fits(ctx, nfits):
    import gemclus.tree.kauri as K
    from gemclus.tree import Kauri
    rs = np.random.RandomState(ctx.seed * 31 + 3)
    mx = kl.translit(True)
    for t in range(nfits):
        n = rs.randint(3, 9)
        d = rs.randint(1, 4)
        X = rs.randint(0, 3, size=(n, d)).astype(float)
        A = rs.randint(-2, 3, size=(n, n))
        kern = (A + A.T).astype(float) if rs.rand() < 0.5 else (A @ A.T).astype(float)
        params = dict(max_clusters=int(rs.randint(1, 5)), max_depth=[None, 1, 2, 3][rs.randint(4)],
                      min_samples_leaf=int(rs.choice([1, 1, 2])), max_features=[None, 1, 2][rs.randint(3)],
                      max_leaves=[None, 2, 3, 4][rs.randint(4)], kernel="precomputed", random_state=int(rs.randint(1000)))
        params["min_samples_split"] = max(2, 2 * params["min_samples_leaf"], int(rs.choice([2, 2, 3, 4, 6])))
        calls = []

        def fbs(kernel, Xa, lte, Y, Z, ncl, Kmax, nl, ml, feats):
            s = mx.find_best_split(kl.to_q_array(kernel), Xa, lte, kl.to_q_array(Y), kl.to_q_array(Z), ncl, Kmax, nl, ml, feats)
            st = {"n": n, "d": d, "L": int(nl), "Kmax": int(Kmax), "X": Xa, "kernel": kernel,
                  "leaf": Z.argmax(0).tolist(), "cluster": Y[:, :nl].argmax(0).tolist(), "ncl": int(ncl),
                  "explore": [int(e) for e in lte], "features": [int(f) for f in feats], "min_leaf": int(ml)}
            calls.append((st, s))
            return s
        old = K.find_best_split, K.gemini_objective
        K.find_best_split = fbs
        K.gemini_objective = lambda y_pred, kernel: mx.gemini_objective(y_pred, kl.to_q_array(kernel))
        inp = {"X": X.tolist(), "kernel": kern.tolist(), "params": params}
        try:
            model = Kauri(**params).fit(X, kern)
            gains = [Fraction(g) for g in model.tree_.gains]
            labels = model.labels_.tolist()
            root = kl.J(kern, [0] * n)
            final = kl.J(kern, labels)
            ctx.case(("fit", X.tobytes(), kern.tobytes(), tuple(sorted((k, str(v)) for k, v in params.items()))),
                     len(gains) > 1, None)
            ctx.compared("fit:telescoping")
            if sum(gains) != final - root:
                ctx.violation(f"sum of recorded gains {float(sum(gains))} != J(final)-J(root) = {float(final - root)}",
                              "fit", inp, key="fit:telescope", how="Kauri(**params).fit(X, kernel) with the transliterated find_best_split")
            sc = Fraction(model.score(X, kern))
            if sc != final:
                ctx.violation(f"score {float(sc)} != objective of labels_ {float(final)}", "fit", inp, key="fit:score")
            # stopping: after the last call either gain <= 0, or a structural limit of the USER's configuration
            if calls:
                msg = kl.stopped_early(model, X, params, Fraction(calls[-1][1].gain))
                if msg:
                    ctx.violation(msg, "fit", inp, key="fit:stopped-early", how="Kauri(**params).fit(X, kernel) with the transliterated find_best_split")
            for st, s in calls:
                r = (Fraction(s.gain), int(s.leaf), int(s.left_target), int(s.right_target), int(s.feature), Fraction(float(s.threshold)))
                ok, msg, det = kl.check_split_oracle(st, r)
                ctx.count("fit-step-states")
                if not ok:
                    key = "fbs:gain-not-real" if "really" in msg else ("fbs:not-maximal" if "alternative" in msg else "fbs:inadmissible")
                    ctx.violation(msg + " (state reached during Kauri.fit)", "find_best_split", kl.state_json(st), expected=det, key=key + ":fit")
        except Exception as e:
            ctx.violation(f"Kauri.fit raised {type(e).__name__}: {e}", "fit", inp, key="fit:raise")
        finally:
            K.find_best_split, K.gemini_objective = old
