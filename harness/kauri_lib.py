"""Shared generators / runners / oracles for the KAURI properties (C08, C09, C19)."""
import itertools
from fractions import Fraction

import numpy as np

from . import core
from translator import pyx2py


def q(x):
    f = Fraction(x)
    return f"{f.numerator}/{f.denominator}"


def unq(s):
    a, b = s.split("/")
    return Fraction(int(a), int(b))


def to_q_array(a):
    out = np.empty(a.shape, dtype=object)
    for idx in np.ndindex(a.shape):
        v = a[idx]
        out[idx] = Fraction(int(v)) if float(v).is_integer() else Fraction(float(v))
    return out


_mods = {}


def translit(exact):
    if exact not in _mods:
        _mods[exact] = pyx2py.load(exact=exact)
    return _mods[exact]


# ------------------------------------------------------------------ tree states
def gen_state(rs, nmax=7, small=True):
    n = rs.randint(2, nmax + 1)
    d = rs.randint(1, 4)
    L = rs.randint(1, min(4, n) + 1)
    Kmax = rs.randint(1, 5)
    X = rs.randint(0, 3, size=(n, d)).astype(float)
    if rs.rand() < 0.15:
        X[:, 0] = 1.0  # constant feature
    A = rs.randint(-2, 3, size=(n, n))
    kern = (A + A.T).astype(float) if rs.rand() < 0.6 else (A @ A.T).astype(float)
    leaf = rs.randint(0, L, size=n)
    perm = rs.permutation(n)
    for l in range(L):
        leaf[perm[l]] = l
    ncl = rs.randint(1, min(L, Kmax) + 1)
    cl = rs.randint(0, ncl, size=L)
    pl = rs.permutation(L)
    for c in range(ncl):
        cl[pl[c]] = c
    expl = sorted(rs.choice(L, size=rs.randint(1, L + 1), replace=False).tolist())
    if rs.rand() < 0.5:
        rs.shuffle(expl)
    feats = rs.permutation(d)[:rs.randint(1, d + 1)].tolist()
    ml = int(rs.choice([1, 1, 2, 3]))
    return {"n": n, "d": d, "L": L, "Kmax": int(Kmax), "X": X, "kernel": kern, "leaf": leaf.tolist(),
            "cluster": cl.tolist(), "ncl": int(ncl), "explore": [int(e) for e in expl], "features": [int(f) for f in feats],
            "min_leaf": ml}


def gen_state_realloc(rs):
    """states in which reallocation (both children to two *other* existing clusters) is attractive and the
    top-2 bookkeeping matters: >= 4 clusters, a leaf that is not its whole cluster, block-structured kernel"""
    ncl = int(rs.choice([3, 4, 4, 5]))
    L = ncl + int(rs.randint(1, 3))
    n = int(rs.randint(L + 2, L + 6))
    G = ncl
    grp = rs.randint(0, G, size=n)
    d = int(rs.randint(1, 3))
    X = np.zeros((n, d))
    X[:, 0] = grp + (rs.randint(0, 2, size=n) if rs.rand() < 0.3 else 0)
    if d > 1:
        X[:, 1] = rs.randint(0, 3, size=n)
    same = (grp[:, None] == grp[None, :]).astype(int)
    N = rs.randint(-1, 2, size=(n, n))
    kern = (int(rs.choice([2, 3, 5])) * same + (N + N.T)).astype(float)
    leaf = rs.randint(0, L, size=n)
    perm = rs.permutation(n)
    for l in range(L):
        leaf[perm[l]] = l
    cl = rs.randint(0, ncl, size=L)
    pl = rs.permutation(L)
    for c in range(ncl):
        cl[pl[c]] = c
    Kmax = ncl + int(rs.choice([0, 0, 1, 2]))
    expl = list(range(L))
    if rs.rand() < 0.3:
        expl = sorted(rs.choice(L, size=rs.randint(1, L + 1), replace=False).tolist())
    feats = rs.permutation(d)[:rs.randint(1, d + 1)].tolist()
    return {"n": n, "d": d, "L": L, "Kmax": int(Kmax), "X": X, "kernel": kern, "leaf": leaf.tolist(),
            "cluster": cl.tolist(), "ncl": int(ncl), "explore": [int(e) for e in expl], "features": [int(f) for f in feats],
            "min_leaf": 1}


def state_arrays(st, extra_leaves=2):
    n, L = st["n"], st["L"]
    maxL = L + extra_leaves
    Z = np.zeros((maxL, n), dtype=np.int64)
    Z[np.array(st["leaf"]), np.arange(n)] = 1
    Y = np.zeros((st["Kmax"], maxL), dtype=np.int64)
    Y[np.array(st["cluster"]), np.arange(L)] = 1
    return Y, Z


def impl_fbs(st, exact=True):
    m = translit(exact)
    Y, Z = state_arrays(st)
    kern = to_q_array(st["kernel"]) if exact else st["kernel"]
    Yq, Zq = (to_q_array(Y), to_q_array(Z)) if exact else (Y, Z)
    s = m.find_best_split(kern, st["X"], np.array(st["explore"], dtype=np.int64), Yq, Zq, st["ncl"], st["Kmax"],
                          st["L"], st["min_leaf"], np.array(st["features"], dtype=np.intp))
    return (Fraction(s.gain), int(s.leaf), int(s.left_target), int(s.right_target), int(s.feature), Fraction(float(s.threshold)))


def fbs_line(st):
    n, d, L = st["n"], st["d"], st["L"]
    maxL = L + 2
    clusterOf = st["cluster"] + [0] * (maxL - L)
    parts = ["fbs", n, d] + [q(v) for v in st["kernel"].ravel()] + [q(v) for v in st["X"].ravel()]
    parts += [len(st["explore"])] + st["explore"] + st["leaf"] + [maxL] + clusterOf
    parts += [st["ncl"], st["Kmax"], L, st["min_leaf"], len(st["features"])] + st["features"]
    return " ".join(str(p) for p in parts)


def parse_split(line):
    t = line.split()
    return (unq(t[0]), int(t[1]), int(t[2]), int(t[3]), int(t[4]), unq(t[5]))


# ------------------------------------------------------------------ brute-force oracle (from the property text)
def J(kern, labels):
    """kernel-KMeans objective sum_k sigma(C_k x C_k)/|C_k|, exactly"""
    tot = Fraction(0)
    for v in set(labels):
        idx = [i for i, l in enumerate(labels) if l == v]
        s = sum(Fraction(int(kern[i, j])) if float(kern[i, j]).is_integer() else Fraction(float(kern[i, j]))
                for i in idx for j in idx)
        tot += s / len(idx)
    return tot


def labels_of(st):
    return [st["cluster"][l] for l in st["leaf"]]


def apply_split(st, leaf, feat, thr, lt, rt):
    lab = labels_of(st)
    for i in range(st["n"]):
        if st["leaf"][i] == leaf:
            lab[i] = lt if st["X"][i, feat] <= thr else rt
    return lab


def admissible(st):
    """every (leaf, feature, threshold, left target, right target) the property calls admissible"""
    out = []
    ncl, Kmax = st["ncl"], st["Kmax"]
    for leaf in st["explore"]:
        members = [i for i in range(st["n"]) if st["leaf"][i] == leaf]
        k = st["cluster"][leaf]
        csize = sum(1 for i in range(st["n"]) if st["cluster"][st["leaf"][i]] == k)
        whole = len(members) == csize
        for f in st["features"]:
            vals = sorted(set(st["X"][i, f] for i in members))
            for thr in vals[:-1]:
                nl = sum(1 for i in members if st["X"][i, f] <= thr)
                nr = len(members) - nl
                if nl < st["min_leaf"] or nr < st["min_leaf"]:
                    continue
                targets = []
                if ncl < Kmax:
                    targets += [(ncl, k), (k, ncl)]                       # star
                if ncl + 2 <= Kmax and not whole:
                    targets += [(ncl, ncl + 1)]                           # double star
                for kp in range(ncl):
                    if kp != k:
                        targets += [(kp, k), (k, kp)]                     # switch
                if not whole:
                    for a, b in itertools.permutations([c for c in range(ncl) if c != k], 2):
                        targets += [(a, b)]                               # reallocation
                for lt, rt in targets:
                    out.append((leaf, f, thr, lt, rt))
    return out


def check_split_oracle(st, split):
    """returns (ok, message, details) — property C08 on one state"""
    gain, leaf, lt, rt, feat, thr = split
    base = J(st["kernel"], labels_of(st))
    alts = admissible(st)
    best_alt, best_gain = None, Fraction(0)
    for a in alts:
        g = J(st["kernel"], apply_split(st, *a)) - base
        if g > best_gain:
            best_alt, best_gain = a, g
    if gain > 0:
        real = J(st["kernel"], apply_split(st, leaf, feat, float(thr), lt, rt)) - base
        if real != gain:
            return False, f"reported gain {float(gain):.6g} but the objective really changes by {float(real):.6g}", \
                {"reported": str(gain), "real": str(real), "split": [leaf, feat, float(thr), lt, rt]}
        if (leaf, feat, float(thr), lt, rt) not in alts:
            return False, "reported split is not admissible", {"split": [leaf, feat, float(thr), lt, rt]}
    if best_gain > max(gain, 0):
        return False, f"an admissible alternative gains {float(best_gain):.6g} > reported {float(gain):.6g}", \
            {"reported": str(gain), "better": [best_alt[0], best_alt[1], float(best_alt[2]), best_alt[3], best_alt[4]],
             "better_gain": str(best_gain)}
    return True, "", {}


def state_json(st):
    return {k: (v.tolist() if isinstance(v, np.ndarray) else v) for k, v in st.items()}


# ------------------------------------------------------------------ compute_all_splits on explicit stocks
def gen_stocks(rs):
    nc = int(rs.randint(1, 7))
    k = int(rs.randint(nc))
    n_leaf = int(rs.randint(2, 7))
    split = int(rs.randint(1, n_leaf))
    cs = [int(rs.randint(1, 8)) for _ in range(nc)]
    cs[k] = n_leaf + int(rs.choice([0, 1, 2, 5]))
    Kmax = nc + int(rs.choice([0, 0, 1, 2, 3]))
    r = lambda: Fraction(int(rs.randint(-12, 13)), int(rs.choice([1, 1, 2, 3])))
    best_gain = Fraction(int(rs.choice([0, 0, 0, 1, 3, 8])), 1)
    return {"best": [best_gain, 7, 1, 2, 0, Fraction(1, 2)], "sl": r(), "sr": r(), "lf": r(), "nc": nc,
            "slc": [r() for _ in range(nc)], "src": [r() for _ in range(nc)], "cs": cs, "gd": [r() for _ in range(nc)],
            "w": r(), "n_leaf": n_leaf, "Kmax": Kmax, "k": k, "leaf_id": int(rs.randint(5)), "split": split,
            "feat": 0, "thr": Fraction(int(rs.randint(-3, 4)), 2)}


def impl_cas(sk):
    m = translit(True)
    b = m.Split(sk["best"][0], sk["best"][1], sk["best"][2], sk["best"][3], sk["best"][4], sk["best"][5], False)
    nc = sk["nc"]
    gamma = np.empty((nc, nc), dtype=object)
    gamma[:] = Fraction(0)
    for i in range(nc):
        gamma[i, i] = sk["gd"][i]
    omega = np.empty((nc, 1), dtype=object)
    omega[:] = Fraction(0)
    omega[sk["k"], 0] = sk["w"]
    to = lambda l: np.array(l, dtype=object)
    m.compute_all_splits(b, sk["sl"], sk["sr"], sk["lf"], to(sk["slc"]), to(sk["src"]), to([Fraction(c) for c in sk["cs"]]),
                         gamma, omega, sk["n_leaf"], nc, sk["Kmax"], sk["k"], sk["leaf_id"], sk["split"], sk["feat"], sk["thr"])
    return (Fraction(b.gain), int(b.leaf), int(b.left_target), int(b.right_target), int(b.feature), Fraction(b.threshold))


def cas_line(sk):
    parts = ["cas", q(sk["best"][0])] + sk["best"][1:5] + [q(sk["best"][5]), q(sk["sl"]), q(sk["sr"]), q(sk["lf"]), sk["nc"]]
    parts += [q(v) for v in sk["slc"]] + [q(v) for v in sk["src"]] + sk["cs"] + [q(v) for v in sk["gd"]]
    parts += [q(sk["w"]), sk["n_leaf"], sk["Kmax"], sk["k"], sk["leaf_id"], sk["split"], sk["feat"], q(sk["thr"])]
    return " ".join(str(p) for p in parts)


# ------------------------------------------------------------------ hybrid fits: scripted prefix, then the real search
def split_kind(st, lt, rt, leaf):
    ncl = st["ncl"]
    if lt >= ncl and rt >= ncl:
        return "double_star"
    if max(lt, rt) >= ncl:
        return "star"
    return "switch" if st["cluster"][leaf] in (lt, rt) else "realloc"


def state_of_call(Xa, kernel, lte, Y, Z, ncl, Kmax, nl, ml, feats):
    """the tree state as find_best_split receives it"""
    n, d = Xa.shape
    return {"n": n, "d": d, "L": int(nl), "Kmax": int(Kmax), "X": Xa, "kernel": kernel,
            "leaf": np.asarray(Z).argmax(0).tolist(), "cluster": np.asarray(Y)[:, :nl].argmax(0).tolist(), "ncl": int(ncl),
            "explore": [int(e) for e in lte], "features": [int(f) for f in feats], "min_leaf": int(ml)}


def bookkeeping_errors(Y, Z, ncl, nl):
    """consistency of the arguments handed to find_best_split, from the property text: every sample sits in exactly one
    of the first n_leaves leaves, each of those leaves belongs to exactly one cluster, and the clusters in use are
    exactly 0 .. n_clusters-1"""
    Y = np.asarray(Y).astype(int)
    Z = np.asarray(Z).astype(int)
    bad = []
    if not (Z[:nl].sum(0) == 1).all() or Z[nl:].any():
        bad.append("a sample is not in exactly one of the first n_leaves leaves")
    if not (Y[:, :nl].sum(0) == 1).all() or Y[:, nl:].any():
        bad.append("a leaf does not belong to exactly one cluster")
    used = sorted(set(Y[:, :nl].argmax(0).tolist()))
    if used != list(range(int(ncl))):
        bad.append(f"n_clusters={int(ncl)} but the clusters in use are {used}")
    return bad


def run_hybrid_fit(X, kern, params, rs, prefix_len, exact=True):
    """real Kauri.fit whose first `prefix_len` answers of find_best_split are scripted (a random ADMISSIBLE split of a
    random kind, gain 1), the following ones computed by the transliterated current source.  Reaches the intermediate
    tree states the greedy search seldom visits (a cluster owning several leaves, double stars, reallocations).
    Returns dict(model, score, pred, prefix=[(gain, leaf, lt, rt, feat, thr)], draws=[features of the real steps],
                 calls=[(state, split tuple, scripted?, bookkeeping errors)])"""
    import gemclus.tree.kauri as K
    from gemclus.tree import Kauri
    mx = translit(exact)
    conv = to_q_array if exact else (lambda a: a)
    prefix, draws, calls = [], [], []

    def fbs(kernel, Xa, lte, Y, Z, ncl, Kmax, nl, ml, feats):
        st = state_of_call(Xa, kernel, lte, Y, Z, ncl, Kmax, nl, ml, feats)
        errs = bookkeeping_errors(Y, Z, ncl, nl)
        if len(prefix) < prefix_len and not draws:
            adm = admissible(st) if not errs else []
            if adm:
                kinds = {}
                for a in adm:
                    kinds.setdefault(split_kind(st, a[3], a[4], a[0]), []).append(a)
                names = sorted(kinds)
                # the kinds that need a cluster owning several leaves are rare: prefer them when they are possible
                w = np.array([{"double_star": 8.0, "realloc": 5.0, "switch": 3.0, "star": 2.0}[k] for k in names])
                pool = kinds[names[int(rs.choice(len(names), p=w / w.sum()))]]
                leaf, f, thr, lt, rt = pool[rs.randint(len(pool))]
                tup = (Fraction(1), int(leaf), int(lt), int(rt), int(f), Fraction(float(thr)))
                prefix.append(tup)
                calls.append((st, tup, True, errs))
                return mx.Split(Fraction(1) if exact else 1.0, int(leaf), int(lt), int(rt), int(f), float(thr), False)
        draws.append([int(f) for f in feats])
        s = mx.find_best_split(conv(kernel), Xa, lte, conv(Y), conv(Z), ncl, Kmax, nl, ml, feats)
        tup = (Fraction(s.gain), int(s.leaf), int(s.left_target), int(s.right_target), int(s.feature), Fraction(float(s.threshold)))
        calls.append((st, tup, False, errs))
        return s
    old = K.find_best_split, K.gemini_objective
    K.find_best_split = fbs
    K.gemini_objective = lambda y_pred, kernel: mx.gemini_objective(y_pred, conv(kernel))
    try:
        model = Kauri(**params).fit(X, kern)
        score = model.score(X, kern)
        pred = model.predict(X)
    finally:
        K.find_best_split, K.gemini_objective = old
    return {"model": model, "score": score, "pred": pred, "prefix": prefix, "draws": draws, "calls": calls}


def fith_line(X, kern, params, prefix, draws):
    n, d = X.shape
    maxDepth = n if params["max_depth"] is None else params["max_depth"]
    maxLeaves = n if params["max_leaves"] is None else params["max_leaves"]
    parts = ["fith", n, d] + [q(v) for v in kern.ravel()] + [q(v) for v in X.ravel()]
    parts += [params["max_clusters"], maxDepth, params["min_samples_split"], params["min_samples_leaf"], maxLeaves, len(prefix)]
    for (g, leaf, lt, rt, f, thr) in prefix:
        parts += [q(g), leaf, lt, rt, f, q(thr)]
    parts += [len(draws)]
    for dr in draws:
        parts += [len(dr)] + dr
    return " ".join(str(p) for p in parts)


def stopped_early(model, X, params, last_gain):
    """the loop of Kauri.fit may only end when the last answer of find_best_split had no positive gain, when the USER's leaf limit
    (max_leaves, or the number of samples) is reached, or when no leaf is left that may be explored (>= min_samples_split samples
    and above max_depth).  Returns a message when none of these holds for the fitted model."""
    if last_gain is None or not (last_gain > 0):
        return None
    n = len(X)
    t = model.tree_
    leaves = np.asarray(model.leaves_)
    ids = sorted(set(leaves.tolist()))
    maxl = params.get("max_leaves") or n
    if len(ids) >= maxl:
        return None
    maxd = params.get("max_depth")
    explorable = []
    for l in ids:
        members = np.where(leaves == l)[0]
        i = int(members[0])
        node, depth = 0, 0
        while t.children_left[node] != -1:
            node = t.children_left[node] if X[i, t.features[node]] <= t.thresholds[node] else t.children_right[node]
            depth += 1
        if len(members) >= params.get("min_samples_split", 2) and (maxd is None or depth < maxd):
            explorable.append((int(l), len(members), depth))
    if explorable:
        return (f"fitting stopped after a split of positive gain {float(last_gain):.6g} with {len(ids)} leaves (limit {maxl}) although the leaves "
                f"{explorable} (id, samples, depth) may still be explored")
    return None


# ------------------------------------------------------------------ deep trees (more leaves than any fixed block size), floating point
def Jf(kern, labels):
    """kernel-KMeans objective sum_k sigma(C_k x C_k)/|C_k| in floating point (vectorised; for the sizes at which the exact
    pipeline is too slow).  With an integer kernel every stock is exact, only the divisions round."""
    labels = np.asarray(labels)
    tot = 0.0
    for v in np.unique(labels):
        idx = np.flatnonzero(labels == v)
        tot += float(kern[np.ix_(idx, idx)].sum()) / len(idx)
    return tot


def run_traced_fit(X, kern, params, exact=False):
    """real Kauri.fit on the transliterated current find_best_split (floating point by default); at every call the part of
    the state the algorithm reads (first n_leaves rows of Z, the matching columns of Y) is copied.
    Returns dict(model, score, pred, calls=[dict(Y, Z, nl, ncl, split=(gain, leaf, lt, rt, feat, thr))])"""
    import gemclus.tree.kauri as K
    from gemclus.tree import Kauri
    mx = translit(exact)
    conv = to_q_array if exact else (lambda a: a)
    calls = []

    def fbs(kernel, Xa, lte, Y, Z, ncl, Kmax, nl, ml, feats):
        rec = {"Y": np.array(np.asarray(Y)[:, :nl]).astype(int), "Z": np.array(np.asarray(Z)[:nl]).astype(int), "nl": int(nl),
               "ncl": int(ncl), "explore": [int(e) for e in lte]}
        s = mx.find_best_split(conv(kernel), Xa, lte, conv(Y), conv(Z), ncl, Kmax, nl, ml, feats)
        rec["split"] = (s.gain, int(s.leaf), int(s.left_target), int(s.right_target), int(s.feature), float(s.threshold))
        calls.append(rec)
        return s
    old = K.find_best_split, K.gemini_objective
    K.find_best_split = fbs
    K.gemini_objective = lambda y_pred, kernel: mx.gemini_objective(y_pred, conv(kernel))
    try:
        model = Kauri(**params).fit(X, kern)
        score = model.score(X, kern)
        pred = model.predict(X)
    finally:
        K.find_best_split, K.gemini_objective = old
    return {"model": model, "score": score, "pred": pred, "calls": calls}


def traced_fit_errors(X, kern, h, rtol=1e-8):
    """C08 on a whole (possibly deep) fit, from the property text, in floating point with a relative tolerance:
    at every step every sample sits in exactly one leaf and every leaf in exactly one cluster; the gain of the chosen split
    is the increase of the objective obtained by applying that split (recomputed from the labels before / after); the state
    of the next step IS the state after that split; root score + sum of recorded gains = objective of labels_ = score.
    Returns [(key, message)]."""
    bad = []
    n = len(X)
    model = h["model"]
    states = []
    for t, c in enumerate(h["calls"]):
        memb = c["Z"].sum(0)
        if not (memb == 1).all():
            who = np.flatnonzero(memb != 1)
            bad.append(("membership", f"step {t} ({c['nl']} leaves): the samples {who[:8].tolist()}{'...' if len(who) > 8 else ''} sit in "
                                      f"{memb[who[:8]].tolist()} leaves instead of exactly one"))
            return bad
        if not (c["Y"].sum(0) == 1).all():
            bad.append(("leaf-cluster", f"step {t}: a leaf does not belong to exactly one cluster"))
            return bad
        leaf = c["Z"].argmax(0)
        states.append((leaf, c["Y"].argmax(0)[leaf]))
    final = np.asarray(model.labels_)
    for t, c in enumerate(h["calls"]):
        gain, lf, lt, rt, feat, thr = c["split"]
        gain = float(gain)
        if not gain > 0:
            continue
        leaf, lab = states[t]
        after = lab.copy()
        mem = np.flatnonzero(leaf == lf)
        after[mem] = np.where(X[mem, feat] <= thr, lt, rt)
        j0, j1 = Jf(kern, lab), Jf(kern, after)
        if abs((j1 - j0) - gain) > rtol * max(1.0, abs(j0), abs(j1)):
            bad.append(("gain-not-real", f"step {t} ({c['nl']} leaves): reported gain {gain:.9g} but applying the split (leaf {lf}, feature {feat} <= "
                                         f"{thr!r}, targets {lt}/{rt}) changes the objective by {j1 - j0:.9g}"))
            return bad
        nxt = states[t + 1][1] if t + 1 < len(states) else final
        if not np.array_equal(nxt, after):
            bad.append(("state-after-split", f"step {t} ({c['nl']} leaves): the clusters after the step differ from the chosen split applied to the "
                                             f"clusters before it on the samples {np.flatnonzero(nxt != after)[:8].tolist()}"))
            return bad
    root = Jf(kern, np.zeros(n, dtype=int))
    jfin = Jf(kern, final)
    tot = float(sum(float(g) for g in model.tree_.gains))
    if abs(root + tot - jfin) > rtol * max(1.0, abs(root), abs(jfin)):
        bad.append(("telescope", f"root score {root:.9g} + sum of recorded gains {tot:.9g} = {root + tot:.9g} != objective of labels_ {jfin:.9g}"))
    if abs(float(h["score"]) - jfin) > rtol * max(1.0, abs(jfin)):
        bad.append(("score", f"score {float(h['score']):.9g} != objective of labels_ {jfin:.9g}"))
    return bad
