"""Shared helpers for C06 / C07: building sparse estimators, instrumenting real fits and paths from OUTSIDE
(`gemclus.sparse._base_sparse.compute_val_score`, the instance's `_update_weights` / `_n_selected_features`, and
sklearn's `BaseOptimizer.update_params`), recording the trace the Lean path model consumes.

gemclus is imported lazily, so that `VERIF_REPO=/tmp/copy ./check C06` exercises a scratch copy.
"""
import contextlib
import warnings

import numpy as np

from . import core, fit_lib as fl

SPARSE = ["SparseLinearModel", "SparseLinearMMD", "SparseLinearMI", "SparseMLPModel", "SparseMLPMMD"]


class Budget(Exception):
    """private exception: the instrumented run used more `compute_val_score` calls than its budget"""


def is_mlp(name):
    return "MLP" in name


def skip_matrix(model):
    """the matrix whose rows `get_selection` reads"""
    return model.W_skip_ if hasattr(model, "W_skip_") else model.W_


# ------------------------------------------------------------------------------------------------ configurations
def gen_groups(rs, d):
    """None, a partial list, or a full partition (shuffled members) -> (groups, kind)"""
    r = rs.rand()
    if r < 0.34 or d < 2:
        return None, "none"
    if d >= 4 and rs.rand() < 0.2:
        # listings that LOOK like a contiguous run when only their ends are inspected (last - first == len - 1, or
        # max - min == len - 1 fails but the ends are close) although the members are scattered
        pats = [[[1, 0, 3]], [[0, 3, 2]], [[2, 0, 1, 3][:3]], [[1, 3, 2, 0][:3], [0]]]
        # as many groups as features although some groups hold several features (the others are empty)
        pats += [[[0, 1], [], [2], [3]][:d], [[0, 1], [2, 3], [], []]]
        if d == 5:
            pats += [[[0, 1], [2], [3, 4], [], []]]
        if d >= 6:
            pats += [[[0, 5, 2]], [[4, 1, 5]], [[2, 5, 0, 3]], [[0, 5, 2], [1, 3]], [[0, 1], [2], [3, 4], [5], [], []], [[0, 1], [], [], [3, 4]]]
        g = pats[rs.randint(len(pats))]
        flat = [i for grp in g for i in grp]
        if len(set(flat)) == len(flat) and max(flat) < d:
            return [list(map(int, grp)) for grp in g], ("partial-scattered" if all(len(grp) for grp in g) else "with-empty-groups")
    perm = [int(i) for i in rs.permutation(d)]
    if r < 0.67:
        # partial: one or two groups over a strict subset of the features
        k = int(rs.randint(1, d))            # number of covered features, 1..d-1
        cov = perm[:k]
        if k >= 3 and rs.rand() < 0.5:
            c = int(rs.randint(1, k))
            return [cov[:c], cov[c:]], "partial"
        return [cov], "partial"
    # full partition
    lab = rs.randint(0, max(1, rs.randint(1, d + 1)), size=d)
    gs = [[int(i) for i in np.where(lab == c)[0]] for c in np.unique(lab)]
    for g in gs:
        rs.shuffle(g)
    rs.shuffle(gs)
    return [list(map(int, g)) for g in gs], "full"


def gen_config(rs, want_path, quick=True, family=None):
    """one (estimator, constructor kwargs, data, affinity) configuration on tiny data, with penalties large enough
    for features to be really discarded"""
    name = family or SPARSE[rs.randint(len(SPARSE))]
    n = int(rs.randint(6, 13))
    d = int(rs.choice([2, 3, 3, 4, 4, 5, 6]))
    K = int(rs.randint(2, 4))
    X = fl.small_data(rs, n, d)
    if rs.rand() < 0.15:
        X[:, rs.randint(d)] = 0.0            # a constant-zero column: its gradient vanishes
    kw = dict(n_clusters=K, random_state=int(rs.randint(1000)),
              learning_rate=float(rs.choice([0.05, 0.1, 0.3, 0.5])),
              alpha=float(rs.choice([0.01, 0.05, 0.1, 0.2, 0.5, 1.0, 2.0, 5.0, 20.0] if want_path else [0.01, 0.5, 1.0, 2.0, 5.0, 10.0, 20.0, 50.0])),
              max_iter=int(rs.randint(2, 9)) if want_path else int(rs.randint(20, 51)),
              solver=str(rs.choice(["adam", "sgd"])),
              batch_size=[None, None, 2, 3, n - 1, n][rs.randint(6)])
    groups, gkind = gen_groups(rs, d)
    kw["groups"] = groups
    y = None
    if name in ("SparseLinearModel", "SparseMLPModel"):
        kw["gemini"] = str(rs.choice(fl.GEMINI_NAMES))
        kw["dynamic"] = bool(rs.rand() < 0.3)
    elif name in ("SparseLinearMMD", "SparseMLPMMD"):
        kw["ovo"] = bool(rs.randint(2))
        kw["kernel"] = str(rs.choice(["linear", "rbf", "precomputed"]))
        kw["dynamic"] = bool(rs.rand() < 0.3)
        if kw["kernel"] == "precomputed":
            A = rs.randn(n, n)
            y = A @ A.T / n
            if rs.rand() < 0.8:
                kw["dynamic"] = False        # (dynamic + precomputed: a warning, dynamic ignored)
    if is_mlp(name):
        kw["n_hidden_dim"] = int(rs.randint(1, 5))
        kw["M"] = float(rs.choice([0.0, 0.5, 1.0, 10.0]))
    return {"estimator": name, "kw": kw, "X": X, "y": y, "groups_kind": gkind}


def gen_path_args(rs, d):
    """path arguments incl. out-of-range values (which must fall back to the defaults with a warning)"""
    a = {}
    r = rs.rand()
    a["alpha_multiplier"] = float(rs.choice([1.5, 2.0, 3.0, 1.25])) if r < 0.75 else float(rs.choice([1.0, 0.5, -2.0, 1.05]))
    r = rs.rand()
    a["min_features"] = int(rs.choice([1, 1, 2, 2, 3])) if r < 0.78 else int(rs.choice([0, -1, d, d + 1, d - 1]))
    r = rs.rand()
    a["keep_threshold"] = float(rs.choice([0.9, 0.5, 0.0, 1.0, 0.99])) if r < 0.75 else float(rs.choice([-0.1, 1.5, 7.0]))
    a["early_stopping_factor"] = float(rs.choice([0.99, 0.9, 0.5, 1.0]))
    a["max_patience"] = int(rs.choice([1, 2, 3, 10]))
    a["restore_best_weights"] = bool(rs.rand() < 0.65)
    return a


def build(cfg):
    E = fl.estimators()
    return E[cfg["estimator"]](**cfg["kw"])


def cfg_json(cfg, path_args=None):
    out = {"estimator": cfg["estimator"], "params": dict(cfg["kw"]), "X": np.asarray(cfg["X"]).tolist(),
           "y": None if cfg["y"] is None else np.asarray(cfg["y"]).tolist()}
    if path_args is not None:
        out["path_args"] = dict(path_args)
    return out


# ------------------------------------------------------------------------------------------------ instrumentation
class Recorder:
    """What an instrumented fit / path run observed.

    calls   : one entry per `compute_val_score` call (score, l1, penalty, clf.alpha, selected count, selection, a copy
              of every weight of `_get_weights()`, number of `_update_weights` calls so far)
    updates : one entry per `_update_weights` call: weights before, after the optimiser step, after the proximal step,
              `alpha`, `optimiser_.learning_rate` read afterwards
    nsel    : every value `_n_selected_features()` returned to the caller (i.e. to `_path`)
    """

    def __init__(self):
        self.calls = []
        self.updates = []
        self.nsel = []
        self.n_updates = 0
        self.keep_updates = True
        self.max_updates_kept = 400


def _state(model):
    return [np.array(w, copy=True) for w in model._get_weights()]


@contextlib.contextmanager
def instrument(model, rec, budget_calls=None, identity_optimiser=False, inject_nan_at=None, on_call=None):
    """wrap everything from outside; `inject_nan_at=k` turns the score returned by the k-th `compute_val_score` call
    into nan (fault injection for the NaN rule of `_path`; the training itself is untouched)"""
    import gemclus.sparse._base_sparse as B
    from sklearn.neural_network import _stochastic_optimizers as so
    cls = type(model)
    orig_cvs = B.compute_val_score
    orig_up = so.BaseOptimizer.update_params
    post_opt = []

    def cvs(clf, X, y, batch_size, gemini_objective):
        out = orig_cvs(clf, X, y, batch_size, gemini_objective)
        if clf is model:
            k = len(rec.calls)
            score, l1 = out
            if inject_nan_at is not None and k == inject_nan_at:
                score = float("nan")
                out = (score, l1)
            rec.calls.append({"score": float(score), "l1": float(l1), "pen": float(cls._group_lasso_penalty(clf)),
                              "alpha": clf.alpha, "nsel": int(cls._n_selected_features(clf)),
                              "sel": [int(i) for i in cls.get_selection(clf)], "weights": _state(clf),
                              "updates": rec.n_updates})
            if on_call is not None:
                on_call(clf, rec.calls[-1])
            if budget_calls is not None and len(rec.calls) > budget_calls:
                raise Budget()
        return out

    def up(self, params, grads):
        r = None if identity_optimiser else orig_up(self, params, grads)
        post_opt.append([np.array(p, copy=True) for p in params])
        return r

    inner_uw = model._update_weights
    inner_ns = model._n_selected_features

    def uw(weights, gradients):
        before = [np.array(w, copy=True) for w in weights] if rec.keep_updates else None
        del post_opt[:]
        r = inner_uw(weights, gradients)
        rec.n_updates += 1
        if rec.keep_updates and len(rec.updates) < rec.max_updates_kept:
            rec.updates.append({"before": before, "post_opt": post_opt[-1] if post_opt else None,
                                "after": [np.array(w, copy=True) for w in weights],
                                "alpha": model.alpha, "lr": float(model.optimiser_.learning_rate),
                                "n_update_params_calls": len(post_opt), "index": rec.n_updates - 1})
        return r

    def ns():
        v = inner_ns()
        rec.nsel.append(int(v))
        return v

    B.compute_val_score = cvs
    so.BaseOptimizer.update_params = up
    model._update_weights = uw
    model._n_selected_features = ns
    try:
        yield rec
    finally:
        B.compute_val_score = orig_cvs
        so.BaseOptimizer.update_params = orig_up
        for a in ("_update_weights", "_n_selected_features"):
            try:
                delattr(model, a)
            except AttributeError:
                pass


def segment(calls):
    """split the `compute_val_score` calls of one `_path` run into (initial call, steps); a step starts with a call
    made with no `_update_weights` since the previous call (the validation at the start of the step) and continues
    with the epoch calls (each preceded by at least one update)"""
    if not calls:
        return None, []
    steps = []
    for prev, c in zip(calls, calls[1:]):
        if c["updates"] == prev["updates"]:
            steps.append({"val": c, "epochs": []})
        else:
            if not steps:
                # no separate validation of the initial fit was observed: the first call then serves as the initial score AND as the
                # validation that opens the first step (same weights, same kind of score); the oracles judge the run on that reading
                steps.append({"val": calls[0], "epochs": []})
            steps[-1]["epochs"].append(c)
    return calls[0], steps


def path_line(d, max_iter, alpha0, pa, dynamic, has_y, init, steps):
    """request line for Drivers/Path.lean (floats bit-exact)"""
    parts = ["path", d, max_iter, core.fhex(alpha0), core.fhex(pa["alpha_multiplier"]), int(pa["min_features"]),
             core.fhex(pa["keep_threshold"]), core.fhex(pa["early_stopping_factor"]), int(pa["max_patience"]),
             int(bool(pa["restore_best_weights"])), int(bool(dynamic)), int(bool(has_y)),
             core.fhex(init["score"]), init["nsel"], len(steps)]
    for s in steps:
        parts += [core.fhex(s["val"]["score"]), core.fhex(s["val"]["pen"]), len(s["epochs"])]
        for e in s["epochs"]:
            parts += [core.fhex(e["score"]), core.fhex(e["pen"]), int(e["score"] != e["score"])]
        last = s["epochs"][-1] if s["epochs"] else s["val"]
        parts += [last["nsel"], core.fhex(last["pen"])]
    return " ".join(str(p) for p in parts)


def parse_path_answer(ans):
    """-> dict(exit, best, final, clfalpha, warn, mult, keep, minf, steps, alphas, nfeat, geminis, pens, bestscore)"""
    head, alphas, nfeat, gem, pens, tail = ans.split(" | ")
    h = head.split()
    out = {"exit": h[1], "best": int(h[3]), "final": int(h[5]), "clfalpha": h[7], "warn": h[9], "mult": h[11],
           "keep": h[13], "minf": int(h[15]), "steps": [int(x) for x in h[17:]]}
    out["alphas"] = alphas.split()
    out["nfeat"] = [int(x) for x in nfeat.split()]
    out["geminis"] = gem.split()
    out["pens"] = pens.split()
    out["bestscore"] = tail.split()[1]
    return out


def hx(v):
    """hex token with the driver's canonical nan"""
    v = float(v)
    return "nan" if v != v else core.fhex(v)


def quiet_call(f, *a, **k):
    """run f with every warning recorded -> (result, [warning messages])"""
    with warnings.catch_warnings(record=True) as ws:
        warnings.simplefilter("always")
        with np.errstate(all="ignore"):
            r = f(*a, **k)
    return r, [str(w.message) for w in ws]
