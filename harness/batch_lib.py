"""Instrumentation, canonical forms and the property oracle for C10 (mini-batches).

The REAL code is run in-process.  What is observed:
  * every call of `model._batchify` (a generator): its arguments (data, full affinity) and every yielded pair, plus
    `_batchify.indices` at the time of the yield for mlcl-decorated models;
  * every result of `RandomState.permutation` (the RNG object handed out by `check_random_state` is a recording subclass);
  * every call of `BaseOptimizer.update_params` (one optimiser step), in one timeline with the yields;
  * for `path`: the (X_batch, affinity) pairs evaluated by `compute_val_score` (`predict_proba` argument and the
    affinity handed to a recording GEMINI instance without `return_grad`).
"""
import contextlib

import numpy as np

from . import core

MODELS = ("linear", "mlp", "sparse_linear", "sparse_mlp", "douglas", "categorical")
GEMINIS = ("mmd_ova", "kl_ova", "precomputed")


# ------------------------------------------------------------------ data
def make_data(rs, n, d, gem):
    """distinct rows (so that yielded rows identify their sample), integer-valued plus a distinct fractional tag"""
    while True:
        X = rs.randint(-3, 4, size=(n, d)).astype(float)
        X[:, 0] = rs.permutation(n) - (n // 2) + rs.randint(0, 2) * 0.5     # distinct first column
        if len({tuple(r) for r in X.tolist()}) == n:
            break
    y = None
    if gem == "precomputed":
        G = rs.randint(-2, 3, size=(n, max(2, d)))
        y = (G @ G.T).astype(float) + np.eye(n) * 2
        # all n*n entries distinct and the matrix NOT symmetric: a row-only / column-only / transposed gather is visible
        y = y + (np.arange(n * n).reshape(n, n) + 1) / float(4 * n * n)
        # the same numbers in another memory layout (column-major, or the transposed view of a C array): which entry is A[i, j] does not
        # depend on how the matrix is stored
        lay = int(rs.randint(3))
        if lay == 1:
            y = np.asfortranarray(y)
        elif lay == 2:
            y = np.ascontiguousarray(y.T).T
    return X, y


# ------------------------------------------------------------------ recording pieces
class RecRS(np.random.RandomState):
    """a RandomState that logs what `permutation` returns (same stream as the plain class)"""
    _log = None

    def permutation(self, x):
        p = super().permutation(x)
        if self._log is not None:
            self._log.append(("perm", np.array(p).tolist()))
        return p


class Runaway(Exception):
    """the run under test was stopped by the harness: far more epochs / batches / seconds than any run of the pinned code"""


class RecBatchify:
    """wraps (and replaces) `model._batchify`; forwards `.indices` of a decorated generator function"""

    def __init__(self, inner, log, max_calls=10 ** 9):
        self.inner = inner
        self.log = log
        self.max_calls = max_calls
        self.ncalls = 0
        self.__name__ = getattr(inner, "__name__", "_batchify")

    def __call__(self, X, affinity_matrix=None, random_state=None):
        call = {"X": X, "A": affinity_matrix, "yields": []}
        self.ncalls += 1
        if self.ncalls > self.max_calls:
            raise Runaway(f"more than {self.max_calls} epochs")
        self.log.append(("call", call))
        for xb, ab in self.inner(X, affinity_matrix, random_state):
            if len(call["yields"]) > 4 * len(X) + 10:
                raise Runaway(f"more than {4 * len(X) + 10} batches in one epoch")
            rec = getattr(self.inner, "indices", None)
            y = {"xb": np.array(xb, copy=True), "ab": None if ab is None else np.array(ab, copy=True),
                 "xb_obj_is_X": xb is X, "ab_obj_is_A": (ab is affinity_matrix) and ab is not None,
                 "rec": None if rec is None else list(rec)}
            call["yields"].append(y)
            self.log.append(("yield", y))
            yield xb, ab
        self.log.append(("end", call))

    @property
    def indices(self):
        return self.inner.indices


def make_gemini(gem, log):
    from gemclus.gemini import MMDGEMINI, KLGEMINI

    class RecMMD(MMDGEMINI):
        def __call__(self, y_pred, affinity, return_grad=False):
            if not return_grad:
                log.append(("val_aff", None if affinity is None else np.array(affinity, copy=True)))
            return super().__call__(y_pred, affinity, return_grad)

    class RecKL(KLGEMINI):
        def __call__(self, y_pred, affinity, return_grad=False):
            if not return_grad:
                log.append(("val_aff", None if affinity is None else np.array(affinity, copy=True)))
            return super().__call__(y_pred, affinity, return_grad)

    if gem == "precomputed":
        return RecMMD(kernel="precomputed")
    if gem == "mmd_ova":
        return RecMMD(kernel="linear")
    return RecKL()


def build_model(spec, log):
    kind, gem = spec["model"], spec["gemini"]
    common = dict(n_clusters=spec.get("n_clusters", 2), max_iter=spec["max_iter"], random_state=spec["seed"],
                  solver=spec.get("solver", "adam"), learning_rate=spec.get("lr", 1e-2))
    if spec.get("gemini_instance") or gem == "precomputed":
        common["gemini"] = make_gemini(gem, log)
    else:
        common["gemini"] = gem
    if kind != "categorical":
        common["batch_size"] = spec["bs"]
    if kind == "linear":
        from gemclus.linear import LinearModel
        return LinearModel(**common)
    if kind == "mlp":
        from gemclus.mlp import MLPModel
        return MLPModel(n_hidden_dim=3, **common)
    if kind == "sparse_linear":
        from gemclus.sparse import SparseLinearModel
        return SparseLinearModel(alpha=spec.get("alpha", 1e-2), **common)
    if kind == "sparse_mlp":
        from gemclus.sparse import SparseMLPModel
        return SparseMLPModel(n_hidden_dim=3, M=5, alpha=spec.get("alpha", 1e-2), **common)
    if kind == "douglas":
        from gemclus.tree import Douglas
        return Douglas(n_cuts=1, **common)
    if kind == "categorical":
        from gemclus.nonparametric import CategoricalModel
        return CategoricalModel(**common)
    raise ValueError(kind)


@contextlib.contextmanager
def instrument(log):
    import sklearn.neural_network._stochastic_optimizers as so
    import sklearn.utils
    import gemclus._base_gemini as bg
    import gemclus.sparse._base_sparse as bsp
    real_crs = sklearn.utils.check_random_state

    def crs(seed):
        if isinstance(seed, RecRS):
            return seed
        if seed is None or isinstance(seed, (int, np.integer)):
            r = RecRS(seed)
        else:
            r = real_crs(seed)
            return r
        r._log = log
        return r

    old_up = so.BaseOptimizer.update_params

    def up(self, params, grads):
        log.append(("update", None))
        return old_up(self, params, grads)

    saved = (bg.check_random_state, bsp.check_random_state)
    bg.check_random_state = crs
    bsp.check_random_state = crs
    so.BaseOptimizer.update_params = up
    try:
        yield
    finally:
        bg.check_random_state, bsp.check_random_state = saved
        so.BaseOptimizer.update_params = old_up


def run_real(spec, X, y):
    """one instrumented run of the real code; returns dict(log, model, error, path_out)"""
    import warnings
    import signal
    log = []
    out = {"log": log, "error": None, "model": None, "path_out": None}
    is_fit = spec.get("op", "fit") == "fit"
    max_calls = (max(spec["max_iter"], 0) + 3) if is_fit else 300

    def on_alarm(signum, frame):
        raise Runaway("wall-clock limit of 60 s for one tiny run")
    old_handler = signal.signal(signal.SIGALRM, on_alarm)
    signal.alarm(60)
    with instrument(log), warnings.catch_warnings():
        warnings.simplefilter("ignore")
        try:
            late_bs = "bs_at_decoration" in spec
            model = build_model({**spec, "bs": spec["bs_at_decoration"]} if late_bs else spec, log)
            if spec.get("decorated"):
                from gemclus.mlcl import add_mlcl_constraint
                model = add_mlcl_constraint(model, must_link=spec.get("ml") or None, cannot_link=spec.get("cl") or None)
            if late_bs:
                # the hyperparameter is changed AFTER the decoration (parameter search, refit): the batches follow the value that
                # the estimator holds when fit / path runs
                model.set_params(batch_size=spec["bs"])
            model._batchify = RecBatchify(model._batchify, log, max_calls)
            out["model"] = model
            if spec.get("op", "fit") == "fit":
                model.fit(X, y)
            else:
                pp = model.predict_proba

                def rec_pp(Xb):
                    log.append(("val_x", np.array(Xb, copy=True)))
                    return pp(Xb)
                model.predict_proba = rec_pp
                out["path_out"] = model.path(X, y, **spec.get("path_kw", {}))
        except Exception as e:          # classified by the caller
            out["error"] = e
        finally:
            signal.alarm(0)
            signal.signal(signal.SIGALRM, old_handler)
    return out


# ------------------------------------------------------------------ reading the log
def calls_of(log):
    return [c for k, c in log if k == "call"]


def perms_of(log):
    return [p for k, p in log if k == "perm"]


def n_updates(log):
    return sum(1 for k, _ in log if k == "update")


def rows_to_indices(X, xb):
    """indices of the rows of xb inside X (rows of X are distinct); None for a row that is not a row of X"""
    table = {tuple(r): i for i, r in enumerate(np.asarray(X).tolist())}
    xb = np.asarray(xb)
    if xb.ndim == 1:
        xb = xb.reshape(-1, 1)
    return [table.get(tuple(r)) for r in xb.tolist()]


def step_discipline(log):
    """every yielded batch is followed by exactly one optimiser step before the next yield / end of the epoch"""
    bad = []
    pending = None
    for k, v in log:
        if k == "yield":
            if pending is not None and pending != 1:
                bad.append(pending)
            pending = 0
        elif k == "update" and pending is not None:
            pending += 1
        elif k == "end":
            if pending is not None and pending != 1:
                bad.append(pending)
            pending = None
    return bad


# ------------------------------------------------------------------ the oracle (written from the property text)
def ceil_div(n, b):
    return -(-n // b)


def oracle_epoch(X, A_full, call, bs, categorical, decorated):
    """clauses of C10 for the yields of one `_batchify` call.  Returns [(key, message)]"""
    n = len(X)
    bad = []
    seen = []
    for k, yv in enumerate(call["yields"]):
        idx = rows_to_indices(X, yv["xb"])
        if any(i is None for i in idx):
            bad.append(("rows", f"batch {k} contains a row that is not a training sample"))
            continue
        if np.asarray(yv["xb"]).shape != (len(idx), X.shape[1]) or not np.array_equal(yv["xb"], X[idx]):
            bad.append(("rows", f"batch {k}: data block is not X[idx]"))
        if len(idx) == 0:
            bad.append(("empty", f"batch {k} is empty"))
        limit = n if (bs is None or categorical) else bs
        if len(idx) > limit:
            bad.append(("size", f"batch {k} holds {len(idx)} rows > batch_size {limit}"))
        if A_full is None:
            if yv["ab"] is not None:
                bad.append(("aff-none", f"batch {k}: an affinity block was delivered although the GEMINI has no affinity"))
        else:
            want = np.asarray(A_full)[idx][:, idx]
            if yv["ab"] is None or np.asarray(yv["ab"]).shape != want.shape or not np.array_equal(yv["ab"], want):
                bad.append(("aff-block", f"batch {k}: affinity block differs from A[idx][:, idx] (idx={idx})"))
        if decorated:
            if yv["rec"] != idx:
                bad.append(("mlcl-indices", f"batch {k}: _batchify.indices = {yv['rec']} but the batch holds samples {idx}"))
        seen.append(idx)
    flat = [i for b in seen for i in b]
    if sorted(flat) != list(range(n)):
        miss = sorted(set(range(n)) - set(flat))
        dup = sorted({i for i in flat if flat.count(i) > 1})
        bad.append(("partition", f"batches do not cover each sample exactly once (missing {miss}, repeated {dup})"))
    want_nb = 1 if (bs is None or categorical) else ceil_div(n, bs)
    if len(seen) != want_nb:
        bad.append(("count", f"{len(seen)} batches in the epoch, expected ceil({n}/{bs}) = {want_nb}"))
    if categorical and len(seen) == 1 and seen[0] != list(range(n)):
        bad.append(("categorical-full", f"nonparametric model did not receive the data in full/original order: {seen[0]}"))
    return bad, seen


# ------------------------------------------------------------------ Lean request lines
def tok(v):
    return core.fhex(v)


def opt(bs):
    return "None" if bs is None else str(int(bs))


def yield_line(kind, bs, X, A, perm):
    n, d = X.shape
    parts = ["yield", kind, opt(bs), n, d, 0 if A is None else 1, core.fl(X)]
    if A is not None:
        parts.append(core.fl(A))
    parts.append(" ".join(str(int(p)) for p in perm))
    return " ".join(str(p) for p in parts if str(p) != "")


def canon_yields(call, decorated):
    outs = []
    for yv in call["yields"]:
        xb = np.asarray(yv["xb"], dtype=float)
        s = "X " + (core.fl(xb) if xb.size else "-") + " A " + ("None" if yv["ab"] is None else (core.fl(yv["ab"]) or "-"))
        if decorated:
            s += " R " + (" ".join(str(int(i)) for i in yv["rec"]) if yv["rec"] else "-")
        outs.append(s)
    return " ; ".join(outs)


def fit_line(categorical, n, max_iter, bs, perms):
    parts = ["fit", 1 if categorical else 0, n, int(max_iter), opt(bs)]
    if not categorical:
        for p in perms:
            parts += [int(i) for i in p]
    return " ".join(str(p) for p in parts)


def canon_fit(epochs, steps, n_iter):
    def nats(l):
        return " ".join(str(int(i)) for i in l) if l else "-"
    eps = " || ".join(("|".join(nats(b) for b in ep) if ep else "-") for ep in epochs)
    return f"steps {steps} niter {n_iter} epochs {eps}"


def val_line(bs, X, y):
    n, d = X.shape
    return " ".join(str(p) for p in ["val", int(bs), n, d, core.fl(X), core.fl(y)])
