"""C16 helpers: representative values <-> Python objects, running the REAL validation of estimators / decorated
callables, fitted-model inspection, malformed-data catalogue, check_groups enumeration.

gemclus is imported lazily (inside functions) so that VERIF_REPO can redirect the import.
"""
import contextlib
import copy
import inspect
import io
import itertools
import signal
import warnings
from fractions import Fraction

import numpy as np

from . import fit_lib

# attributes that are set before the rejection and are not a fitted model (DESIGN section 12)
NOT_A_MODEL = {"n_features_in_", "groups_", "input_data_", "feature_names_in_"}
N_SAMPLES, N_FEATURES = 12, 3
SIZE_LIKE_LIMIT = 1000      # integers above this are not run through fit / a generator (resources), except seeds


# ------------------------------------------------------------------ values
def parse_value(tok):
    """driver token string -> value tuple"""
    t = tok.split()
    k = t[0]
    if k == "int":
        return ("int", int(t[1]))
    if k == "float":
        a, b = t[1].split("/")
        return ("float", Fraction(int(a), int(b)))
    if k in ("bool", "npbool"):
        return (k, t[1] != "0")
    if k == "str":
        return ("str", "" if t[1] == "-" else bytes.fromhex(t[1]).decode())
    if k in ("gemini", "est"):
        return (k, t[1])
    return (k,)


def value_token(v):
    k = v[0]
    if k == "int":
        return f"int {v[1]}"
    if k == "float":
        return f"float {v[1].numerator}/{v[1].denominator}"
    if k in ("bool", "npbool"):
        return f"{k} {1 if v[1] else 0}"
    if k == "str":
        return "str " + (v[1].encode().hex() if v[1] else "-")
    if k in ("gemini", "est"):
        return f"{k} {v[1]}"
    return k


def value_repr(v):
    if v[0] == "float":
        return f"float({float(v[1])!r})"
    return f"{v[0]}({v[1]!r})" if len(v) > 1 else v[0]


def is_huge(v, param):
    return v[0] == "int" and abs(v[1]) > SIZE_LIKE_LIMIT and param != "random_state"


# ------------------------------------------------------------------ data
def tiny_X(seed=0):
    rs = np.random.RandomState(1000 + seed)
    return np.abs(fit_lib.small_data(rs, N_SAMPLES, N_FEATURES)) + 0.05      # non-negative: chi2 kernels need it


def affinity_for(param, X):
    from sklearn.metrics import pairwise_distances
    return X @ X.T if "kernel" in param else pairwise_distances(X)


# ------------------------------------------------------------------ realisation of a value for (owner, param)
def _gemini_instance(cls):
    import gemclus.gemini as G
    return getattr(G, cls)()


def _estimator_instance(cls, fitted=False):
    est = fit_lib.estimators()[cls]
    if not fitted:
        return est()
    m = est(random_state=0) if cls == "Kauri" else est(max_iter=1, random_state=0)
    with quiet_io():
        m.fit(tiny_X())
    return m


WELL_FORMED = {
    ("draw_gmm", "loc"): [[0.0, 0.0], [3.0, 3.0]],
    ("draw_gmm", "scale"): [[[1.0, 0.0], [0.0, 1.0]], [[1.0, 0.0], [0.0, 1.0]]],
    ("draw_gmm", "pvals"): [0.5, 0.5],
    ("multivariate_student_t", "loc"): [0.0, 0.0],
    ("multivariate_student_t", "scale"): [[1.0, 0.0], [0.0, 1.0]],
    ("print_kauri_tree", "feature_names"): ["a", "b", "c"],
    ("*", "groups"): [[0, 1]],
    ("add_mlcl_constraint", "must_link"): [[0, 1]],
    ("add_mlcl_constraint", "cannot_link"): [[0, 2]],
}


def _deep_tuple(x):
    return tuple(_deep_tuple(e) for e in x) if isinstance(x, list) else x


def realise(v, owner, param):
    """-> list of (label, python object): concrete objects of the representative class, well-formed for the parameter
    whenever the class has well-formed members for it"""
    k = v[0]
    if k == "int":
        out = [("int", v[1])]
        if -2 ** 63 <= v[1] < 2 ** 63:
            out.append(("np.int64", np.int64(v[1])))
        return out
    if k == "float":
        x = float(v[1])
        assert Fraction(x) == v[1], "representative floats must be exactly representable"
        out = [("float", x), ("np.float64", np.float64(x))]
        if Fraction(float(np.float32(x))) == v[1]:
            out.append(("np.float32", np.float32(x)))
        return out
    if k == "posinf":
        return [("float", float("inf")), ("np.float64", np.inf)]
    if k == "neginf":
        return [("float", float("-inf"))]
    if k == "nan":
        return [("float", float("nan")), ("np.float64", np.float64("nan"))]
    if k == "bool":
        return [("bool", bool(v[1]))]
    if k == "npbool":
        return [("np.bool_", np.bool_(v[1]))]
    if k == "str":
        return [("str", v[1])]
    if k == "none":
        return [("None", None)]
    if k == "func":
        if param == "base_kernel":
            return [("lambda A,B: A@B.T", lambda A, B: A @ B.T)]
        if owner == "Kauri":
            return [("lambda a,b: a@b", lambda a, b: float(a @ b))]
        return [("lambda X: X@X.T", lambda X: X @ X.T)]
    if k == "dict":
        if param.endswith("_params"):
            return [("{}", {})]
        if param == "feature_names":      # as many entries as features, so that only the TYPE is wrong
            return [("{'x':'a','y':'b','z':'c'}", {"x": "a", "y": "b", "z": "c"})]
        return [("{'a': 1}", {"a": 1})]
    wf = WELL_FORMED.get((owner, param), WELL_FORMED.get(("*", param)))
    if k == "list":
        return [("list", copy.deepcopy(wf))] if wf is not None else [("list", [1, 2])]
    if k == "tuple":
        return [("tuple", _deep_tuple(wf))] if wf is not None else [("tuple", (1, 2))]
    if k == "ndarray":
        if param == "groups":     # well-formed content in the wrong container: a partial and a complete partition
            return [("ndarray [[0,1]]", np.array([[0, 1]])), ("ndarray [[0,1,2]]", np.array([[0, 1, 2]]))]
        if wf is not None:
            return [("ndarray", np.array(wf))]
        return [("ndarray(bool mask)", np.array([True, False, True]))]
    if k == "rs":
        return [("RandomState", np.random.RandomState(3))]
    if k == "gemini":
        return [(v[1] + "()", _gemini_instance(v[1]))]
    if k == "est":
        fitted = (owner, param) == ("print_kauri_tree", "kauri_tree")
        return [(v[1] + ("().fit(X)" if fitted else "()"), _estimator_instance(v[1], fitted))]
    if k == "object":
        return [("object()", object())]
    raise ValueError(f"unknown value {v}")


# ------------------------------------------------------------------ running things
class _Timeout(Exception):
    pass


@contextlib.contextmanager
def time_limit(seconds):
    def handler(signum, frame):
        raise _Timeout(f"no answer within {seconds}s")
    old = signal.signal(signal.SIGALRM, handler)
    signal.alarm(seconds)
    try:
        yield
    finally:
        signal.alarm(0)
        signal.signal(signal.SIGALRM, old)


@contextlib.contextmanager
def quiet_io():
    with warnings.catch_warnings():
        warnings.simplefilter("ignore")
        with contextlib.redirect_stdout(io.StringIO()):
            yield


def family(e):
    return isinstance(e, (ValueError, TypeError))


def learned_attrs(m):
    return sorted(a for a in vars(m) if a.endswith("_") and not a.startswith("_") and a not in NOT_A_MODEL)


def table_accepts_estimator(cls, param, obj):
    """scikit-learn's own validation of ONE parameter of a freshly built estimator (no fit)"""
    from sklearn.utils._param_validation import InvalidParameterError
    m = cls(**{param: obj})
    try:
        m._validate_params()
        return True
    except InvalidParameterError as e:
        if f"The {param!r} parameter of" not in str(e):
            raise AssertionError(f"another parameter was rejected: {e}")
        return False


def fit_estimator(owner, cls, param, obj, X, extra=None):
    """-> dict(outcome='ok'|'raise'|'timeout', exc, family, learned, model)"""
    params = [p for p in inspect.signature(cls.__init__).parameters if p != "self"]
    kw = dict(extra or {})
    kw[param] = obj
    if "max_iter" in params and param != "max_iter":
        kw.setdefault("max_iter", 1)
    if owner == "Kauri" and param == "min_samples_leaf" and isinstance(obj, (int, np.integer)) \
            and not isinstance(obj, (bool, np.bool_)) and obj >= 1:
        kw["min_samples_split"] = 2 * int(obj)       # keep the pair consistent: the combination is tested separately
    y = None
    if isinstance(obj, str) and obj == "precomputed" and param in ("kernel", "metric"):
        y = affinity_for(param, X)
    m = cls(**kw)
    try:
        with quiet_io(), time_limit(30):
            m.fit(X, y)
        return {"outcome": "ok", "exc": None, "family": None, "learned": learned_attrs(m), "model": m}
    except _Timeout as e:
        return {"outcome": "timeout", "exc": e, "family": False, "learned": learned_attrs(m), "model": m}
    except Exception as e:     # noqa
        return {"outcome": "raise", "exc": e, "family": family(e), "learned": learned_attrs(m), "model": m}


# ---- decorated callables
def functions():
    """owner -> (callable, base keyword arguments factory)"""
    import gemclus.gemini as G
    from gemclus import data as D
    from gemclus import add_mlcl_constraint
    from gemclus.tree import print_kauri_tree
    out = {}
    for c in ("KLGEMINI", "MI", "TVGEMINI", "HellingerGEMINI", "ChiSquareGEMINI", "MMDGEMINI", "WassersteinGEMINI"):
        out[c] = (getattr(G, c), lambda: {})
    out["draw_gmm"] = (D.draw_gmm, lambda: dict(n=5, loc=copy.deepcopy(WELL_FORMED[("draw_gmm", "loc")]),
                                                scale=copy.deepcopy(WELL_FORMED[("draw_gmm", "scale")]),
                                                pvals=[0.5, 0.5], random_state=0))
    out["multivariate_student_t"] = (D.multivariate_student_t, lambda: dict(n=5, loc=[0.0, 0.0], scale=np.eye(2), df=3,
                                                                            random_state=0))
    out["gstm"] = (D.gstm, lambda: dict(n=8, random_state=0))
    out["celeux_one"] = (D.celeux_one, lambda: dict(n=6, p=2, random_state=0))
    out["celeux_two"] = (D.celeux_two, lambda: dict(n=6, random_state=0))
    out["add_mlcl_constraint"] = (add_mlcl_constraint, lambda: dict(gemini_model=fit_lib.estimators()["LinearModel"](max_iter=1)))
    out["print_kauri_tree"] = (print_kauri_tree, lambda: dict(kauri_tree=_estimator_instance("Kauri", True)))
    return out


def decorator_table(fn):
    """the dict handed to @constraint_params (read from the wrapper's closure; for a class, from its __init__ or the
    first decorated parent __init__ it forwards to)"""
    targets = [fn]
    if inspect.isclass(fn):
        targets = [c.__dict__["__init__"] for c in fn.__mro__ if inspect.isfunction(c.__dict__.get("__init__"))]
    for target in targets:
        try:
            nl = inspect.getclosurevars(target).nonlocals
        except TypeError:
            continue
        if "parameter_constraints" in nl:
            return nl["parameter_constraints"], nl.get("func")
    return None, None


def table_accepts_function(fn, param, obj):
    """the decorator's own test of ONE argument, with the real constraint objects, without calling the function"""
    from gemclus._constraints import check_constraint
    table, _ = decorator_table(fn)
    if table is None:
        raise AssertionError("no @constraint_params table found")
    if param not in table:
        return True
    return any(check_constraint(c).is_satisfied_by(obj) for c in table[param])


def call_function(fn, base, param, obj):
    try:
        with quiet_io():
            kw = base()
    except Exception as e:     # noqa  -- the well-formed call itself cannot be built (e.g. a default Kauri no longer fits)
        return {"outcome": "base-failed", "exc": e, "family": family(e)}
    kw[param] = obj
    try:
        with quiet_io(), time_limit(30):
            fn(**kw)
        return {"outcome": "ok", "exc": None, "family": None}
    except _Timeout as e:
        return {"outcome": "timeout", "exc": e, "family": False}
    except Exception as e:     # noqa
        return {"outcome": "raise", "exc": e, "family": family(e)}


def rejected_by_decorator(exc, param):
    from gemclus._constraints import InvalidParameterError
    return isinstance(exc, InvalidParameterError) and str(exc).startswith(f"The {param} parameter of ")


# ------------------------------------------------------------------ malformed data
def malformed_catalogue(n_clusters=3):
    X = tiny_X()
    bad = lambda v: (lambda a: (a.__setitem__((1, 1), v), a)[1])(X.copy())
    return [
        ("nan", bad(np.nan)), ("inf", bad(np.inf)), ("-inf", bad(-np.inf)),
        ("strings", np.array([["a", "b", "c"]] * N_SAMPLES, dtype=object)),
        ("strings-list", [["a", "b", "c"]] * N_SAMPLES),
        ("1-D", X[:, 0].copy()), ("3-D", X.reshape(N_SAMPLES, N_FEATURES, 1).copy()),
        ("empty (0,3)", np.zeros((0, N_FEATURES))), ("no features (12,0)", np.zeros((N_SAMPLES, 0))),
        ("empty list", []), ("scalar", 3.0), ("None", None),
        ("ragged", [[1.0, 2.0, 3.0], [1.0, 2.0]] * 3),
        # text that SPELLS numbers is still non-numeric data
        ("numeric text (str dtype)", X.astype(str)), ("numeric text (bytes dtype)", X.astype("S")),
        ("numeric text (lists of str)", [[str(v) for v in r] for r in X.tolist()]),
        ("complex", X.astype(complex) + 1j),
        (f"n < n_clusters ({n_clusters - 1} x 3)", X[:n_clusters - 1].copy()),
    ]


# ------------------------------------------------------------------ check_groups
def group_lists(max_groups, max_len, lo=-1, hi=4):
    alphabet = list(range(lo, hi + 1))
    groups = [list(t) for l in range(max_len + 1) for t in itertools.product(alphabet, repeat=l)]
    for m in range(max_groups + 1):
        for combo in itertools.product(groups, repeat=m):
            yield [list(g) for g in combo]


def cg_line(d, groups):
    if groups is None:
        return f"cg {d} none"
    parts = ["cg", str(d), str(len(groups))]
    for g in groups:
        parts.append(str(len(g)))
        parts += [str(i) for i in g]
    return " ".join(parts)


def cg_real(groups, d):
    """canonical answer of the real check_groups in the driver's format"""
    from gemclus.sparse._base_sparse import check_groups
    arg = copy.deepcopy(groups)
    try:
        r = check_groups(arg, d)
    except Exception as e:     # noqa
        return "err " + f"{type(e).__name__}:{' '.join(str(e).split()[:3])}".replace(" ", "_"), e
    if r is None:
        return "ok none", None
    parts = [str(len(r))]
    for g in r:
        parts.append(str(len(g)))
        parts += [str(int(i)) for i in g]
    return "ok " + " ".join(parts), r


def cg_spec(groups, d):
    """documented behaviour: ('ok', completed partition) when every index is in range and no index repeats,
    ('reject',) otherwise; None -> ('ok', None)"""
    if groups is None:
        return ("ok", None)
    flat = [i for g in groups for i in g]
    if all(0 <= i < d for i in flat) and len(set(flat)) == len(flat):
        return ("ok", [list(g) for g in groups] + [[i] for i in range(d) if i not in flat])
    return ("reject",)


# ------------------------------------------------------------------ process isolation
class RecCtx:
    """stand-in for core.Ctx inside a forked worker: records the bookkeeping calls as JSON lines (flushed one by one, so
    that a crash of the interpreter — a segfault inside numpy / POT on an unvalidated hyperparameter — loses nothing)"""

    def __init__(self, ctx, fh):
        self.tier, self.seed, self.fh = ctx.tier, ctx.seed, fh

    def _w(self, *a):
        import json
        self.fh.write(json.dumps(a, default=str) + "\n")
        self.fh.flush()

    def mark(self, desc):
        self._w("mark", desc)

    def case(self, canon, nontrivial=True, sample=None):
        self._w("case", canon, nontrivial, sample)

    def compared(self, unit, n=1):
        self._w("compared", unit, n)

    def count(self, key, n=1):
        self._w("count", key, n)

    def corr_break(self, unit, case, detail):
        self._w("corr_break", unit, case, detail)

    def violation(self, what, unit, inp, expected=None, actual=None, key=None, how=None):
        self._w("violation", what, unit, inp, expected, actual, key, how)


def _tuplify(x):
    return tuple(_tuplify(e) for e in x) if isinstance(x, list) else x


def isolated(ctx, jobs, nproc=8):
    """jobs: [(name, fn, args)]; each `fn(rec_ctx, *args)` runs in a forked child (up to nproc at a time); the recorded
    bookkeeping is replayed on `ctx` in job order.  A child that dies is a finding of its own (the real code crashed the
    interpreter); a Python exception escaping `fn` is a harness error."""
    import json
    import os
    import tempfile
    import traceback
    from .core import MachineryError
    pending = list(enumerate(jobs))
    running, results = {}, {}
    tmpdir = tempfile.mkdtemp(prefix="c16_")

    def launch(idx, job):
        path = os.path.join(tmpdir, f"{idx}.jsonl")
        pid = os.fork()
        if pid == 0:
            code = 0
            try:
                with open(path, "w") as fh:
                    rc = RecCtx(ctx, fh)
                    try:
                        job[1](rc, *job[2])
                    except BaseException:      # noqa
                        rc._w("error", traceback.format_exc())
                        code = 3
            finally:
                os._exit(code)
        running[pid] = (idx, path)

    while pending or running:
        while pending and len(running) < nproc:
            launch(*pending.pop(0))
        pid, status = os.wait()
        if pid in running:
            idx, path = running.pop(pid)
            results[idx] = (path, status)
    for idx, job in enumerate(jobs):
        path, status = results[idx]
        last_mark = None
        for line in open(path):
            try:
                op = json.loads(line)
            except ValueError:
                continue       # a line cut by the crash
            k, a = op[0], op[1:]
            if k == "mark":
                last_mark = a[0]
            elif k == "case":
                ctx.case(_tuplify(a[0]), a[1], a[2])
            elif k == "compared":
                ctx.compared(a[0], a[1])
            elif k == "count":
                ctx.count(a[0], a[1])
            elif k == "corr_break":
                ctx.corr_break(a[0], a[1], a[2])
            elif k == "violation":
                ctx.violation(a[0], a[1], a[2], expected=a[3], actual=a[4], key=a[5], how=a[6])
            elif k == "error":
                raise MachineryError(f"worker {job[0]} raised:\n{a[0]}")
        os.unlink(path)
        if status != 0:
            sig = status & 0x7f
            ctx.violation(f"the interpreter died (status {status}, signal {sig}) while running: {last_mark}", "crash",
                          {"job": job[0], "last_call": last_mark}, expected="ValueError/TypeError or a completed call",
                          actual=f"process killed by signal {sig}" if sig else f"exit status {status >> 8}",
                          key=f"crash:{job[0]}", how=str(last_mark))
    os.rmdir(tmpdir)
