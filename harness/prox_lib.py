"""Shared generators / runners / oracles for the proximal operators (C05; reusable by C06, C07).

The real implementation is imported lazily (`impl()`), so that `VERIF_REPO=/tmp/copy ./check C05`
exercises a scratch copy (harness.main puts VERIF_REPO first on sys.path).

Oracles are written from the property statement, not from the code:
  * group lasso: closed form (norm <= alpha -> exactly 0, else radial shrink by alpha) and the
    strong-minimum inequality  f(z) >= f(z*) + 0.5*||z - z*||^2  against competitors;
  * HIER-PROX: feasibility, objective <= objective of feasible competitors (random pairs, best-theta
    pairs, a fine 1-D scan over b = ||beta|| of the reduced scalar problem refined by golden section),
    and the KKT residual of the reduced convex problem (with the bisection minimiser as witness).
"""
import itertools
import math
from fractions import Fraction

import numpy as np

from . import core


def impl():
    import importlib
    return importlib.import_module("gemclus.sparse._prox_grad")


# ------------------------------------------------------------------ request lines
def groups_tok(groups):
    return f"{len(groups)} " + " ".join(f"{len(g)} " + " ".join(str(int(i)) for i in g) if len(g) else "0" for g in groups)


def line_linear(W, al):
    d, h = W.shape
    return f"linear {d} {h} {core.fhex(al)} {core.fl(W)}"


def line_mlp(Ws, W1, al, M):
    d, k = Ws.shape
    h = W1.shape[1]
    return f"mlp {d} {k} {h} {core.fhex(al)} {core.fhex(M)} {core.fl(Ws)} {core.fl(W1)}"


def line_glinear(groups, W, al):
    d, h = W.shape
    return f"glinear {d} {h} {core.fhex(al)} {groups_tok(groups)} {core.fl(W)}"


def line_gmlp(groups, Ws, W1, al, M):
    d, k = Ws.shape
    h = W1.shape[1]
    return f"gmlp {d} {k} {h} {core.fhex(al)} {core.fhex(M)} {groups_tok(groups)} {core.fl(Ws)} {core.fl(W1)}"


def parse_floats(s):
    return np.array([core.unhex(x) for x in s.split()], dtype=float)


def parse_answer(ans):
    """-> (floats or None, idx list or None, token)"""
    if ans in ("uninit", "index-error", "bad-op"):
        return None, None, ans
    if " | " in ans:
        a, b = ans.split(" | ")
        return parse_floats(a), [int(x) for x in b.split()], None
    return parse_floats(ans), None, None


def compare(a, b, scale, rtol=1e-12):
    """entrywise |a-b| <= rtol*max(|a|,|b|,scale-floor); non-finite values must agree as tokens;
    exact zeros must agree (they are what feature selection observes).  returns (ok, bit_exact, detail)"""
    a = np.asarray(a, float).ravel()
    b = np.asarray(b, float).ravel()
    if a.shape != b.shape:
        return False, False, f"shape {a.shape} vs {b.shape}"
    bit = all(core.fhex(x) == core.fhex(y) or (x == 0 and y == 0) for x, y in zip(a, b))
    if bit:
        return True, True, ""
    for i, (x, y) in enumerate(zip(a, b)):
        if x != x or y != y:
            if not (x != x and y != y):
                return False, False, f"entry {i}: {x!r} vs {y!r}"
            continue
        if math.isinf(x) or math.isinf(y):
            if x != y:
                return False, False, f"entry {i}: {x!r} vs {y!r}"
            continue
        if (x == 0) != (y == 0):
            return False, False, f"entry {i}: zero pattern {x!r} vs {y!r}"
        if abs(x - y) > rtol * max(abs(x), abs(y), 1e-3 * scale):
            return False, False, f"entry {i}: {x!r} vs {y!r}"
    return True, False, ""


# ------------------------------------------------------------------ generators
def set_partitions(items):
    items = list(items)
    if not items:
        yield []
        return
    first, rest = items[0], items[1:]
    for p in set_partitions(rest):
        for i in range(len(p)):
            yield p[:i] + [[first] + p[i]] + p[i + 1:]
        yield [[first]] + p


ALL_PARTITIONS = {d: list(set_partitions(range(d))) for d in range(1, 5)}   # 1, 2, 5, 15


def shuffle_partition(rs, p):
    p = [list(g) for g in p]
    for g in p:
        rs.shuffle(g)
    rs.shuffle(p)
    return p


def random_partition(rs, d):
    lab = rs.randint(0, max(1, rs.randint(1, d + 1)), size=d)
    p = [[int(i) for i in np.where(lab == c)[0]] for c in np.unique(lab)]
    return shuffle_partition(rs, p)


DY_ALPHA = [0.0, 0.125, 0.25, 0.5, 1.0, 1.5, 2.0, 3.5, 8.0]
DY_M = [0.0, 0.25, 0.5, 1.0, 2.0, 10.0]
PYTH = [(3, 4), (5, 12), (8, 15), (6, 8)]


def dyadic(rs, shape, den=4, lo=-8, hi=8):
    return rs.randint(lo, hi + 1, size=shape) / float(den)


def gen_matrix(rs, d, h, kind):
    """kinds: dyadic, ties (|entries| drawn from two values), sparse (many zeros, zero rows), pyth (rows with
    exactly representable norm), normal (non-dyadic), tiny/huge scales"""
    if kind == "dyadic":
        return dyadic(rs, (d, h))
    if kind == "ties":
        vals = rs.choice([0.25, 0.5, 1.0, 1.5, 2.0], size=2)
        return rs.choice(vals, size=(d, h)) * rs.choice([-1.0, 1.0], size=(d, h))
    if kind == "sparse":
        W = dyadic(rs, (d, h)) * (rs.rand(d, h) < 0.5)
        for i in range(d):
            if rs.rand() < 0.35:
                W[i] = 0.0
        return W + 0.0
    if kind == "pyth":
        W = np.zeros((d, h))
        for i in range(d):
            a, b = PYTH[rs.randint(len(PYTH))]
            sc = rs.choice([0.25, 0.5, 1.0])
            if h == 1:
                W[i, 0] = a * sc * rs.choice([-1, 1])
            else:
                j1, j2 = rs.choice(h, size=2, replace=False)
                W[i, j1] = a * sc * rs.choice([-1, 1])
                W[i, j2] = b * sc * rs.choice([-1, 1])
        return W
    if kind == "normal":
        return rs.randn(d, h) * rs.choice([0.1, 1.0, 5.0])
    if kind == "negzero":
        W = dyadic(rs, (d, h))
        W[W == 0] = -0.0
        return W
    raise ValueError(kind)


KINDS = ["dyadic", "ties", "sparse", "pyth", "normal", "negzero"]
EXACT_KINDS = {"dyadic", "ties", "sparse", "pyth", "negzero"}     # sums of squares are exact in double


def ensure_nonzero_rows(rs, Ws, rows=None):
    Ws = Ws.copy()
    for i in (range(Ws.shape[0]) if rows is None else rows):
        if not Ws[i].any():
            Ws[i, rs.randint(Ws.shape[1])] = rs.choice([-1.0, 0.5, 2.0])
    return Ws


# ------------------------------------------------------------------ oracles (from the property statement)
def fnorm(x):
    return math.sqrt(math.fsum(float(t) * float(t) for t in np.ravel(x)))


def gl_obj(w, al, z):
    return 0.5 * math.fsum((float(a) - float(b)) ** 2 for a, b in zip(z, w)) + al * fnorm(z)


def gl_closed_form(w, al):
    n = fnorm(w)
    if n <= al:
        return np.zeros_like(w)
    return (1.0 - al / n) * w


def gl_exact_small(w, al):
    """exact decision of `||w|| <= alpha` over the rationals"""
    return sum(Fraction(float(t)) ** 2 for t in w) <= Fraction(float(al)) ** 2


def gl_oracle(rs, w, al, z, exact, ncomp):
    """w: stacked rows of one group (input), z: the implementation's output for that group.
    returns None or (message, witness dict)"""
    w = np.asarray(w, float).ravel()
    z = np.asarray(z, float).ravel()
    if not np.all(np.isfinite(z)):
        return "non-finite output", {"z": z.tolist()}
    n = fnorm(w)
    scale = max(1.0, n, al)
    small = gl_exact_small(w, al)
    near = abs(n - al) <= 1e-12 * scale
    if small and (exact or not near):
        if np.any(z != 0):
            return "group of norm <= alpha is not exactly zero", {"norm": n, "z": z.tolist()}
    if not near:
        want = gl_closed_form(w, al)
        if np.abs(z - want).max() > 1e-12 * scale:
            return "output differs from the closed-form minimiser (radial shrink by alpha)", {"want": want.tolist(), "z": z.tolist()}
    # strong minimum against competitors
    fz = gl_obj(w, al, z)
    comps = [np.zeros_like(w), w.copy(), gl_closed_form(w, al)]
    for t in np.linspace(0.0, 1.25, 26):
        comps.append(t * w)
    for _ in range(ncomp):
        r = rs.rand()
        if r < 0.3:
            comps.append(rs.randn(*w.shape) * scale)
        elif r < 0.6:
            comps.append(z + rs.randn(*w.shape) * 10.0 ** rs.randint(-6, 0))
        elif r < 0.8:
            c = z.copy()
            c[rs.randint(len(c))] = 0.0
            comps.append(c)
        else:
            comps.append(w * rs.rand() + rs.randn(*w.shape) * 0.01)
    for c in comps:
        lhs = gl_obj(w, al, c)
        rhs = fz + 0.5 * math.fsum((float(a) - float(b)) ** 2 for a, b in zip(c, z))
        if lhs < rhs - 1e-9 * max(1.0, abs(rhs)):
            return ("strong-minimum inequality f(z) >= f(z*) + 0.5||z - z*||^2 fails for a competitor",
                    {"competitor": c.tolist(), "f_competitor": lhs, "f_output": fz, "rhs": rhs})
    return None


def h_obj(v, u, al, beta, theta):
    return (0.5 * math.fsum((float(a) - float(b)) ** 2 for a, b in zip(beta, v))
            + 0.5 * math.fsum((float(a) - float(b)) ** 2 for a, b in zip(theta, u)) + al * fnorm(beta))


def h_reduced(v, u, al, M, b):
    """the pair that is best among those with ||beta|| = b, beta parallel to v"""
    nv = fnorm(v)
    beta = (b / nv) * v if nv > 0 else np.zeros_like(v)
    theta = np.clip(u, -M * b, M * b)
    return beta, theta


def h_gprime(nv, absu, al, M, b):
    return b - nv + al - M * math.fsum(max(a - M * b, 0.0) for a in absu)


def h_bopt(nv, absu, al, M):
    """minimiser of the reduced convex scalar problem by bisection on its (increasing) derivative"""
    if h_gprime(nv, absu, al, M, 0.0) >= 0:
        return 0.0
    lo, hi = 0.0, nv + M * sum(absu) + abs(al) + 1.0
    for _ in range(200):
        mid = 0.5 * (lo + hi)
        if h_gprime(nv, absu, al, M, mid) < 0:
            lo = mid
        else:
            hi = mid
    return 0.5 * (lo + hi)


def h_oracle(rs, v, u, al, M, beta, theta, ncomp, ngrid):
    """v,u: skip / hidden weights of one feature or flattened group; beta, theta: implementation output.
    returns (None, info) or ((message, witness), info)"""
    v = np.asarray(v, float).ravel()
    u = np.asarray(u, float).ravel()
    beta = np.asarray(beta, float).ravel()
    theta = np.asarray(theta, float).ravel()
    info = {}
    if not (np.all(np.isfinite(beta)) and np.all(np.isfinite(theta))):
        return ("non-finite output", {"beta": beta.tolist(), "theta": theta.tolist()}), info
    nv = fnorm(v)
    nb = fnorm(beta)
    absu = np.abs(u)
    scale = max(1.0, nv, float(absu.max()) if len(absu) else 0.0, al, M)
    if not nv > 0:
        # in scope only with u = 0, alpha > 0: the minimiser is (0, 0)
        if np.any(beta != 0) or np.any(theta != 0):
            return ("zero skip row with zero hidden row: output is not (0, 0)", {"beta": beta.tolist(), "theta": theta.tolist()}), info
        return None, info
    # feasibility
    if len(theta) and np.abs(theta).max() > M * nb + 1e-12 * scale:
        j = int(np.argmax(np.abs(theta)))
        return ("infeasible: |theta_j| > M * ||beta||", {"j": j, "theta_j": float(theta[j]), "M_norm_beta": M * nb}), info
    f_out = h_obj(v, u, al, beta, theta)
    tol = 1e-9 * max(1.0, abs(f_out))
    best = (f_out, None, None)

    def consider(bc, tc, tag):
        nonlocal best
        tc = np.clip(tc, -M * fnorm(bc), M * fnorm(bc))          # project on the feasible set
        f = h_obj(v, u, al, bc, tc)
        if f < best[0]:
            best = (f, (bc, tc), tag)

    # random feasible pairs, best-theta pairs, perturbations of the output
    for _ in range(ncomp):
        r = rs.rand()
        if r < 0.25:
            bc = rs.randn(*v.shape) * scale
        elif r < 0.5:
            bc = v * rs.rand() * 1.2 + rs.randn(*v.shape) * 0.05
        elif r < 0.75:
            bc = beta + rs.randn(*v.shape) * 10.0 ** rs.randint(-6, 0)
        else:
            bc = beta * (1 + rs.randn() * 10.0 ** rs.randint(-6, 0))
        consider(bc, u.copy(), "best-theta")
        consider(bc, u + rs.randn(*u.shape) * 0.1, "random-theta")
        consider(bc, theta.copy(), "output-theta")
    consider(np.zeros_like(v), np.zeros_like(u), "zero")
    consider(v.copy(), u.copy(), "unpenalised")
    # 1-D scan over b = ||beta|| (reduced scalar problem), refined by golden section (convex)
    bmax = nv + M * float(absu.sum()) + abs(al) + 1.0
    grid = np.linspace(0.0, bmax, ngrid)
    tt = np.maximum(absu[None, :] - M * grid[:, None], 0.0)
    gvals = 0.5 * (grid - nv) ** 2 + al * grid + 0.5 * (tt ** 2).sum(axis=1)
    i0 = int(np.argmin(gvals))
    lo, hi = grid[max(i0 - 1, 0)], grid[min(i0 + 1, ngrid - 1)]
    phi = (math.sqrt(5) - 1) / 2

    def g(b):
        return 0.5 * (b - nv) ** 2 + al * b + 0.5 * math.fsum(max(a - M * b, 0.0) ** 2 for a in absu)
    for _ in range(80):
        c1, c2 = hi - phi * (hi - lo), lo + phi * (hi - lo)
        if g(c1) < g(c2):
            hi = c2
        else:
            lo = c1
    for b in (grid[i0], 0.5 * (lo + hi), 0.0):
        bc, tc = h_reduced(v, u, al, M, b)
        consider(bc, tc, "scan")
    # bisection minimiser of the reduced problem
    bo = h_bopt(nv, absu, al, M)
    bc, tc = h_reduced(v, u, al, M, bo)
    consider(bc, tc, "bisection")
    info["b_opt"] = bo
    info["b_out"] = nb
    info["clipped"] = int((absu > M * bo).sum())
    info["gap"] = f_out - best[0]
    if best[0] < f_out - tol:
        return ("a feasible competitor has a strictly smaller objective",
                {"competitor_beta": best[1][0].tolist(), "competitor_theta": best[1][1].tolist(), "kind": best[2],
                 "objective_competitor": best[0], "objective_output": f_out}), info
    # KKT residual of the reduced problem + structure of the minimiser
    res = h_gprime(nv, absu, al, M, nb)
    kkt_bad = (abs(res) > 1e-7 * scale * (1 + len(u) * M * M)) if nb > 1e-9 * scale else (res < -1e-7 * scale * (1 + len(u) * M * M))
    dir_bad = np.abs(beta - (nb / nv) * v).max() > 1e-9 * scale
    th_bad = len(u) and np.abs(theta - np.clip(u, -M * nb, M * nb)).max() > 1e-9 * scale
    if kkt_bad or dir_bad or th_bad:
        what = "KKT residual of the reduced problem" if kkt_bad else ("beta is not parallel to v" if dir_bad else "theta is not the clipping of u at M*||beta||")
        return (what + " (witness: the bisection minimiser)",
                {"residual": res, "b_out": nb, "b_opt": bo, "competitor_beta": bc.tolist(), "competitor_theta": tc.tolist(),
                 "objective_competitor": h_obj(v, u, al, bc, tc), "objective_output": f_out}), info
    return None, info
