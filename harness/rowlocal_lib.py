"""Builders, index maps, request lines and oracles for C18 (predictions are per-sample functions of the fitted model)."""
import warnings

import numpy as np

from . import core, douglas_lib as dl, fit_lib as fl

LINEAR_FAMS = ["LinearModel", "LinearMMD", "LinearWasserstein", "RIM", "SparseLinearModel", "SparseLinearMMD", "SparseLinearMI"]
MLP_FAMS = ["MLPModel", "MLPMMD", "MLPWasserstein"]
SMLP_FAMS = ["SparseMLPModel", "SparseMLPMMD"]
FAMILIES = LINEAR_FAMS + ["KernelRIM"] + MLP_FAMS + SMLP_FAMS + ["Douglas", "Kauri"]
RTOL = 1e-12


def kind_of(fam):
    if fam in LINEAR_FAMS:
        return "linear"
    if fam in MLP_FAMS:
        return "mlp"
    if fam in SMLP_FAMS:
        return "smlp"
    return {"KernelRIM": "krim", "Douglas": "douglas", "Kauri": "kauri"}[fam]


# ------------------------------------------------------------------ KernelRIM base kernels
def gauss_callable(A, B):
    """a user-supplied kernel (row-wise, as the property presupposes)"""
    A, B = np.asarray(A, dtype=float), np.asarray(B, dtype=float)
    return np.exp(-0.5 * ((A[:, None, :] - B[None, :, :]) ** 2).sum(-1))


KERNELS = [("linear", None), ("rbf", None), ("rbf", {"gamma": 0.3}), ("poly", {"degree": 2, "coef0": 1.0}),
           ("polynomial", {"degree": 3, "gamma": 0.5, "coef0": 0.0}), ("laplacian", None), ("laplacian", {"gamma": 0.7}),
           ("sigmoid", {"gamma": 0.1, "coef0": 0.5}), ("cosine", None), ("chi2", {"gamma": 0.5}), ("additive_chi2", None),
           ("callable", None), ("callable", {"gamma": 2.0})]


def kernel_matrix(name, params, A, B):
    """the kernel of the property text, computed without the estimator"""
    from sklearn.metrics import pairwise_kernels
    if name == "callable":
        return gauss_callable(A, B)
    return pairwise_kernels(np.asarray(A, dtype=float), np.asarray(B, dtype=float), metric=name, **(params or {}))


def softmax_rows(Z):
    Z = np.asarray(Z, dtype=float)
    E = np.exp(Z - Z.max(axis=1, keepdims=True))
    return E / E.sum(axis=1, keepdims=True)


# ------------------------------------------------------------------ configurations
def gen_config(rs, fam):
    """JSON-able description of one fit: (params, data description)"""
    kind = kind_of(fam)
    n, d = int(rs.randint(5, 11)), int(rs.randint(1, 5))
    K = int(rs.randint(2, 5))
    scale = float(rs.choice([0.3, 1.0, 3.0]))
    desc = {"n": n, "d": d, "scale": scale, "data": str(rs.choice(["blobs", "blobs", "grid", "dup_rows"])), "data_seed": int(rs.randint(1 << 30))}
    if kind == "kauri":
        msl = int(rs.choice([1, 1, 2]))
        kw = dict(max_clusters=K, max_depth=[None, 1, 2, 3][rs.randint(4)], min_samples_leaf=msl,
                  min_samples_split=max(2, 2 * msl), max_features=[None, 1][rs.randint(2)],
                  max_leaves=[None, 3, 5][rs.randint(3)], kernel=str(rs.choice(["linear", "rbf", "laplacian"])),
                  random_state=int(rs.randint(1000)))
        desc["n"] = int(rs.randint(6, 15))
        return kw, desc
    kw = dict(n_clusters=K, max_iter=int(rs.randint(1, 4)), solver=str(rs.choice(["adam", "sgd"])), random_state=int(rs.randint(1000)),
              learning_rate=float(rs.choice([1e-3, 0.05, 0.5])), batch_size=[None, 2, n][rs.randint(3)])
    cls = fl.estimators()[fam]
    if fl.accepts(cls, "gemini"):
        kw["gemini"] = str(rs.choice(fl.GEMINI_NAMES))
    if fl.accepts(cls, "n_hidden_dim"):
        kw["n_hidden_dim"] = int(rs.randint(1, 6))
    if fl.accepts(cls, "reg"):
        kw["reg"] = float(rs.choice([0.0, 0.1, 1.0]))
    if fl.accepts(cls, "alpha"):
        kw["alpha"] = float(rs.choice([0.0, 0.01, 0.5, 5.0]))     # large alpha: whole features zeroed by the prox
    if fl.accepts(cls, "ovo"):
        kw["ovo"] = bool(rs.randint(2))
    if fl.accepts(cls, "dynamic"):
        kw["dynamic"] = bool(rs.rand() < 0.3)
    if fl.accepts(cls, "kernel") and kind != "kauri":
        kw["kernel"] = str(rs.choice(["linear", "rbf"]))
    if kind == "krim":
        name, params = KERNELS[rs.randint(len(KERNELS))]
        kw["base_kernel"], kw["base_kernel_params"] = name, params
        if name in ("chi2", "additive_chi2"):
            desc["nonneg"] = True
    if kind == "douglas":
        desc["d"] = d = int(rs.randint(1, 4))
        kw["n_cuts"] = int(rs.randint(1, 4))
        kw["temperature"] = float(rs.choice([0.05, 0.1, 1.0]))
        kw["learning_rate"] = float(rs.choice([1e-2, 0.1]))
        if rs.rand() < 0.4:
            mask = rs.rand(d) < 0.6
            if not mask.any():
                mask[rs.randint(d)] = True
            kw["feature_mask"] = [bool(b) for b in mask]
    return kw, desc


def make_data(desc):
    rs = np.random.RandomState(desc["data_seed"])
    n, d = desc["n"], desc["d"]
    if desc["data"] == "grid":
        X = rs.randint(-3, 4, size=(n, d)).astype(float) / 2.0 * desc["scale"]
    else:
        X = fl.small_data(rs, n, d, desc["scale"])
        if desc["data"] == "dup_rows":
            X[rs.randint(n)] = X[rs.randint(n)]
    Z = rs.randn(int(rs.randint(3, 9)), d) * desc["scale"] * 1.5           # new points
    if desc["data"] == "grid":
        Z = np.round(Z * 2) / 2.0                                            # new points ON the thresholds of a tree
    j = rs.randint(len(Z))
    Z[j] = X[rs.randint(n)]                                                 # one new row equal to a training row
    if desc.get("nonneg"):
        X, Z = np.abs(X), np.abs(Z)
    return np.ascontiguousarray(X), np.ascontiguousarray(Z)


def build(fam, kw, X):
    """fit the real estimator; for KernelRIM the calls of `_infer` during fit are recorded in `model._c18_calls`"""
    cls = fl.estimators()[fam]
    kw = dict(kw)
    if kw.get("base_kernel") == "callable":
        kw["base_kernel"] = gauss_callable
    if kw.get("feature_mask") is not None:
        kw["feature_mask"] = np.asarray(kw["feature_mask"], dtype=bool)
    model = cls(**kw)
    calls = []
    if fam == "KernelRIM":
        inner = model._infer          # bound method of the class

        def spy(Xb, retain=True):
            out = inner(Xb, retain)
            calls.append((np.array(Xb, dtype=float, copy=True), np.array(out, copy=True)))
            return out
        model._infer = spy
    with warnings.catch_warnings():
        warnings.simplefilter("ignore")
        try:
            model.fit(X)
        finally:
            if fam == "KernelRIM":
                del model._infer
    model._c18_calls = calls
    return model


# ------------------------------------------------------------------ index maps
def index_maps(rs, n):
    k = int(rs.randint(1, n + 1))
    out = [("full", np.arange(n)), ("perm", rs.permutation(n)), ("reversed", np.arange(n)[::-1].copy()),
           ("subset", np.sort(rs.choice(n, size=k, replace=False))), ("subset-shuffled", rs.choice(n, size=k, replace=False)),
           ("repeats", rs.randint(0, n, size=int(rs.randint(1, 2 * n + 1)))), ("single", np.array([rs.randint(n)])),
           ("single", np.array([rs.randint(n)])), ("single-repeated", np.full(int(rs.randint(2, 5)), rs.randint(n)))]
    return [(name, np.asarray(s, dtype=int)) for name, s in out]


def take(rs, A, sigma):
    """A[sigma] in one of several memory layouts (the layout must not matter either)"""
    B = A[sigma]
    lay = rs.randint(4)
    if lay == 1:
        return "fortran", np.asfortranarray(B)
    if lay == 2:
        big = np.zeros((len(B), 2 * A.shape[1] + 1))
        big[:, ::2][:, :A.shape[1]] = B
        return "strided", big[:, ::2][:, :A.shape[1]]
    if lay == 3:
        return "negstride", np.ascontiguousarray(B[::-1])[::-1]
    return "c", np.ascontiguousarray(B)


# ------------------------------------------------------------------ comparisons
def max_rel(a, b):
    a, b = np.asarray(a, dtype=float), np.asarray(b, dtype=float)
    if a.shape != b.shape:
        return np.inf
    if a.size == 0:
        return 0.0
    if not (np.isfinite(a).all() and np.isfinite(b).all()):
        return 0.0 if np.array_equal(a, b, equal_nan=True) else np.inf
    # below 1e-280 doubles run out of significant bits (denormals): measured against 1e-280 there
    den = np.maximum(np.maximum(np.abs(a), np.abs(b)), 1e-280)
    return float(np.max(np.abs(a - b) / den))


def cond_scale(model, kind, A):
    """size M of the largest intermediate quantity entering an exponential in the forward pass of `A` (sum of absolute
    products).  A rounding difference of a few ulps of M in a logit moves a probability by that much RELATIVELY, so the
    1e-12 tolerance of the comparisons is kept up to M = 100 and grows linearly beyond (saturated soft-maxes)."""
    raw = np.asarray(A, dtype=float)
    A = np.abs(raw)
    with warnings.catch_warnings():
        warnings.simplefilter("ignore")
        if kind == "linear":
            M = A @ np.abs(model.W_) + np.abs(model.b_)
        elif kind == "krim":
            M = np.abs(np.asarray(model._compute_kernel(raw), dtype=float)) @ np.abs(model.W_) + np.abs(model.b_)
        elif kind in ("mlp", "smlp"):
            M = (A @ np.abs(model.W1_) + np.abs(model.b1_)) @ np.abs(model.W2_) + np.abs(model.b2_)
            if kind == "smlp":
                M = M + A @ np.abs(model.W_skip_)
        elif kind == "douglas":
            m = 0.0
            for f, cuts in model.cut_points_list_:
                c = len(cuts)
                m = max(m, float((A[:, f].max() * (c + 1) + np.abs(cuts).sum()) / model.temperature))
            return max(m, float(np.abs(model.leaf_scores_).max()))
        else:
            return 0.0
    return float(np.max(M)) if np.size(M) else 0.0


def tol_for(M):
    """1e-12 up to M = 100, linear in M beyond, never above 1e-4 (weights that diverged during the few training steps)"""
    if not np.isfinite(M):
        return 1e-4
    return RTOL * min(max(1.0, M / 100.0), 1e8)


def tie_rows(P, rtol=RTOL):
    """rows whose two largest probabilities are within the tolerance: the arg-max may legitimately flip"""
    P = np.asarray(P, dtype=float)
    if P.shape[1] < 2:
        return np.zeros(len(P), dtype=bool)
    S = np.sort(P, axis=1)
    return (S[:, -1] - S[:, -2]) <= rtol * np.maximum(S[:, -1], 1e-300)


# ------------------------------------------------------------------ per-row oracle for the tree (from the property text)
def route_row(tree, x):
    node = 0
    while tree.children_left[node] != -1:
        node = tree.children_left[node] if x[tree.features[node]] <= tree.thresholds[node] else tree.children_right[node]
    return int(tree.target[node])


# ------------------------------------------------------------------ request lines
def line_linear(X, W, b):
    n, d = X.shape
    return f"infer linear {n} {d} {W.shape[1]} {core.fl(X)} {core.fl(W)} {core.fl(b)}"


def line_mlp(X, m):
    n, d = X.shape
    h, K = m.W2_.shape
    return f"infer mlp {n} {d} {h} {K} {core.fl(X)} {core.fl(m.W1_)} {core.fl(m.b1_)} {core.fl(m.W2_)} {core.fl(m.b2_)}"


def line_smlp(X, m):
    n, d = X.shape
    h, K = m.W2_.shape
    return (f"infer smlp {n} {d} {h} {K} {core.fl(X)} {core.fl(m.W1_)} {core.fl(m.b1_)} {core.fl(m.W2_)} {core.fl(m.b2_)} "
            f"{core.fl(m.W_skip_)}")


def line_douglas(X, m):
    cl = [(int(f), np.asarray(c, dtype=float)) for f, c in m.cut_points_list_]
    return dl.line_infer(float(m.temperature), np.asarray(X, dtype=float), cl, np.asarray(m.leaf_scores_, dtype=float))


def line_krim(Xnew, Xtrain, W, b):
    m, d = Xnew.shape
    n, K = W.shape
    return f"krim {m} {n} {d} {K} {core.fl(Xnew)} {core.fl(Xtrain)} {core.fl(W)} {core.fl(b)}"


def line_argmax(P):
    n, K = P.shape
    return f"argmax {n} {K} {core.fl(P)}"


def tree_tokens(left, right, target, feat, thr, n_nodes):
    opt_i = lambda v: "None" if v is None else str(int(v))
    opt_f = lambda v: "None" if v is None else core.fhex(float(v))
    N = len(left)
    return (f"{N} {n_nodes} {' '.join(str(int(v)) for v in left)} {' '.join(str(int(v)) for v in right)} "
            f"{' '.join(str(int(v)) for v in target)} {' '.join(opt_i(v) for v in feat)} {' '.join(opt_f(v) for v in thr)}")


def line_tree(X, tree, fuel=None):
    n, d = X.shape
    fuel = tree.n_nodes + 1 if fuel is None else fuel
    return (f"tree {n} {d} {core.fl(X)} "
            f"{tree_tokens(tree.children_left, tree.children_right, tree.target, tree.features, tree.thresholds, tree.n_nodes)} {fuel}")


def parse_tree(ans):
    t = ans.split()
    i = t.index("route")
    mask = None if t[1] == "error" else [int(v) for v in t[1:i]]
    return mask, [int(v) for v in t[i + 1:]]
