"""C12 helpers: attribute spies, deep fingerprints, estimator configurations and call histories on the REAL estimators.

Nothing here decides what a violation is; `props/c12.py` does.
"""
import contextlib
import copy
import hashlib
import inspect
import signal

import numpy as np

from . import fit_lib as fl

PSEUDO = "*"          # prefix of the translator's pseudo attributes (`*fitted*`, `*np.random*`)


# ------------------------------------------------------------------ time limit / Kauri on the current .pyx
class CallTimeout(Exception):
    pass


@contextlib.contextmanager
def time_limit(seconds):
    def handler(signum, frame):
        raise CallTimeout(f"no answer within {seconds} s")
    old = signal.signal(signal.SIGALRM, handler)
    signal.setitimer(signal.ITIMER_REAL, seconds)
    try:
        yield
    finally:
        signal.setitimer(signal.ITIMER_REAL, 0)
        signal.signal(signal.SIGALRM, old)


@contextlib.contextmanager
def kauri_on_current_source():
    """no Cython here: bind the transliteration of the CURRENT `_utils.pyx` instead of the stale compiled extension"""
    import gemclus.tree.kauri as KM
    from . import kauri_lib as kl
    mx = kl.translit(False)
    old = KM.find_best_split, KM.gemini_objective
    KM.find_best_split = lambda kernel, X, lte, Y, Z, *a: mx.find_best_split(np.asarray(kernel, dtype=float), X, lte, Y, Z, *a)
    KM.gemini_objective = lambda y_pred, kernel: mx.gemini_objective(y_pred, np.asarray(kernel, dtype=float))
    try:
        yield
    finally:
        KM.find_best_split, KM.gemini_objective = old


# ------------------------------------------------------------------ fingerprints
def _h(b):
    return hashlib.sha1(b).hexdigest()[:16]


def fp(v, seen=None, depth=0):
    """deep, bit-exact, order-stable fingerprint of a python value (arrays by bytes, objects by their __dict__)"""
    if seen is None:
        seen = set()
    if v is None or isinstance(v, (bool, int, str, bytes)):
        return ("s", type(v).__name__, repr(v))
    if isinstance(v, float):
        return ("f", v.hex())
    if isinstance(v, np.ndarray):
        if v.dtype == object:
            return ("ndo", v.shape, tuple(fp(x, seen, depth + 1) for x in v.ravel().tolist()))
        return ("nd", v.dtype.str, v.shape, _h(np.ascontiguousarray(v).tobytes()))
    if isinstance(v, np.generic):
        return ("g", v.dtype.str, _h(np.asarray(v).tobytes()))
    if id(v) in seen or depth > 8:
        return ("cycle",)
    seen = seen | {id(v)}
    if isinstance(v, (list, tuple)):
        return (type(v).__name__, tuple(fp(x, seen, depth + 1) for x in v))
    if isinstance(v, (set, frozenset)):
        return ("set", tuple(sorted(repr(fp(x, seen, depth + 1)) for x in v)))
    if isinstance(v, dict):
        return ("dict", tuple(sorted((repr(k), fp(x, seen, depth + 1)) for k, x in v.items())))
    if isinstance(v, np.random.RandomState):
        st = v.get_state()
        return ("rs", st[0], _h(st[1].tobytes()), st[2:])
    if inspect.isfunction(v) or inspect.ismethod(v) or inspect.isbuiltin(v) or inspect.isclass(v):
        return ("fn", getattr(v, "__module__", ""), getattr(v, "__qualname__", repr(v)))
    d = getattr(v, "__dict__", None)
    if d is not None:
        return ("obj", type(v).__module__, type(v).__qualname__, fp(dict(d), seen, depth + 1))
    return ("o", type(v).__qualname__, repr(v))


def arr_state(a):
    """what the caller can observe of an array he handed over"""
    if a is None:
        return None
    return (a.dtype.str, a.shape, a.strides, bool(a.flags.writeable), _h(a.tobytes()))


def inst_dict(est):
    return object.__getattribute__(est, "__dict__")


def state_fp(est):
    return {k: fp(v) for k, v in inst_dict(est).items()}


# ------------------------------------------------------------------ spies
_SPIES = {}


def spy_class(cls):
    """subclass logging every instance-attribute read / write / delete while `_log` is a list.
    Noise rule: only names present in the instance `__dict__` are logged as reads (methods, class attributes and
    failed `hasattr` probes are not instance state); dunder names and the spy's own `_log` are ignored."""
    if cls in _SPIES:
        return _SPIES[cls]

    class Spy(cls):
        def __getattribute__(self, name):
            if not (name.startswith("__") or name == "_log"):
                d = object.__getattribute__(self, "__dict__")
                log = d.get("_log")
                if log is not None and name in d:
                    log.append(("r", name))
            return super().__getattribute__(name)

        def __setattr__(self, name, value):
            if name != "_log":
                log = object.__getattribute__(self, "__dict__").get("_log")
                if log is not None:
                    log.append(("w", name))
            super().__setattr__(name, value)

        def __delattr__(self, name):
            log = object.__getattribute__(self, "__dict__").get("_log")
            if log is not None:
                log.append(("w", name))
            super().__delattr__(name)

    Spy.__name__ = cls.__name__
    Spy.__qualname__ = cls.__qualname__
    Spy.__module__ = cls.__module__
    Spy._spied = cls
    _SPIES[cls] = Spy
    return Spy


@contextlib.contextmanager
def recording(est):
    """record attribute events of one call on a spy instance; yields the event list"""
    d = inst_dict(est)
    log = []
    d["_log"] = log
    try:
        yield log
    finally:
        d.pop("_log", None)


def observed(log):
    """(reads before the first write of the same attribute, all written attributes)"""
    rbw, written = [], []
    for kind, name in log:
        if kind == "r":
            if name not in written and name not in rbw:
                rbw.append(name)
        elif name not in written:
            written.append(name)
    return rbw, written


def changed_attrs(before, after):
    return sorted(k for k in set(before) | set(after) if before.get(k) != after.get(k) and k != "_log")


# ------------------------------------------------------------------ live reflection (validation of the static tables)
def live_tables():
    """what the translator claims statically, read off the live classes"""
    out = {}
    for name, cls in fl.estimators().items():
        mro = [k.__name__ for k in cls.__mro__ if k.__module__.split(".")[0] == "gemclus"]
        hyper = [p for p in inspect.signature(cls.__init__).parameters][1:]
        owners = {}
        for m in dir(cls):
            if m.startswith("_") and m != "__init__":
                continue
            a = inspect.getattr_static(cls, m)
            f = getattr(a, "__func__", a)
            f = inspect.unwrap(f) if callable(f) else f
            if inspect.isfunction(f) and (f.__module__ or "").split(".")[0] == "gemclus":
                owners[m] = f.__qualname__.split(".")[0]
        out[name] = {"mro": mro, "hyper": hyper, "owners": owners}
    return out


# ------------------------------------------------------------------ configurations
def _callable_kernel(A, B=None):
    B = A if B is None else B
    return np.asarray(A) @ np.asarray(B).T + 1.0


def _callable_metric(a, b):
    return float(np.abs(a - b).sum())


def gen_config(rs, name, d):
    """small random valid hyperparameters for estimator `name` on d-feature data -> (kwargs, uses_precomputed)"""
    cls = fl.estimators()[name]
    kw = {"random_state": int(rs.randint(0, 1000))}
    pre = False
    if name == "Kauri":
        kw.update(max_clusters=int(rs.randint(2, 4)), max_depth=[None, 2, 3][rs.randint(3)],
                  min_samples_leaf=1, min_samples_split=2, max_features=[None, 1, 2][rs.randint(3)],
                  max_leaves=[None, 3][rs.randint(2)], kernel=["linear", "rbf", "precomputed"][rs.randint(3)])
        return kw, kw["kernel"] == "precomputed"
    kw.update(n_clusters=int(rs.randint(2, 4)), max_iter=int(rs.randint(1, 4)),
              learning_rate=float([0.01, 0.05, 0.1][rs.randint(3)]), solver=["adam", "sgd"][rs.randint(2)])
    if fl.accepts(cls, "batch_size"):
        kw["batch_size"] = [None, None, 4, 5, 64][rs.randint(5)]      # 64 exceeds every generated sample count (one batch; legal)
    if fl.accepts(cls, "gemini"):
        r = rs.rand()
        if r < 0.75:
            kw["gemini"] = fl.GEMINI_NAMES[rs.randint(len(fl.GEMINI_NAMES))]
        elif r < 0.85:
            kw["gemini"] = None
        else:
            import gemclus.gemini as G
            kw["gemini"] = [G.MMDGEMINI(kernel="rbf", kernel_params={"gamma": 0.5}), G.KLGEMINI(ovo=True),
                            G.WassersteinGEMINI(metric="cityblock")][rs.randint(3)]
    if fl.accepts(cls, "kernel"):
        r = rs.rand()
        if r < 0.25:
            kw["kernel"], pre = "precomputed", True
        elif r < 0.35:
            kw["kernel"] = _callable_kernel
        else:
            kw["kernel"] = ["linear", "rbf", "polynomial"][rs.randint(3)]
            if kw["kernel"] == "rbf" and rs.rand() < 0.5:
                kw["kernel_params"] = {"gamma": 0.3}
        kw["ovo"] = bool(rs.randint(2))
    if fl.accepts(cls, "metric"):
        r = rs.rand()
        if r < 0.25:
            kw["metric"], pre = "precomputed", True
        else:
            kw["metric"] = ["euclidean", "cityblock", "manhattan"][rs.randint(3)]
            if kw["metric"] == "euclidean" and rs.rand() < 0.4:
                kw["metric_params"] = {"squared": True}
        kw["ovo"] = bool(rs.randint(2))
    if fl.accepts(cls, "n_hidden_dim"):
        kw["n_hidden_dim"] = int(rs.randint(2, 5))
    if fl.accepts(cls, "reg"):
        kw["reg"] = float([0.0, 0.1, 1.0][rs.randint(3)])
    if fl.accepts(cls, "base_kernel"):
        kw["base_kernel"] = ["linear", "rbf", _callable_kernel][rs.randint(3)]
        if kw["base_kernel"] == "rbf" and rs.rand() < 0.5:
            kw["base_kernel_params"] = {"gamma": 0.2}
        kw["batch_size"] = None
    if fl.accepts(cls, "alpha"):
        kw["alpha"] = float([0.25, 0.5, 1.0][rs.randint(3)])
        kw["learning_rate"] = 0.05
        if fl.accepts(cls, "dynamic"):
            kw["dynamic"] = bool(rs.rand() < 0.35)
        if rs.rand() < 0.3 and d >= 3:
            kw["groups"] = [[0, 1]] if rs.rand() < 0.5 else [[0, 1], list(range(2, d))]
        if fl.accepts(cls, "M"):
            kw["M"] = float([1.0, 10.0][rs.randint(2)])
    if name == "Douglas":
        kw["n_cuts"] = int(rs.randint(1, 3))
        kw["temperature"] = float([0.1, 0.5][rs.randint(2)])
        if rs.rand() < 0.4:
            m = rs.rand(d) < 0.6
            m[rs.randint(d)] = True
            kw["feature_mask"] = m
    if kw.get("dynamic") and pre and rs.rand() < 0.4:
        # dynamic mode together with a user matrix is legal (documented: a warning, dynamic mode ignored for that call):
        # kept in most cases — the call must still leave the hyperparameter as it found it
        kw["dynamic"] = False
    return kw, pre


def gen_data(rs, n, d, layout):
    X = fl.small_data(rs, n, d)
    if layout == "fortran":
        X = np.asfortranarray(X)
    elif layout == "view":
        big = np.zeros((n, 2 * d))
        big[:, ::2] = X
        X = big[:, ::2]
    elif layout == "readonly":
        X.setflags(write=False)
    return X


def gen_affinity(rs, X, kind, layout):
    """a precomputed kernel (PSD) or distance matrix for X"""
    Xc = np.ascontiguousarray(X)
    if kind == "kernel":
        A = Xc @ Xc.T + 0.1 * np.eye(len(Xc))
    else:
        A = np.sqrt(((Xc[:, None, :] - Xc[None, :, :]) ** 2).sum(-1))
    A = np.ascontiguousarray(A)
    if layout == "readonly":
        A.setflags(write=False)
    return A


def build(name, kw, spy):
    cls = fl.estimators()[name]
    if spy:
        cls = spy_class(cls)
    return cls(**copy.copy(kw))


# ------------------------------------------------------------------ the model a call leaves behind
def model_signature(est, probe=None, probe_y=None):
    """everything a user can observe of the fitted model, bit for bit: every fitted attribute (trailing underscore,
    scikit-learn's convention), `_get_weights()`, the Kauri tree arrays, and the answers on a probe set"""
    d = inst_dict(est)
    sig = {k: fp(v) for k, v in d.items() if k.endswith("_") and not k.startswith("__")}
    if hasattr(est, "_get_weights"):
        try:
            sig["<weights>"] = fp([np.array(w) for w in est._get_weights()])
        except Exception as e:  # not fitted
            sig["<weights>"] = ("raise", type(e).__name__)
    if probe is not None:
        for m in ("predict", "predict_proba", "score"):
            if hasattr(est, m):
                try:
                    r = getattr(est, m)(probe, probe_y) if m == "score" else getattr(est, m)(probe)
                    sig["<" + m + ">"] = fp(np.asarray(r))
                except Exception as e:
                    sig["<" + m + ">"] = ("raise", type(e).__name__)
    return sig


def sig_diff(a, b):
    return sorted(k for k in set(a) | set(b) if a.get(k) != b.get(k))
