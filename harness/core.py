"""Core of the verification harness: Lean build/audit, driver I/O, verdict logic, evidence.

Every check is `./check Cxx --tier quick|thorough`.  Flow (DESIGN.md section 2.1):
  1. regenerate translated Lean units from /repo's current sources;
  2. re-check the property's theorems (lake build + axiom audit + forbidden-token grep);
  3. correspondence: real implementation vs executable Lean model on generated inputs;
  4. independent property oracles on the same inputs (the failing-input search);
  5. verdict: VIOLATION with a concrete replay, or `no-failing-input-found` naming what broke.
Exit codes: 0 held / only known findings, 1 violation, 2 machinery error.
"""
import fcntl
import hashlib
import json
import math
import os
import random
import re
import struct
import subprocess
import sys
import time
import traceback

VERIF = os.path.dirname(os.path.dirname(os.path.abspath(__file__)))
LEAN = os.path.join(VERIF, "lean")
REPO = os.environ.get("VERIF_REPO", "/repo")
ALLOWED_AXIOMS = {"propext", "Classical.choice", "Quot.sound"}
FORBIDDEN = re.compile(r"\b(sorry|admit|native_decide|bv_decide|implemented_by)\b|^\s*axiom\s|\bunsafe\s|maxHeartbeats\s+0\b")

os.environ.setdefault("PYTHONHASHSEED", "0")
for _v in ("OMP_NUM_THREADS", "OPENBLAS_NUM_THREADS", "MKL_NUM_THREADS"):
    os.environ.setdefault(_v, "1")
os.environ["GEMCLUS_VERIF"] = "1"


class MachineryError(Exception):
    pass


# ---------------------------------------------------------------- float <-> hex
def fhex(x):
    x = float(x)
    if x != x:
        return "7ff8000000000000"
    return struct.pack(">d", x).hex()


def unhex(s):
    if s == "nan":
        return float("nan")
    return struct.unpack(">d", bytes.fromhex(s))[0]


def fl(xs):
    """flatten a numpy array / nested list to hex tokens"""
    import numpy as np
    return " ".join(fhex(v) for v in np.asarray(xs, dtype=float).ravel())


def close(a, b, rtol=1e-9, atol=1e-12):
    if a != a or b != b:
        return (a != a) and (b != b)
    if math.isinf(a) or math.isinf(b):
        return a == b
    return abs(a - b) <= atol + rtol * max(1.0, abs(a), abs(b))


def close_vec(a, b, rtol=1e-8, atol=1e-12):
    """entrywise comparison relative to the largest magnitude of the vector (gradients)"""
    if len(a) != len(b):
        return False
    scale = max([1e-300] + [abs(x) for x in list(a) + list(b) if x == x and not math.isinf(x)])
    for x, y in zip(a, b):
        if x != x or y != y:
            if not ((x != x) and (y != y)):
                return False
            continue
        if math.isinf(x) or math.isinf(y):
            if x != y:
                return False
            continue
        if abs(x - y) > atol + rtol * max(scale, 1.0 if scale > 1 else scale):
            return False
    return True


# ---------------------------------------------------------------- Lean
_lock_fh = None


def _lake_lock():
    global _lock_fh
    os.makedirs(os.path.join(LEAN, ".lake"), exist_ok=True)
    _lock_fh = open(os.path.join(LEAN, ".lake", "verif.lock"), "w")
    fcntl.flock(_lock_fh, fcntl.LOCK_EX)


def _lake_unlock():
    global _lock_fh
    if _lock_fh:
        fcntl.flock(_lock_fh, fcntl.LOCK_UN)
        _lock_fh.close()
        _lock_fh = None


def lake_build(targets, timeout=3000):
    """returns (ok, output)"""
    _lake_lock()
    try:
        p = subprocess.run(["lake", "build"] + list(targets), cwd=LEAN, capture_output=True, text=True,
                           timeout=timeout)
        return p.returncode == 0, p.stdout + p.stderr
    finally:
        _lake_unlock()


def lean_run(path, stdin_text=None, timeout=3000, run=True):
    """`lake env lean [--run] path`; no lock needed (read-only on .olean files)"""
    cmd = ["lake", "env", "lean"] + (["--run"] if run else []) + [path]
    p = subprocess.run(cmd, cwd=LEAN, input=stdin_text, capture_output=True, text=True, timeout=timeout)
    return p.returncode, p.stdout, p.stderr


def strip_lean_comments(src):
    # remove /- ... -/ (nested) and -- ... comments
    out = []
    i, depth, n = 0, 0, len(src)
    while i < n:
        if src.startswith("/-", i):
            depth += 1
            i += 2
        elif depth and src.startswith("-/", i):
            depth -= 1
            i += 2
        elif depth:
            if src[i] == "\n":
                out.append("\n")
            i += 1
        elif src.startswith("--", i):
            while i < n and src[i] != "\n":
                i += 1
        else:
            out.append(src[i])
            i += 1
    return "".join(out)


def import_closure(modules):
    """GemVerif modules reachable from `modules` through `import GemVerif.…` lines"""
    seen, todo = set(), list(modules)
    while todo:
        m = todo.pop()
        if m in seen:
            continue
        seen.add(m)
        p = os.path.join(LEAN, m.replace(".", "/") + ".lean")
        if not os.path.exists(p):
            continue
        for line in open(p):
            mm = re.match(r"\s*import\s+(GemVerif\.[\w\.]+)", line)
            if mm:
                todo.append(mm.group(1))
    return sorted(seen)


def grep_forbidden(modules=None):
    """forbidden tokens (comments discarded) in the files the given modules depend on (whole tree when None)"""
    hits = []
    if modules is None:
        paths = [os.path.join(r, f) for r, _, fs in os.walk(LEAN) if ".lake" not in r for f in fs if f.endswith(".lean")]
    else:
        paths = [os.path.join(LEAN, m.replace(".", "/") + ".lean") for m in import_closure(modules)]
    for p in paths:
        if not os.path.exists(p):
            continue
        for ln, line in enumerate(strip_lean_comments(open(p).read()).split("\n"), 1):
            if FORBIDDEN.search(line):
                hits.append(f"{os.path.relpath(p, LEAN)}:{ln}: {line.strip()}")
    return hits


def theorems_of(lean_file):
    """names (with namespace) of every `theorem` in a Props file"""
    src = strip_lean_comments(open(lean_file).read())
    ns = []
    names = []
    for line in src.split("\n"):
        m = re.match(r"\s*namespace\s+(\S+)", line)
        if m:
            ns.append(m.group(1))
            continue
        m = re.match(r"\s*end\s+(\S+)", line)
        if m and ns and ns[-1] == m.group(1):
            ns.pop()
            continue
        m = re.match(r"\s*(?:@\[[^\]]*\]\s*)?(?:private\s+|protected\s+)?theorem\s+(\S+)", line)
        if m:
            names.append(".".join(ns + [m.group(1)]))
    return names


def write_if_changed(path, text):
    os.makedirs(os.path.dirname(path), exist_ok=True)
    if os.path.exists(path) and open(path).read() == text:
        return False
    with open(path, "w") as f:
        f.write(text)
    return True


# companion theorem files of a property (integrated ones only; Props/ may hold files still being written)
COMPANIONS = {"C01": ["C02Fast", "C01Gen", "C01WassGen"], "C13": ["C02Fast", "C13Wass", "C01Gen", "C01WassGen"], "C02": ["C02Wass", "C02Fast", "C01Gen", "C01WassGen"], "C03": ["C03Douglas", "C03Gen", "C15Gen", "C03Optim"], "C05": ["C05Gen"], "C06": ["C05Gen"], "C08": ["C08Max", "C08Stocks"], "C09": ["C09Spec"], "C17": ["C01Gen", "C05Gen", "C01WassGen"], "C19": ["C19Names"], "C11": ["C11Cong"], "C15": ["C15Gen"], "C18": ["C15Gen"]}


def prove(prop, modules=None):
    """Re-check the theorems of Props/<prop>.lean.  Returns dict:
       {theorems: [...], discharged: [...], broken: [{theorem, reason}], build_ok, log}"""
    if not modules:
        modules = [f"GemVerif.Props.{prop}"] + [f"GemVerif.Props.{c}" for c in COMPANIONS.get(prop, [])]
    res = {"theorems": [], "discharged": [], "broken": [], "build_ok": False, "log": "", "modules": list(modules)}
    thms = []
    for m in modules:
        path = os.path.join(LEAN, m.replace(".", "/") + ".lean")
        if not os.path.exists(path):
            raise MachineryError(f"missing {path}")
        thms += theorems_of(path)
    res["theorems"] = thms
    audit = "".join(f"import {m}\n" for m in modules) + "".join(f"#print axioms {t}\n" for t in thms)
    apath = os.path.join(LEAN, "GemVerif", "Audit", f"{prop}.lean")
    write_if_changed(apath, audit)
    ok, log = lake_build(modules)
    res["build_ok"] = ok
    res["log"] = log[-6000:]
    forb = grep_forbidden(modules)
    if forb:
        res["broken"].append({"theorem": "*", "reason": "forbidden tokens: " + "; ".join(forb[:5])})
    if not ok:
        # which theorems failed?  map error line numbers to the enclosing theorem
        failed = set()
        for m in modules:
            rel = m.replace(".", "/") + ".lean"
            path = os.path.join(LEAN, rel)
            lines = open(path).read().split("\n")
            for em in re.finditer(r"error: " + re.escape(rel) + r":(\d+):\d+", log):
                ln = int(em.group(1))
                name = None
                for k in range(min(ln, len(lines)) - 1, -1, -1):
                    mm = re.match(r"\s*(?:@\[[^\]]*\]\s*)?(?:private\s+)?(?:theorem|lemma|def|example|instance)\s+(\S+)", lines[k])
                    if mm:
                        name = mm.group(1)
                        break
                failed.add(name or f"{rel}:{ln}")
        if not failed:
            # a dependency (model / generated file) failed to compile
            dep = re.findall(r"error: (\S+\.lean):(\d+)", log)
            failed.add("dependency:" + (dep[0][0] if dep else "unknown"))
        for f in sorted(failed):
            res["broken"].append({"theorem": f, "reason": "lake build failed"})
        # everything in this module set is undischarged when the build fails
        return res
    rc, out, err = lean_run(apath, run=False)
    if rc != 0:
        res["broken"].append({"theorem": "*", "reason": "audit failed: " + (out + err)[-500:]})
        return res
    # parse "'X' depends on axioms: [a, b]" / "'X' does not depend on any axioms"
    text = out.replace("\n ", " ").replace("\n  ", " ")
    seen = {}
    for m in re.finditer(r"'([^']+)' depends on axioms: \[([^\]]*)\]", text, re.S):
        seen[m.group(1)] = {a.strip() for a in m.group(2).replace("\n", " ").split(",") if a.strip()}
    for m in re.finditer(r"'([^']+)' does not depend on any axioms", text):
        seen[m.group(1)] = set()
    for t in thms:
        if t not in seen:
            res["broken"].append({"theorem": t, "reason": "not reported by #print axioms"})
        elif not seen[t] <= ALLOWED_AXIOMS:
            res["broken"].append({"theorem": t, "reason": f"axioms {sorted(seen[t] - ALLOWED_AXIOMS)}"})
        else:
            res["discharged"].append(t)
    return res


def leanchecker(modules, timeout=3000):
    p = subprocess.run(["lake", "env", "leanchecker"] + list(modules), cwd=LEAN, capture_output=True,
                       text=True, timeout=timeout)
    return p.returncode == 0, (p.stdout + p.stderr)[-2000:]


def run_driver(name, lines, timeout=3000):
    """pipe request lines to Drivers/<name>.lean, return the answer lines"""
    if not lines:
        return []
    ok, log = lake_build([f"GemVerif.Drivers.{name}"])
    if not ok:
        raise DriverBuildError(log[-3000:])
    text = "\n".join(lines) + "\n"
    rc, out, err = lean_run(os.path.join("GemVerif", "Drivers", f"{name}.lean"), text, timeout=timeout)
    outl = out.split("\n")
    if outl and outl[-1] == "":
        outl.pop()
    if rc != 0 or len(outl) != len(lines):
        raise MachineryError(f"driver {name}: rc={rc} answered {len(outl)}/{len(lines)} lines\n{err[-2000:]}\n{out[-500:]}")
    return outl


class DriverBuildError(Exception):
    """the model (possibly a regenerated unit) no longer compiles: the tie is broken"""



# ---------------------------------------------------------------- source fingerprints (escalation only, never a verdict)
def _units_of(path):
    """{qualname: sha1 of ast.dump} for every function / method of a Python file (comments, layout and docstrings dropped);
    for a .pyx file one unit per `def`/`cdef`/`cpdef` block of the comment-stripped text"""
    import ast
    src = open(path).read()
    out = {}
    if path.endswith(".pyx"):
        cur, buf = "<module>", []
        for line in src.split("\n"):
            code = line.split("#")[0].rstrip()
            if not code.strip():
                continue
            m = re.match(r"\s*(?:cp?def|def)\s+(?:[\w\.\[\], ]+\s+)?(\w+)\s*\(", code)
            if m and not code.startswith(" " * 8):
                out[cur] = hashlib.sha1("\n".join(buf).encode()).hexdigest()[:12]
                cur, buf = m.group(1), []
            buf.append(code)
        out[cur] = hashlib.sha1("\n".join(buf).encode()).hexdigest()[:12]
        return out
    try:
        tree = ast.parse(src)
    except SyntaxError:
        return {"<syntax-error>": hashlib.sha1(src.encode()).hexdigest()[:12]}

    def strip_doc(node):
        b = getattr(node, "body", None)
        if b and isinstance(b[0], ast.Expr) and isinstance(getattr(b[0], "value", None), ast.Constant) \
                and isinstance(b[0].value.value, str):
            node.body = b[1:] or [ast.Pass()]

    def walk(node, prefix):
        for ch in getattr(node, "body", []):
            if isinstance(ch, (ast.FunctionDef, ast.AsyncFunctionDef)):
                strip_doc(ch)
                out[prefix + ch.name] = hashlib.sha1(ast.dump(ch).encode()).hexdigest()[:12]
            elif isinstance(ch, ast.ClassDef):
                strip_doc(ch)
                rest = [c for c in ch.body if not isinstance(c, (ast.FunctionDef, ast.AsyncFunctionDef))]
                out[prefix + ch.name + ".<class-body>"] = hashlib.sha1(
                    "".join(ast.dump(c) for c in rest + ch.bases + ch.decorator_list).encode()).hexdigest()[:12]
                walk(ch, prefix + ch.name + ".")
    strip_doc(tree)
    top = [c for c in tree.body if not isinstance(c, (ast.FunctionDef, ast.AsyncFunctionDef, ast.ClassDef))]
    out["<module>"] = hashlib.sha1("".join(ast.dump(c) for c in top).encode()).hexdigest()[:12]
    walk(tree, "")
    return out


def source_fingerprints(repo=None):
    repo = repo or REPO
    res = {}
    for root, dirs, files in os.walk(os.path.join(repo, "gemclus")):
        dirs[:] = [d for d in dirs if d not in ("tests", "__pycache__")]
        for f in sorted(files):
            if f.endswith(".py") or f.endswith(".pyx"):
                full = os.path.join(root, f)
                res[os.path.relpath(full, repo)] = _units_of(full)
    return res


def anchored_files(prop):
    for l in open(os.path.join(VERIF, "properties.jsonl")):
        r = json.loads(l)
        if r["id"] == prop:
            return set(r["anchors"]["files"])
    return set()


def source_delta():
    """[(file, unit)] whose fingerprint differs from harness/pinned_sources.json (or that appeared / disappeared)"""
    pp = os.path.join(VERIF, "harness", "pinned_sources.json")
    if not os.path.exists(pp):
        return []
    pins = json.load(open(pp))
    cur = source_fingerprints()
    out = []
    for f in sorted(set(pins) | set(cur)):
        a, b = pins.get(f, {}), cur.get(f, {})
        for u in sorted(set(a) | set(b)):
            if a.get(u) != b.get(u):
                out.append((f, u))
    return out

# ---------------------------------------------------------------- verdict / evidence
def load_known():
    p = os.path.join(VERIF, "known_findings.json")
    if not os.path.exists(p):
        return []
    return json.load(open(p))


class Ctx:
    def __init__(self, prop, tier, seed):
        self.prop = prop
        self.tier = tier
        self.requested_tier = tier
        self.seed = seed
        # anchored sources that differ from the pinned fingerprints: no verdict, only a deeper search (the hand-written
        # models were validated against the pinned sources; regenerated units follow the source by themselves)
        self.delta = source_delta()
        anch = anchored_files(prop)
        self.delta_anchored = [d for d in self.delta if d[0] in anch]
        self.escalated = False
        # opt-in (VERIF_ESCALATE=1): the three seeded changes that only the thorough sizes caught became quick-tier oracles
        # (DESIGN.md 17.6); escalation multiplies the run time of a quick check on changed code by ten; the delta is always recorded
        if tier == "quick" and self.delta_anchored and os.environ.get("VERIF_ESCALATE") and not os.environ.get("VERIF_NO_ESCALATE"):
            self.tier = "thorough"
            self.escalated = True
        self.rng = random.Random((seed, prop).__repr__())
        self.t0 = time.time()
        self.proof = None
        self.corr_breaks = []      # [{unit, case, detail}]
        self.violations = []       # [{what, unit, input, expected, actual, key}]
        self.evaluations = 0
        self.nontrivial = set()
        self.samples = []
        self.counters = {}
        self.units = {}            # correspondence unit -> count compared
        self.notes = []
        self.assumptions = []
        self.trusted = ["Lean 4.33.0 kernel", "Mathlib v4.33.0",
                        "axioms: propext, Classical.choice, Quot.sound (audited per theorem on every run)",
                        "hand-written Lean model tied to /repo by the correspondence run of this check (Python harness, generators and oracles are trusted)",
                        "theorems are over the reals; IEEE rounding is outside every theorem"]
        self.extra = {}
        self.known_lines = []
        self.exhaustive = False
        self.rule = ""
        self.translation = {}

    # ---- bookkeeping helpers
    def count(self, key, n=1):
        self.counters[key] = self.counters.get(key, 0) + n

    def case(self, canon, nontrivial=True, sample=None):
        """register one explored case; canon = hashable canonical form"""
        self.evaluations += 1
        if nontrivial:
            self.nontrivial.add(hashlib.sha1(repr(canon).encode()).hexdigest()[:16])
        if sample is not None and len(self.samples) < 6:
            self.samples.append(sample)

    def compared(self, unit, n=1):
        self.units[unit] = self.units.get(unit, 0) + n

    def corr_break(self, unit, case, detail):
        if len(self.corr_breaks) < 50:
            self.corr_breaks.append({"unit": unit, "case": case, "detail": detail})
        self.count("corr_break:" + unit)

    def violation(self, what, unit, inp, expected=None, actual=None, key=None, how=None):
        """a concrete input on which the REAL implementation fails the property (oracle verdict)"""
        v = {"what": what, "unit": unit, "input": inp, "expected": expected, "actual": actual,
             "key": key or unit, "how_to_run": how}
        if len(self.violations) < 200:
            self.violations.append(v)
        self.count("violation:" + (key or unit))

    def do_prove(self, modules=None):
        self.proof = prove(self.prop, modules)
        if self.requested_tier == "thorough" and self.proof["build_ok"] and not os.environ.get("VERIF_NO_LEANCHECKER"):
            # thorough tier: the compiled theorem files are replayed by leanchecker, the toolchain's independent re-checker
            try:
                ok, lg = leanchecker(self.proof["modules"])
                self.extra["leanchecker"] = {"modules": self.proof["modules"], "result": "ok" if ok else lg[-400:]}
                if not ok:
                    self.proof["broken"].append({"theorem": "*", "reason": "leanchecker: " + lg[-300:]})
            except subprocess.TimeoutExpired:
                self.extra["leanchecker"] = {"modules": self.proof["modules"], "result": "timeout (not counted)"}
        return self.proof

    @property
    def broken(self):
        return bool(self.corr_breaks) or bool(self.proof and self.proof["broken"]) or bool(self.extra.get("translation_failure"))

    # ---- final verdict
    def finish(self):
        if getattr(self, "dry", False):     # replay mode: the caller inspects self.violations / self.broken itself
            return 0
        known = [k for k in load_known() if k.get("property") == self.prop and k.get("status") == "known"]
        out_lines = []
        exit_code = 0
        os.makedirs(os.path.join(VERIF, "replays"), exist_ok=True)
        unlisted = []
        matched = {}
        for v in self.violations:
            k = next((k for k in known if match_known(k, v)), None)
            if k is not None:
                matched.setdefault(k["id"], (k, v))
            else:
                unlisted.append(v)
        for kid, (k, v) in sorted(matched.items()):
            out_lines.append(f"KNOWN-FINDING: property={self.prop} {k['what']}")
        # group unlisted violations by key, one replay each
        seen_keys = set()
        for v in unlisted:
            if v["key"] in seen_keys:
                continue
            seen_keys.add(v["key"])
            h = hashlib.sha1(json.dumps(v, sort_keys=True, default=str).encode()).hexdigest()[:10]
            path = os.path.join("replays", f"{self.prop}-{h}.json")
            with open(os.path.join(VERIF, path), "w") as f:
                json.dump({"property": self.prop, "kind": "failing-input", **v,
                           "seed": self.seed, "tier": self.tier}, f, indent=1, default=str)
            out_lines.append(f"VIOLATION property={self.prop} replay={path}")
            exit_code = 1
        if self.broken and not unlisted:
            # (a violation that is a LISTED known finding explains nothing about a tie or proof that no longer checks)
            # the tie or a proof obligation no longer checks and the search found no failing input
            what = {"proof_broken": (self.proof or {}).get("broken", []),
                    "correspondence_broken": self.corr_breaks[:5],
                    "translation_failure": self.extra.get("translation_failure"),
                    "build_log_tail": (self.proof or {}).get("log", "")[-1500:] if (self.proof and self.proof["broken"]) else ""}
            h = hashlib.sha1(json.dumps(what, sort_keys=True, default=str).encode()).hexdigest()[:10]
            path = os.path.join("replays", f"{self.prop}-nfi-{h}.json")
            with open(os.path.join(VERIF, path), "w") as f:
                json.dump({"property": self.prop, "kind": "no-failing-input-found", **what,
                           "seed": self.seed, "tier": self.tier}, f, indent=1, default=str)
            out_lines.append(f"VIOLATION property={self.prop} replay={path} no-failing-input-found")
            exit_code = 1
        self.write_evidence(len(unlisted) + (1 if (self.broken and not unlisted) else 0))
        for l in out_lines:
            print(l)
        sys.stdout.flush()
        return exit_code

    def write_evidence(self, nviol):
        pr = self.proof or {"theorems": [], "discharged": [], "broken": []}
        cov = {
            "obligations": max(1, len(pr["theorems"])),
            "discharged": len(pr["discharged"]),
            "checker_cmd": "cd lean && lake build " + " ".join(pr.get("modules") or [f"GemVerif.Props.{self.prop}"])
                           + f" && lake env lean GemVerif/Audit/{self.prop}.lean",
            "trusted_base": self.trusted,
            "theorems": pr["theorems"],
            "undischarged": pr["broken"],
            "evaluations": self.evaluations,
            "distinct_nontrivial": len(self.nontrivial),
            "rule": self.rule,
            "samples": self.samples or ["(no correspondence case generated)"],
            "traces_validated_against_impl": sum(self.units.values()),
            "correspondence_units": self.units,
            "correspondence_breaks": len(self.corr_breaks),
            "counters": self.counters,
            "exhaustive": self.exhaustive,
            "translation": self.translation,
            "notes": self.notes,
            "source_delta": [f"{f}::{u}" for f, u in self.delta],
            "escalated_to_thorough": self.escalated,
        }
        cov.update(self.extra)
        ev = {"property_id": self.prop, "tier": self.requested_tier, "seed": self.seed, "level": "proof",
              "coverage": cov, "assumptions": self.assumptions, "wall_s": round(time.time() - self.t0, 2),
              "violations": nviol}
        os.makedirs(os.path.join(VERIF, "evidence"), exist_ok=True)
        with open(os.path.join(VERIF, "evidence", f"{self.prop}.json"), "w") as f:
            json.dump(ev, f, indent=1, default=str)


def match_known(k, v):
    """a known finding suppresses a violation only when its `match` clause fits the violation"""
    m = k.get("match", {})
    if "key" in m and m["key"] != v.get("key"):
        return False
    if "unit" in m and m["unit"] != v.get("unit"):
        return False
    inp = v.get("input") or {}
    for fk, fv in m.get("input", {}).items():
        if isinstance(inp, dict) and inp.get(fk) != fv:
            return False
    return True
