"""Shared generators / runners / oracles for the GEMINI properties (C01, C02, C13, C17)."""
import math
import numpy as np

from . import core

CONFIGS = [(c, o) for c in ("kl", "tv", "hellinger", "chi2", "mmd", "wass") for o in (False, True)]
CLS = {"kl": "KLGEMINI", "tv": "TVGEMINI", "hellinger": "HellingerGEMINI", "chi2": "ChiSquareGEMINI",
       "mmd": "MMDGEMINI", "wass": "WassersteinGEMINI"}
REV = {v: k for k, v in CLS.items()}


def real_gemini(cls, ovo, eps=None):
    import gemclus.gemini as G
    kw = {"ovo": ovo}
    if eps is not None:
        kw["epsilon"] = eps
    if cls == "mmd":
        kw["kernel"] = "precomputed"
    if cls == "wass":
        kw["metric"] = "precomputed"
    return getattr(G, CLS[cls])(**kw)


# ----------------------------------------------------------------- generators
def softmax(z):
    z = z - z.max(1, keepdims=True)
    e = np.exp(z)
    return e / e.sum(1, keepdims=True)


P_REGIMES = ["near_uniform", "dirichlet", "soft", "sharp", "onehot1e-3", "onehot1e-6", "onehot1e-9"]


def gen_P(rs, n, K, regime):
    if regime == "near_uniform":
        return softmax(0.05 * rs.randn(n, K))
    if regime == "dirichlet":
        P = rs.dirichlet(np.ones(K) * rs.choice([0.3, 1.0, 3.0]), size=n)
        return np.clip(P, 1e-9, None) / np.clip(P, 1e-9, None).sum(1, keepdims=True)
    if regime == "soft":
        return softmax(rs.randn(n, K))
    if regime == "sharp":
        # saturated soft-max, floored so that it stays strictly inside the clipping window
        P = np.maximum(softmax(rs.choice([3.0, 6.0, 10.0]) * rs.randn(n, K)), 1e-9)
        return P / P.sum(1, keepdims=True)
    if regime.startswith("onehot"):
        e = float(regime[6:])
        P = np.full((n, K), e)
        lab = rs.randint(0, K, size=n)
        P[np.arange(n), lab] = 1 - e * (K - 1)
        # jitter so that rows are not exactly equal
        P = P * (1 + 0.1 * rs.rand(n, K))
        return P / P.sum(1, keepdims=True)
    raise ValueError(regime)


KERNELS = ["linear", "rbf", "sigmoid", "poly", "laplacian", "cosine", "random_sym"]
METRICS = ["euclidean", "l1", "cosine_dist", "random_metric"]


def gen_affinity(rs, n, kind, X=None):
    from sklearn.metrics import pairwise_kernels, pairwise_distances
    if X is None:
        X = rs.randn(n, rs.randint(1, 4))
    if kind == "random_sym":
        A = rs.randn(n, n)
        return (A + A.T) / 2
    if kind == "random_metric":
        A = np.abs(rs.randn(n, n))
        A = (A + A.T) / 2
        np.fill_diagonal(A, 0)
        return A
    if kind in ("euclidean", "l1"):
        return pairwise_distances(X, metric=kind)
    if kind == "cosine_dist":
        return np.maximum(pairwise_distances(X + 0.1, metric="cosine"), 0.0)
    if kind == "sigmoid":
        return pairwise_kernels(X, metric="sigmoid", gamma=1.0, coef0=-0.5)
    if kind == "rbf":
        return pairwise_kernels(X, metric="rbf", gamma=float(rs.choice([0.1, 1.0])))
    return pairwise_kernels(X, metric=kind)


# ----------------------------------------------------------------- POT recording
class EmdRecorder:
    """records every ot.emd2 call made by WassersteinGEMINI.evaluate"""

    def __enter__(self):
        import gemclus.gemini._geomdistances as G
        self.G = G
        self.orig = G.ot.emd2
        self.calls = []

        def rec(a, b, M, log=False, **kw):
            r = self.orig(a, b, M, log=log, **kw)
            if log:
                self.calls.append((np.array(a, float), np.array(b, float), float(r[0]),
                                   np.array(r[1]["u"], float), np.array(r[1]["v"], float)))
            else:
                self.calls.append((np.array(a, float), np.array(b, float), float(r), None, None))
            return r
        G.ot.emd2 = rec
        return self

    def __exit__(self, *a):
        self.G.ot.emd2 = self.orig


def emd_tables_or_none(calls, n, K, ovo):
    """emd_tables, or None when the recorded POT calls are not the ones the model expects (another number / order of calls:
    the model comparison is then impossible for this case — the caller records a broken correspondence and goes on to the oracle)"""
    try:
        return emd_tables(calls, n, K, ovo)
    except Exception:
        return None


def emd_tables(calls, n, K, ovo):
    """lay the recorded POT results out as the driver expects: K*K pair entries then K uniform entries"""
    sz = 1 + 2 * n
    tab = np.zeros((K * K + K, sz))
    if ovo:
        it = iter(calls)
        for a in range(K):
            for b in range(a + 1, K):
                c = next(it)
                tab[a * K + b, 0] = c[2]
                tab[a * K + b, 1:1 + n] = c[3]
                tab[a * K + b, 1 + n:] = c[4]
    else:
        for k, c in enumerate(calls):
            tab[K * K + k, 0] = c[2]
            tab[K * K + k, 1:1 + n] = c[3]
            tab[K * K + k, 1 + n:] = c[4]
    return tab


# ----------------------------------------------------------------- impl / model
def impl_eval(cls, ovo, eps, P, A, grad):
    g = real_gemini(cls, ovo, eps)
    if cls == "wass":
        with EmdRecorder() as rec:
            r = g.evaluate(P.copy(), A, return_grad=grad)
        return r, rec.calls
    return g.evaluate(P.copy(), None if cls not in ("mmd",) else A, return_grad=grad), None


def model_line(op, cls, ovo, eps, P, A=None, emd=None):
    n, K = P.shape
    s = f"{op} {cls} {1 if ovo else 0} {n} {K} {core.fhex(eps)} {core.fl(P)}"
    if cls == "mmd":
        s += " " + core.fl(A)
    if cls == "wass":
        s += " " + core.fl(emd)
    return s


# ----------------------------------------------------------------- direct-definition oracle (from the property text)
def cond_dists(P):
    """p(x_i | y=k) ∝ P[i,k]; returns (pi[K], cond[K,n])"""
    n = P.shape[0]
    pi = P.mean(0)
    cond = (P / (n * pi)).T
    return pi, cond


def D_kl(p, q):
    return float(np.sum(p * (np.log(p) - np.log(q))))


def D_tv(p, q):
    return 0.5 * float(np.sum(np.abs(p - q)))


def D_h2(p, q):
    return 1.0 - float(np.sum(np.sqrt(p * q)))


def D_chi2(p, q):
    return float(np.sum((p - q) ** 2 / q))


def D_mmd(p, q, A):
    d = p - q
    return math.sqrt(max(float(d @ A @ d), 0.0))


def mmd_conditioning(P, A, ovo, eps=1e-12):
    """smallest squared MMD distance the gradient divides by, relative to the size of the terms it is the difference of.
    The MMD gradient contains pi_a*pi_b/delta_ab (one-vs-one) or 1/delta_k (one-vs-all) with delta = sqrt(difference of O(scale)
    terms): when delta^2 is below ~1e-6*scale the rounding of that difference (1e-16*scale) changes the gradient by more than
    the comparison tolerance, whatever the implementation — such points sit next to the zero distances where the score is not
    differentiable (excluded by the property) and are counted, not compared."""
    y = np.clip(P, eps, 1 - eps)
    n, K = y.shape
    pi, cond = y.mean(0), None
    cond = (y / (n * pi)).T
    quad = lambda d: float(d @ A @ d)
    scale = max(1e-300, float(np.abs(A).max()) * max(float(np.abs(c).sum()) ** 2 for c in cond))
    if ovo:
        vals = [quad(cond[a] - cond[b]) for a in range(K) for b in range(a + 1, K)]
    else:
        u = np.full(n, 1.0 / n)
        vals = [quad(cond[k] - u) for k in range(K)]
    # |delta^2|: a clearly NEGATIVE squared distance (indefinite kernel) is clamped to 0 by the code — a regular point where that
    # term is locally constant and its gradient exactly zero; only values near zero are ill-conditioned
    return (min(abs(v) for v in vals) if vals else scale) / scale


def D_w1(p, q, A):
    """Wasserstein-1 by the transport LP, independent of POT"""
    from scipy.optimize import linprog
    n = len(p)
    # the LP value is positively homogeneous in the cost: solve with the cost normalised to magnitude 1 and scale back
    # (HiGHS works with absolute tolerances ~1e-7: with costs of 1e-8 it returned a transport plan 3x too expensive)
    mag = float(np.abs(A).max())
    if mag == 0:
        return 0.0
    c = A.ravel() / mag
    Aeq = np.zeros((2 * n, n * n))
    for i in range(n):
        Aeq[i, i * n:(i + 1) * n] = 1
        Aeq[n + i, i::n] = 1
    beq = np.concatenate([p, q])
    r = linprog(c, A_eq=Aeq[:-1], b_eq=beq[:-1], bounds=(0, None), method="highs")
    if r.status != 0:
        raise RuntimeError("linprog failed: " + r.message)
    return float(r.fun) * mag


def spec_score(cls, ovo, P, A=None):
    """the documented generalised mutual information, straight from the definitions"""
    n, K = P.shape
    pi, cond = cond_dists(P)
    u = np.full(n, 1.0 / n)
    D = {"kl": D_kl, "tv": D_tv, "hellinger": D_h2, "chi2": D_chi2,
         "mmd": lambda p, q: D_mmd(p, q, A), "wass": lambda p, q: D_w1(p, q, A)}[cls]
    if ovo:
        tot = 0.0
        for a in range(K):
            for b in range(K):
                if a == b and cls in ("mmd", "wass", "tv", "hellinger", "kl", "chi2"):
                    continue  # D(p,p) = 0 for every distance used
                tot += pi[a] * pi[b] * D(cond[a], cond[b])
    else:
        tot = sum(pi[k] * D(cond[k], u) for k in range(K))
    if cls == "chi2":
        tot = (tot + 1.0) / 2.0
    return tot
