"""Shared pieces of the C20 check: recording RandomState, driver lines, documented constants, statistical oracles.

The ORACLE side of this file is written from the docstrings of gemclus/data/synthetic_data.py and from Celeux et al.
(2014, sections 3.1 / 3.2) -- not from the code: `DOC_*` below are the documented parameters.
"""
import math

import numpy as np

from . import core

SIG = {"choice": ["a", "size", "replace", "p"], "normal": ["loc", "scale", "size"],
       "multivariate_normal": ["mean", "cov", "size", "check_valid", "tol"], "chisquare": ["df", "size"],
       "permutation": ["x"]}
DEFAULTS = {"normal": {"loc": 0.0, "scale": 1.0, "size": None}, "choice": {"size": None, "replace": True, "p": None},
            "multivariate_normal": {"size": None}, "chisquare": {"size": None}}
OTHER_DRAWS = ["standard_normal", "randn", "rand", "random_sample", "random", "uniform", "randint", "shuffle",
               "standard_t", "gamma", "standard_gamma", "beta", "binomial", "multinomial", "exponential", "poisson",
               "dirichlet", "laplace", "lognormal", "standard_cauchy", "standard_exponential", "bytes", "tomaxint",
               "random_integers", "f", "noncentral_chisquare", "vonmises", "pareto", "weibull", "power", "gumbel",
               "logistic", "rayleigh", "wald", "triangular", "negative_binomial", "zipf", "geometric",
               "hypergeometric", "logseries", "noncentral_f"]


def _copy(v):
    if isinstance(v, np.ndarray):
        return v.copy()
    if isinstance(v, (list, tuple)):
        return type(v)(_copy(x) for x in v)
    return v


class RecordingRS(np.random.RandomState):
    """A RandomState that logs every top-level primitive call with its parameters and returns the real draw."""

    def __init__(self, seed=None):
        super().__init__(seed)
        self.log = []
        self._depth = 0

    def _rec(self, name, args, kw):
        self._depth += 1
        try:
            r = getattr(super(), name)(*args, **kw)
        finally:
            self._depth -= 1
        if self._depth == 0:
            params = dict(DEFAULTS.get(name, {}))
            for nm, v in zip(SIG.get(name, []), args):
                params[nm] = _copy(v)
            for k, v in kw.items():
                params[k] = _copy(v)
            self.log.append({"prim": name, "params": params, "out": _copy(r)})
        return r

    def choice(self, *a, **k):
        return self._rec("choice", a, k)

    def normal(self, *a, **k):
        return self._rec("normal", a, k)

    def multivariate_normal(self, *a, **k):
        return self._rec("multivariate_normal", a, k)

    def chisquare(self, *a, **k):
        return self._rec("chisquare", a, k)

    def permutation(self, *a, **k):
        return self._rec("permutation", a, k)


def _mk(name):
    def f(self, *a, **k):
        return self._rec(name, a, k)
    f.__name__ = name
    return f


for _n in OTHER_DRAWS:
    if hasattr(np.random.RandomState, _n):
        setattr(RecordingRS, _n, _mk(_n))


def funcs():
    import gemclus.data as D
    return {"draw_gmm": D.draw_gmm, "student": D.multivariate_student_t, "gstm": D.gstm, "celeux_one": D.celeux_one,
            "celeux_two": D.celeux_two}


def run_recorded(fname, kwargs, seed):
    """run the real function with a recording generator.  -> (result | exception, log, global_state_untouched)"""
    rs = RecordingRS(seed)
    np.random.seed(424242)
    before = np.random.get_state()
    try:
        import warnings
        with warnings.catch_warnings(record=True) as w:
            warnings.simplefilter("always")
            out = funcs()[fname](random_state=rs, **kwargs)
        warns = [str(x.message) for x in w]
    except Exception as e:  # noqa
        out, warns = e, []
    after = np.random.get_state()
    untouched = before[0] == after[0] and np.array_equal(before[1], after[1]) and before[2:] == after[2:]
    return out, rs.log, untouched, warns


# ------------------------------------------------------------------ documented constants (docstrings + Celeux et al.)
def doc_gstm(n, alpha, df):
    return {"locs": alpha * np.array([[1., 1.], [1., -1.], [-1., 1.], [-1., -1.]]), "cov": np.eye(2),
            "n_gauss": (3 * n) // 4, "pvals": np.ones(3) / 3, "student_label": 3, "df": df}


def doc_celeux_one(mu):
    return {"means": np.array([np.ones(5) * mu, -np.ones(5) * mu, np.zeros(5)]), "cov": np.eye(5), "pvals": np.ones(3) / 3}


def _rot(t):
    return np.array([[math.cos(t), -math.sin(t)], [math.sin(t), math.cos(t)]])


def doc_celeux_two():
    om = np.zeros((9, 9))
    om[:3, :3] = np.eye(3)
    om[3:5, 3:5] = 0.5 * np.eye(2)
    r3, r6 = _rot(math.pi / 3), _rot(math.pi / 6)
    om[5:7, 5:7] = r3.T @ np.diag([1., 3.]) @ r3
    om[7:9, 7:9] = r6.T @ np.diag([2., 6.]) @ r6
    b = np.array([[0.5, 1], [2, 0], [0, 3], [-1, 2], [2, -4], [0.5, 0], [4, 0.5], [3, 0], [2, 1]], dtype=float).T
    return {"means": np.array([[0., 0.], [4., 0.], [0., 2.], [4., 2.]]), "cov": np.eye(2), "pvals": np.ones(4) / 4,
            "b": b, "offsets": np.array([0, 0, 0.4, 0.8, 1.2, 1.6, 2.0, 2.4, 2.8]), "omega": om,
            "x1214_mean": np.array([3.2, 3.6, 4.0]), "x1214_cov": np.eye(3)}


# ------------------------------------------------------------------ driver lines
def nats(xs):
    return " ".join(str(int(v)) for v in np.asarray(xs).ravel())


GUARD_OF_MESSAGE = [("means and the covariances do not contain", "lenScale"), ("should be square matrices", "square"),
                    ("proportions and the means do not contain", "lenPvals"), ("should be strictly positive", "pvalsPos"),
                    ("do not add up to one", "pvalsSum"), ("variance is negative", "varPos"),
                    ("not positive semi-definite", "eigNonneg"), ("contains only zeroes", "notAllZero"),
                    ("symmetric", "symmetric")]


def guard_of_exception(e):
    if isinstance(e, IndexError):
        return "IndexError"
    msg = str(e)
    for frag, tok in GUARD_OF_MESSAGE:
        if frag in msg:
            return tok
    return None


def gmm_arrays(loc, scale, pvals):
    """the arrays `check_array` would hand to the validity tests, or None when check_array itself must refuse
    (those inputs are outside the model: scikit-learn's validator is trusted)"""
    try:
        L = np.asarray(loc, dtype=float)
        S = np.asarray(scale, dtype=float)
        P = np.asarray(pvals, dtype=float)
    except (ValueError, TypeError):
        return None
    if L.ndim != 2 or S.ndim < 2 or P.ndim != 1 or L.shape[0] < 2 or S.shape[0] < 2 or P.shape[0] < 2:
        return None
    if min(L.size, S.size, P.size) == 0 or L.shape[1] < 1:
        return None
    if not (np.isfinite(L).all() and np.isfinite(S).all() and np.isfinite(P).all()):
        return None
    return L, S, P


def gmm_line(L, S, P, y=None, draws=None):
    K, d = L.shape
    var1, eig, az, sy = [], [], [], []
    for k in range(K):
        sk = S[k] if k < S.shape[0] else None
        var1.append(float(sk.ravel()[0]) if (sk is not None and d == 1 and sk.size == 1) else 0.0)
        sq = sk is not None and sk.ndim == 2 and sk.shape[0] == sk.shape[1]
        eig.append(int(bool(sq and np.any(np.linalg.eigvals(sk) < 0))))
        az.append(int(bool(sk is not None and np.all(sk == 0))))
        sy.append(int(bool(sq and np.array_equal(sk, sk.T))))
    if y is None:
        n, rl, ytxt, dtxt = 0, 0, "", ""
    else:
        n = len(y)
        rl = d
        ytxt = nats(y)
        dtxt = core.fl(np.asarray(draws, dtype=float))
    return (f"gmm {K} {d} {S.ndim} {nats(S.shape)} {P.shape[0]} {core.fl(P)} {core.fl(var1)} {nats(eig)} {nats(az)} "
            f"{nats(sy)} {n} {ytxt} {rl} {dtxt}")


def parse_sections(ans, keys):
    """'X h h h y 1 2' -> {'X': [...], 'y': [...]}"""
    toks = ans.split()
    out, cur = {}, None
    for t in toks:
        if t in keys:
            cur = t
            out[cur] = []
        elif cur is not None:
            out[cur].append(t)
    return out


def floats_of(toks):
    return np.array([float("nan") if t in ("none", "nan") else core.unhex(t) for t in toks], dtype=float)


def same_bits(a, b):
    a = np.asarray(a, dtype=float).ravel()
    b = np.asarray(b, dtype=float).ravel()
    return a.shape == b.shape and bool(np.all((a == b) | (np.isnan(a) & np.isnan(b))))


def close_arr(a, b, tol=1e-12):
    a = np.asarray(a, dtype=float).ravel()
    b = np.asarray(b, dtype=float).ravel()
    if a.shape != b.shape:
        return False
    if a.size == 0:
        return True
    return bool(np.all(np.abs(a - b) <= tol * np.maximum(1.0, np.maximum(np.abs(a), np.abs(b)))))


# ------------------------------------------------------------------ statistical bands
SIG_BAND = 6.0


class Bands:
    """collects 6-sigma comparisons; `fail` lists (what, expected, observed, band)"""

    def __init__(self):
        self.n = 0
        self.fail = []
        self.worst = 0.0

    def check(self, what, observed, expected, sigma):
        self.n += 1
        band = SIG_BAND * sigma
        z = abs(observed - expected) / sigma if sigma > 0 else (0.0 if observed == expected else float("inf"))
        self.worst = max(self.worst, z)
        if not abs(observed - expected) <= band:
            self.fail.append({"what": what, "expected": float(expected), "observed": float(observed), "band": float(band)})


def _interval(B, what, observed, expected, lo, hi):
    """band given as an explicit interval (exact law of the statistic) at the 6-sigma tail probability"""
    B.n += 1
    half = (hi - expected) if observed >= expected else (expected - lo)
    B.worst = max(B.worst, SIG_BAND * abs(observed - expected) / half if half > 0 else 0.0)
    if not (lo <= observed <= hi):
        B.fail.append({"what": what, "expected": float(expected), "observed": float(observed), "band": float(max(hi - expected, expected - lo))})


TAIL = 9.87e-10     # P(Z > 6)


def gaussian_component_moments(B, tag, Xk, mean, cov):
    """sample mean / covariance of the rows attributed to one Gaussian component vs documented (mean, cov)"""
    nk = len(Xk)
    mean = np.asarray(mean, dtype=float).ravel()
    cov = np.atleast_2d(np.asarray(cov, dtype=float))
    m = Xk.mean(axis=0)
    for j in range(len(mean)):
        B.check(f"{tag} mean[{j}]", m[j], mean[j], math.sqrt(max(cov[j, j], 1e-300) / nk))
    S = np.atleast_2d(np.cov(Xk.T, ddof=1))
    for i in range(len(mean)):
        for j in range(i, len(mean)):
            if i == j and cov[i, i] > 0:
                # (nk-1) S_ii / Sigma_ii is chi-square with nk-1 degrees of freedom: exact band
                from scipy import stats
                nu = nk - 1
                _interval(B, f"{tag} cov[{i},{i}]", S[i, i], cov[i, i], cov[i, i] * stats.chi2.ppf(TAIL, nu) / nu,
                          cov[i, i] * stats.chi2.isf(TAIL, nu) / nu)
                continue
            sd = math.sqrt((cov[i, i] * cov[j, j] + cov[i, j] ** 2) / (nk - 1))
            B.check(f"{tag} cov[{i},{j}]", S[i, j], cov[i, j], max(sd, 1e-300))


def proportions(B, tag, y, pvals, n=None):
    n = len(y) if n is None else n
    for k, p in enumerate(pvals):
        B.check(f"{tag} proportion[{k}]", float(np.sum(y == k)) / n, p, math.sqrt(p * (1 - p) / n))


def student_radial(B, tag, Xs, loc, scale, df):
    """(x-loc)' S^-1 (x-loc) / d ~ F(d, df) for a multivariate Student-t: Kolmogorov-Smirnov distance against F, and
    a sign test per coordinate (the location is the coordinate-wise median)"""
    from scipy import stats
    n, d = Xs.shape
    Z = Xs - np.asarray(loc, dtype=float).reshape(1, -1)
    r = np.einsum("ij,jk,ik->i", Z, np.linalg.inv(np.asarray(scale, dtype=float)), Z) / d
    D = stats.kstest(r, stats.f(d, df).cdf).statistic
    # asymptotically sqrt(n) D has the Kolmogorov law; P(sqrt(n) D > 3.3) ~ 7e-10 (about 6 sigma two-sided)
    B.n += 1
    B.worst = max(B.worst, math.sqrt(n) * D * 6 / 3.3)
    if math.sqrt(n) * D > 3.3:
        B.fail.append({"what": f"{tag} KS distance of the Mahalanobis radii to F({d},{df})", "expected": 0.0,
                       "observed": float(D), "band": 3.3 / math.sqrt(n)})
    for j in range(d):
        B.check(f"{tag} sign[{j}]", float(np.mean(Z[:, j] > 0)), 0.5, 0.5 / math.sqrt(n))
