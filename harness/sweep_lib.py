"""Configuration sweeps over the real estimators (C04, C17): configuration spaces, pairwise covering arrays, per-fit
time limits, classification of exceptions by origin (validation vs. failed fit), finiteness monitors and the
independent reconstruction of `score`.

Nothing here decides what a violation is; the property modules do."""
import contextlib
import signal
import traceback

import numpy as np

from . import fit_lib as fl


# ------------------------------------------------------------------ time limit
class FitTimeout(Exception):
    pass


@contextlib.contextmanager
def time_limit(seconds):
    """a hang becomes a reported `FitTimeout`, not a stuck check (main thread only)"""
    def handler(signum, frame):
        raise FitTimeout(f"no answer within {seconds} s")
    old = signal.signal(signal.SIGALRM, handler)
    signal.setitimer(signal.ITIMER_REAL, seconds)
    try:
        yield
    finally:
        signal.setitimer(signal.ITIMER_REAL, 0)
        signal.signal(signal.SIGALRM, old)


# ------------------------------------------------------------------ exception origin
def frames(e):
    return [(f.filename.replace("\\", "/"), f.name, f.lineno) for f in traceback.extract_tb(e.__traceback__)]


def where(e):
    fr = frames(e)
    own = [f for f in fr if "/gemclus/" in f[0]]
    f = (own or fr or [("?", "?", 0)])[-1]
    return f"{f[0].split('/gemclus/')[-1] if '/gemclus/' in f[0] else f[0].split('/')[-1]}:{f[2]}:{f[1]}"


def classify(e):
    """'validation:<which>' when the configuration / input was REJECTED BY VALIDATION (DESIGN 12): the exception is of the
    ValueError/TypeError family and was raised by one of the validation steps of `fit`; None otherwise (a failed fit)."""
    if not isinstance(e, (ValueError, TypeError)):
        return None
    fr = frames(e)
    names = [f[1] for f in fr]
    files = [f[0] for f in fr]
    msg = str(e)
    last_file, last_name, _ = fr[-1] if fr else ("", "", 0)
    # sklearn's table validation of the estimator's own hyper-parameters
    if "_validate_params" in names and ("validate_parameter_constraints" in names or "_param_validation" in last_file):
        return "validation:params"
    # the GEMINI constructor's @constraint_params, reached from get_gemini() inside fit
    if last_name == "wrapper" and last_file.endswith("gemclus/_constraints.py") and "get_gemini" in names:
        return "validation:gemini-constructor"
    if last_name == "check_groups":
        return "validation:groups"
    if last_name == "fit" and last_file.endswith("tree/kauri.py") and msg.startswith("Contradiction between the number of samples"):
        return "validation:kauri-consistency"
    if "check_array" in names and "minimum of" in msg and "is required" in msg:
        return "validation:min-samples"
    if last_name == "_init_params" and last_file.endswith("tree/douglas.py") and msg.startswith("The boolean feature mask"):
        return "validation:mask-length"
    if last_name == "compute_affinity" and "should be precomputed" in msg:
        return "validation:precomputed-missing"
    if "/sklearn/metrics/pairwise.py" in last_file and "negative values" in msg:
        return "validation:kernel-domain"
    return None


# ------------------------------------------------------------------ configuration spaces
KERNELS = None
GEMINI_INSTANCES = ["inst:mmd_rbf", "inst:wass_l1", "inst:mmd_precomputed", "inst:wass_precomputed"]
WASS_METRICS = ["euclidean", "l1", "cosine", "precomputed", "l2", "manhattan", "cityblock", "nan_euclidean", "callable:l1"]
MMD_EST = ["LinearMMD", "MLPMMD", "SparseLinearMMD", "SparseMLPMMD", "CategoricalMMD"]
WASS_EST = ["LinearWasserstein", "MLPWasserstein", "CategoricalWasserstein"]
CONTAINERS = ["ndarray", "list", "float32", "int", "fortran"]     # documented: X is array-like
SPARSE_EST = ["SparseLinearModel", "SparseLinearMMD", "SparseLinearMI", "SparseMLPModel", "SparseMLPMMD"]


def kernels():
    global KERNELS
    if KERNELS is None:
        from sklearn.metrics.pairwise import PAIRWISE_KERNEL_FUNCTIONS
        KERNELS = sorted(PAIRWISE_KERNEL_FUNCTIONS)
    return KERNELS


def space(name):
    """ordered factors of one estimator's configuration space; values are symbolic where they depend on n / K / d"""
    cls = fl.estimators()[name]
    if name == "Kauri":
        return {"n_kind": ["K", "K+1", "9"], "d": [1, 3], "container": list(CONTAINERS), "max_clusters": [1, 2, 3, 5],
                "max_depth": [None, 1, 2],
                "min_samples_split": [2, 3, 5], "min_samples_leaf": [1, 2, 3], "max_features": [None, 1, 5],
                "max_leaves": [None, 2, 3], "kernel": kernels() + ["precomputed", "callable:linear"]}
    sp = {"n_kind": ["K", "K+1", "9"], "d": [1, 3], "container": list(CONTAINERS), "n_clusters": [1, 2, 3, 4],
          "solver": ["adam", "sgd"], "learning_rate": [1e-3, 0.05], "max_iter": [1, 2]}
    if fl.accepts(cls, "batch_size"):
        sp["batch_size"] = ["1", "2", "n-1", "n", "n+1", None]
    if fl.accepts(cls, "gemini"):
        sp["gemini"] = list(fl.GEMINI_NAMES) + GEMINI_INSTANCES[:2] + [None] + GEMINI_INSTANCES[2:]
    if fl.accepts(cls, "ovo"):
        sp["ovo"] = [False, True]
    if fl.accepts(cls, "kernel"):
        sp["kernel"] = kernels() + ["precomputed", "callable:linear"]
        sp["kernel_params"] = [None, "gamma"]
    if fl.accepts(cls, "base_kernel"):
        sp["base_kernel"] = kernels() + ["callable:linear", "callable:rbf2d", "callable:cdist"]
        sp["base_kernel_params"] = [None, "gamma"]
    if fl.accepts(cls, "metric"):
        sp["metric"] = list(WASS_METRICS)
    if fl.accepts(cls, "reg"):
        sp["reg"] = [0.0, 0.1, 2.0]
    if fl.accepts(cls, "n_hidden_dim"):
        sp["n_hidden_dim"] = [1, 3]
    if fl.accepts(cls, "alpha"):
        sp["alpha"] = [0.0, 0.01, 1.0]
    if fl.accepts(cls, "groups"):
        sp["groups"] = [None, "first", "pairs", "partition", "duplicate"]
    if fl.accepts(cls, "dynamic"):
        sp["dynamic"] = [False, True]
    if fl.accepts(cls, "M"):
        sp["M"] = [0.0, 1.0, 10]
    if name == "Douglas":
        sp["n_cuts"] = [1, 2, 3, None]
        sp["temperature"] = [0.01, 0.1, 1.0, 10.0]
        sp["feature_mask"] = [None, "partial", "all"]
    return sp


def pairwise_rows(sp, rng):
    """greedy pairwise covering array over the factors of `sp` (every pair of values of two different factors occurs in
    some row); ties are broken by `rng`, so different seeds give different arrays"""
    keys = list(sp)
    uncovered = set()
    for a in range(len(keys)):
        for b in range(a + 1, len(keys)):
            for va in range(len(sp[keys[a]])):
                for vb in range(len(sp[keys[b]])):
                    uncovered.add((a, va, b, vb))
    rows = []
    while uncovered:
        seedp = sorted(uncovered)[rng.randint(len(uncovered))]
        row = {seedp[0]: seedp[1], seedp[2]: seedp[3]}
        order = [k for k in rng.permutation(len(keys)) if k not in row]
        for k in order:
            best, bestv = -1, []
            for v in range(len(sp[keys[k]])):
                gain = 0
                for k2, v2 in row.items():
                    p = (k, v, k2, v2) if k < k2 else (k2, v2, k, v)
                    gain += p in uncovered
                if gain > best:
                    best, bestv = gain, [v]
                elif gain == best:
                    bestv.append(v)
            row[int(k)] = bestv[rng.randint(len(bestv))]
        for a in range(len(keys)):
            for b in range(a + 1, len(keys)):
                uncovered.discard((a, row[a], b, row[b]))
        rows.append({keys[k]: sp[keys[k]][row[k]] for k in range(len(keys))})
    return rows


def random_row(sp, rng):
    return {k: v[rng.randint(len(v))] for k, v in sp.items()}


# ------------------------------------------------------------------ from a symbolic row to a concrete call
def make_data(rs, n, d, nonneg=False, scale=1.0):
    X = fl.small_data(rs, n, d, scale)
    if nonneg:
        X = np.abs(X)
    return X


def gemini_from_label(label):
    """a fresh GEMINI for the labels of `space`'s gemini factor (the estimator receives this object or the string)"""
    import gemclus.gemini as G
    if label == "inst:mmd_rbf":
        return G.MMDGEMINI(kernel="rbf", kernel_params={"gamma": 0.5})
    if label == "inst:wass_l1":
        return G.WassersteinGEMINI(metric="l1")
    if label == "inst:mmd_precomputed":
        return G.MMDGEMINI(kernel="precomputed", ovo=True)
    if label == "inst:wass_precomputed":
        return G.WassersteinGEMINI(metric="precomputed", ovo=True)
    return label


def concretise(name, row, rs):
    """(kwargs, X, y, info): resolves the symbolic entries of a row; `info` is JSON-friendly"""
    row = dict(row)
    K = row.get("n_clusters", row.get("max_clusters"))
    n = {"K": K, "K+1": K + 1, "9": 9}[row.pop("n_kind")]
    if name == "Kauri":
        n = max(n, 1)
    d = row.pop("d")
    container = row.pop("container", "ndarray")
    kern = row.get("kernel", row.get("base_kernel"))
    nonneg = kern in ("chi2", "additive_chi2")
    X = make_data(rs, n, d, nonneg=nonneg)
    if container == "int":
        X = np.round(2 * X)                 # integer-valued, so that the int container is lossless
    elif container == "float32":
        X = X.astype(np.float32).astype(np.float64)
    kw = {}
    for k, v in row.items():
        if k == "batch_size":
            v = None if v is None else max(1, {"1": 1, "2": 2, "n-1": n - 1, "n": n, "n+1": n + 1}[v])
        elif k == "gemini":
            v = gemini_from_label(v)
        elif k in ("kernel_params", "base_kernel_params"):
            kname = row.get("kernel", row.get("base_kernel"))
            v = {"gamma": 0.5} if (v == "gamma" and kname in ("rbf", "laplacian", "poly", "polynomial", "sigmoid", "chi2")) else None
        elif k == "groups":
            if v == "first":
                v = [[0]]
            elif v == "pairs":
                v = [[0, 1]] if d >= 2 else [[0]]
            elif v == "partition":
                v = [[d - 1 - j] for j in range(d)] if d < 3 else [[2, 0], [1]]
            elif v == "duplicate":
                v = [[0], [0]]
        elif k == "feature_mask":
            if v == "partial":
                m = np.zeros(d, dtype=bool); m[rs.randint(d)] = True
                v = m
            elif v == "all":
                v = np.ones(d, dtype=bool)
        kw[k] = v
    kw["random_state"] = int(rs.randint(1000))
    y = precomputed_for(row, X)
    info = {"estimator": name, "params": {k: (v.tolist() if isinstance(v, np.ndarray) else (row.get("gemini") if k == "gemini" else v))
                                          for k, v in kw.items()},
            "X": X.tolist(), "y": None if y is None else y.tolist(), "container": container}
    return kw, X, y, info


def in_container(X, container):
    if container == "list":
        return X.tolist()
    if container == "float32":
        return X.astype(np.float32)
    if container == "int":
        return X.astype(np.int64)
    if container == "fortran":
        return np.asfortranarray(X)
    return X


def precomputed_for(params, X):
    """the affinity handed over as `y` when the configuration asks for a precomputed kernel / metric (None otherwise);
    `params` may hold the gemini as its label"""
    label = params.get("gemini")
    if params.get("kernel") == "precomputed" or label == "inst:mmd_precomputed":
        from sklearn.metrics import pairwise_kernels
        return pairwise_kernels(X, metric="rbf", gamma=0.3)
    if params.get("metric") == "precomputed" or label == "inst:wass_precomputed":
        from sklearn.metrics import pairwise_distances
        return pairwise_distances(X, metric="l1")
    return None


def resolve_callable(name, key, label):
    """the function behind a 'callable:…' label, with the calling convention of the place that receives it"""
    if key == "base_kernel":                      # KernelRIM: kernel(X, self.input_data_) on two sample MATRICES
        if label == "callable:rbf2d":             # a library function that insists on 2-d inputs (as most user kernels do)
            from sklearn.metrics.pairwise import rbf_kernel
            return rbf_kernel
        if label == "callable:cdist":
            from scipy.spatial.distance import cdist
            return lambda A, B: np.exp(-cdist(np.asarray(A, dtype=float), np.asarray(B, dtype=float), "sqeuclidean") / np.asarray(A).shape[1])
        return lambda A, B: np.asarray(A) @ np.asarray(B).T
    if key == "kernel" and name == "Kauri":       # pairwise_kernels(X, metric=callable): called on pairs of rows
        return lambda a, b: float(np.dot(a, b))
    if key == "kernel":                           # MMDGEMINI.compute_affinity: self.kernel(X)
        return lambda A: np.asarray(A) @ np.asarray(A).T
    return lambda A: np.abs(np.asarray(A)[:, None, :] - np.asarray(A)[None, :, :]).sum(-1)      # a metric


def rebuild(info):
    """(estimator instance, X, y) from the JSON-friendly `info` of `concretise` (used by replays)"""
    kw = dict(info["params"])
    for k in ("kernel", "base_kernel", "metric"):
        if isinstance(kw.get(k), str) and kw[k].startswith("callable:"):
            kw[k] = resolve_callable(info["estimator"], k, kw[k])
    if "gemini" in kw:
        kw["gemini"] = gemini_from_label(kw["gemini"])
    if kw.get("feature_mask") is not None:
        kw["feature_mask"] = np.array(kw["feature_mask"], dtype=bool)
    X = in_container(np.array(info["X"], dtype=float), info.get("container", "ndarray"))
    y = None if info.get("y") is None else np.array(info["y"], dtype=float)
    return fl.estimators()[info["estimator"]](**kw), X, y


# ------------------------------------------------------------------ Kauri runs on the transliterated _utils.pyx
@contextlib.contextmanager
def kauri_translit():
    """the compiled `_utils` extension cannot be rebuilt here (no Cython): bind the transliteration of the CURRENT .pyx"""
    import gemclus.tree.kauri as KM
    from . import kauri_lib as kl
    mx = kl.translit(False)
    old = KM.find_best_split, KM.gemini_objective
    KM.find_best_split = lambda kernel, X, lte, Y, Z, *a: mx.find_best_split(np.asarray(kernel, dtype=float), X, lte, Y, Z, *a)
    KM.gemini_objective = lambda y_pred, kernel: mx.gemini_objective(y_pred, np.asarray(kernel, dtype=float))
    try:
        yield
    finally:
        KM.find_best_split, KM.gemini_objective = old


# ------------------------------------------------------------------ independent reconstruction of `score`
NAME_TABLE = {  # written from the documentation of gemclus.gemini, not from _str_to_gemini
    "mmd_ova": ("MMDGEMINI", False), "mmd_ovo": ("MMDGEMINI", True),
    "wasserstein_ova": ("WassersteinGEMINI", False), "wasserstein_ovo": ("WassersteinGEMINI", True),
    "kl_ova": ("KLGEMINI", False), "kl_ovo": ("KLGEMINI", True), "mi": ("KLGEMINI", False),
    "tv_ova": ("TVGEMINI", False), "tv_ovo": ("TVGEMINI", True),
    "hellinger_ova": ("HellingerGEMINI", False), "hellinger_ovo": ("HellingerGEMINI", True),
    "chi2_ova": ("ChiSquareGEMINI", False), "chi2_ovo": ("ChiSquareGEMINI", True),
}


def expected_objective(info, X, y):
    """(gemini instance with a 'precomputed' affinity, affinity matrix or None) that the documentation of the estimator
    promises for `score`; the affinity is recomputed here with scikit-learn directly"""
    import gemclus.gemini as G
    from sklearn.metrics import pairwise_kernels, pairwise_distances
    name, p = info["estimator"], info["params"]
    cls, ovo, aff = None, False, None
    if name in ("RIM", "KernelRIM", "SparseLinearMI"):
        cls = "KLGEMINI"
    elif name in MMD_EST:
        cls, ovo = "MMDGEMINI", p["ovo"]
        if p["kernel"] == "precomputed":
            aff = y
        elif p["kernel"] == "callable:linear":
            aff = np.asarray(X) @ np.asarray(X).T
        else:
            aff = pairwise_kernels(X, metric=p["kernel"], **(p.get("kernel_params") or {}))
    elif name in WASS_EST:
        cls, ovo = "WassersteinGEMINI", p["ovo"]
        aff = y if p["metric"] == "precomputed" else pairwise_distances(X, metric=p["metric"])
    else:
        g = p["gemini"]
        if g is None:
            cls, ovo, aff = "MMDGEMINI", False, pairwise_kernels(X, metric="linear")
        elif g == "inst:mmd_rbf":
            cls, ovo, aff = "MMDGEMINI", False, pairwise_kernels(X, metric="rbf", gamma=0.5)
        elif g == "inst:wass_l1":
            cls, ovo, aff = "WassersteinGEMINI", False, pairwise_distances(X, metric="l1")
        elif g == "inst:mmd_precomputed":
            cls, ovo, aff = "MMDGEMINI", True, y
        elif g == "inst:wass_precomputed":
            cls, ovo, aff = "WassersteinGEMINI", True, y
        else:
            cls, ovo = NAME_TABLE[g]
            if cls == "MMDGEMINI":
                aff = pairwise_kernels(X, metric="linear")
            if cls == "WassersteinGEMINI":
                aff = pairwise_distances(X, metric="euclidean")
    kw = {"ovo": bool(ovo)}
    if cls == "MMDGEMINI":
        kw["kernel"] = "precomputed"
    if cls == "WassersteinGEMINI":
        kw["metric"] = "precomputed"
    return getattr(G, cls)(**kw), aff


# ------------------------------------------------------------------ finiteness monitor (C17)
class Monitor:
    """wraps `model._update_weights` (instance attribute): after every optimiser step, records the first step at which a
    gradient or a weight is not finite"""

    def __init__(self, model, probe=None):
        self.model = model
        self.steps = 0
        self.first_bad = None
        self.diagnosis = None          # probe(model) evaluated at the first non-finite gradient, before the update
        inner = model._update_weights

        def wrapped(weights, gradients, _inner=inner):
            self.steps += 1
            bad_g = [i for i, g in enumerate(gradients) if not np.isfinite(np.asarray(g, dtype=float)).all()]
            if bad_g and self.first_bad is None and probe is not None:
                self.diagnosis = probe(self.model)
            r = _inner(weights, gradients)
            bad_w = [i for i, w in enumerate(self.model._get_weights()) if not np.isfinite(np.asarray(w, dtype=float)).all()]
            if (bad_g or bad_w) and self.first_bad is None:
                self.first_bad = {"step": self.steps, "nonfinite_gradients": bad_g, "nonfinite_weights": bad_w}
            return r
        model._update_weights = wrapped

    def remove(self):
        try:
            del self.model._update_weights
        except AttributeError:
            pass
