import argparse
import importlib
import os
import signal
import sys
import traceback

from . import core


def setup():
    """build everything from files on disk (offline): regenerate translated units, lake build every property
    module and driver.  A module that fails to build is reported and left to its own check (which then reports the
    broken obligation); setup itself fails only if the core of the library does not build."""
    import glob
    from translator import regen_all
    try:
        regen_all.main()
    except Exception as e:  # a translation failure must not block the build of the rest
        print(f"regen: {type(e).__name__}: {e}")
    ok, log = core.lake_build(["GemVerif.Num", "GemVerif.NumReal", "GemVerif.DriverUtil"])
    print(log[-1500:])
    if not ok:
        return 2
    mods = []
    for sub in ("Props", "Drivers"):
        for f in sorted(glob.glob(os.path.join(core.LEAN, "GemVerif", sub, "*.lean"))):
            mods.append(f"GemVerif.{sub}." + os.path.basename(f)[:-5])
    ok, log = core.lake_build(mods)
    print(log[-3000:])
    if not ok:
        # find out which ones failed, one by one (cheap: everything that built is cached)
        for m in mods:
            o, _ = core.lake_build([m])
            if not o:
                print(f"SETUP-WARNING: {m} does not build")
    return 0


def main():
    ap = argparse.ArgumentParser()
    ap.add_argument("prop", nargs="?")
    ap.add_argument("--tier", default=os.environ.get("VERIF_TIER", "quick"))
    ap.add_argument("--replay")
    ap.add_argument("--setup", action="store_true")
    a = ap.parse_args()
    if a.setup:
        sys.exit(setup())
    seed = int(os.environ.get("VERIF_SEED", "0"))
    sys.path.insert(0, core.REPO)
    mod = importlib.import_module(f"harness.props.{a.prop.lower()}")
    ctx = core.Ctx(a.prop, a.tier, seed)
    try:
        if a.replay:
            sys.exit(mod.replay(ctx, a.replay))
        rc = mod.run(ctx)
    except core.MachineryError as e:
        print(f"MACHINERY-ERROR {a.prop}: {e}", file=sys.stderr)
        sys.exit(2)
    except Exception as e:
        traceback.print_exc()
        if a.replay:
            sys.exit(2)
        # The harness could not finish comparing the implementation with the model: values of an unexpected shape or type came
        # back from /repo (on the pinned sources every check runs to completion).  That is a broken correspondence, not a
        # verdict: whatever the oracles found so far is reported with its replay, otherwise the replay names the failure and
        # the line ends with no-failing-input-found.
        tb = traceback.format_exc()
        ctx.corr_break("harness", {"source_delta": [f"{f}::{u}" for f, u in ctx.delta]},
                       {"harness could not complete": f"{type(e).__name__}: {e}", "traceback_tail": tb[-1500:]})
        try:
            rc = ctx.finish()
        except Exception:
            traceback.print_exc()
            sys.exit(2)
    sys.exit(rc)


if __name__ == "__main__":
    main()
