import argparse
import importlib
import os
import signal
import sys
import traceback

from . import core


def setup():
    """build everything from files on disk (offline): regenerate translated units, lake build, driver smoke test"""
    from translator import regen_all
    regen_all.main()
    ok, log = core.lake_build(["GemVerif"])
    print(log[-3000:])
    if not ok:
        return 2
    return 0


def main():
    ap = argparse.ArgumentParser()
    ap.add_argument("prop", nargs="?")
    ap.add_argument("--tier", default=os.environ.get("VERIF_TIER", "quick"))
    ap.add_argument("--replay")
    ap.add_argument("--setup", action="store_true")
    a = ap.parse_args()
    if a.setup:
        sys.exit(setup())
    seed = int(os.environ.get("VERIF_SEED", "0"))
    sys.path.insert(0, core.REPO)
    mod = importlib.import_module(f"harness.props.{a.prop.lower()}")
    ctx = core.Ctx(a.prop, a.tier, seed)
    try:
        if a.replay:
            sys.exit(mod.replay(ctx, a.replay))
        rc = mod.run(ctx)
    except core.MachineryError as e:
        print(f"MACHINERY-ERROR {a.prop}: {e}", file=sys.stderr)
        sys.exit(2)
    except Exception:
        traceback.print_exc()
        sys.exit(2)
    sys.exit(rc)


if __name__ == "__main__":
    main()
