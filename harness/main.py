import argparse
import importlib
import os
import signal
import sys
import traceback

from . import core


def setup():
    """build everything from files on disk (offline): regenerate translated units, lake build every property
    module and driver.  A module that fails to build is reported and left to its own check (which then reports the
    broken obligation); setup itself fails only if the core of the library does not build."""
    import glob
    from translator import regen_all
    try:
        regen_all.main()
    except Exception as e:  # a translation failure must not block the build of the rest
        print(f"regen: {type(e).__name__}: {e}")
    ok, log = core.lake_build(["GemVerif.Num", "GemVerif.NumReal", "GemVerif.DriverUtil"])
    print(log[-1500:])
    if not ok:
        return 2
    mods = []
    for sub in ("Props", "Drivers"):
        for f in sorted(glob.glob(os.path.join(core.LEAN, "GemVerif", sub, "*.lean"))):
            mods.append(f"GemVerif.{sub}." + os.path.basename(f)[:-5])
    ok, log = core.lake_build(mods)
    print(log[-3000:])
    if not ok:
        # find out which ones failed, one by one (cheap: everything that built is cached)
        for m in mods:
            o, _ = core.lake_build([m])
            if not o:
                print(f"SETUP-WARNING: {m} does not build")
    return 0


def generic_replay(mod, prop, path):
    """replay for the property modules without a dedicated one: the check is re-run with the seed and tier recorded in the replay
    file (every random choice derives from them, so the same inputs are generated), nothing is written, and the run is searched
    for the recorded violation (same key; for a no-failing-input-found replay: the same broken obligation or correspondence).
    Exit 1 = reproduced, 0 = the property holds on that input now."""
    import json
    rep = json.load(open(path))
    ctx = core.Ctx(prop, rep.get("tier", "quick"), int(rep.get("seed", 0)))
    ctx.dry = True
    if rep.get("tier") == "quick" and not ctx.escalated:
        pass
    mod.run(ctx)
    if rep.get("kind") == "no-failing-input-found":
        if ctx.broken:
            what = (ctx.proof or {}).get("broken", [])[:3] or ctx.corr_breaks[:1] or ctx.extra.get("translation_failure")
            print(f"REPRODUCED (still no failing input): {json.dumps(what, default=str)[:600]}")
            return 1
        print("replay: every obligation and correspondence checks now")
        return 0
    hits = [v for v in ctx.violations if v.get("key") == rep.get("key")]
    same = [v for v in hits if json.dumps(v.get("input"), sort_keys=True, default=str) == json.dumps(rep.get("input"), sort_keys=True, default=str)]
    for v in (same or hits)[:3]:
        print(f"REPRODUCED {v['key']}: {v['what'][:300]}" + ("" if v in same else "  (same violation key, another input)"))
    if not hits:
        print("replay: the recorded violation does not occur now (same seed and tier re-run)")
    return 1 if hits else 0


def main():
    ap = argparse.ArgumentParser()
    ap.add_argument("prop", nargs="?")
    ap.add_argument("--tier", default=os.environ.get("VERIF_TIER", "quick"))
    ap.add_argument("--replay")
    ap.add_argument("--setup", action="store_true")
    a = ap.parse_args()
    if a.setup:
        sys.exit(setup())
    seed = int(os.environ.get("VERIF_SEED", "0"))
    sys.path.insert(0, core.REPO)
    mod = importlib.import_module(f"harness.props.{a.prop.lower()}")
    ctx = core.Ctx(a.prop, a.tier, seed)
    try:
        if a.replay:
            rc = 2
            if hasattr(mod, "replay"):
                try:
                    rc = mod.replay(ctx, a.replay)
                except Exception:
                    traceback.print_exc()
                    rc = 2
            if rc == 2:     # no dedicated replay for this kind of record: re-run the check with the recorded seed and tier
                rc = generic_replay(mod, a.prop, a.replay)
            sys.exit(rc)
        rc = mod.run(ctx)
    except core.MachineryError as e:
        print(f"MACHINERY-ERROR {a.prop}: {e}", file=sys.stderr)
        sys.exit(2)
    except Exception as e:
        traceback.print_exc()
        if a.replay:
            sys.exit(2)
        # The harness could not finish comparing the implementation with the model: values of an unexpected shape or type came
        # back from /repo (on the pinned sources every check runs to completion).  That is a broken correspondence, not a
        # verdict: whatever the oracles found so far is reported with its replay, otherwise the replay names the failure and
        # the line ends with no-failing-input-found.
        tb = traceback.format_exc()
        ctx.corr_break("harness", {"source_delta": [f"{f}::{u}" for f, u in ctx.delta]},
                       {"harness could not complete": f"{type(e).__name__}: {e}", "traceback_tail": tb[-1500:]})
        try:
            rc = ctx.finish()
        except Exception:
            traceback.print_exc()
            sys.exit(2)
    sys.exit(rc)


if __name__ == "__main__":
    main()
