"""Shared runners / generators / oracles for C14 (must-link / cannot-link constraints, gemclus/mlcl.py).

gemclus is imported lazily (inside the functions) so that `VERIF_REPO=/tmp/copy ./check C14` exercises a scratch copy.
"""
import itertools
import warnings

import numpy as np

from . import core

MSG = {
    "An element is necessary in the same cluster as itself, check constraints in must-link": "self-must",
    "An element cannot be in a different cluster than itself, check constraints in cannot-link": "self-cannot",
    "Triangular contradiction in Must-link / Cannot-link constraints": "contradiction",
}


# ----------------------------------------------------------------- source fingerprints (informational, DESIGN 4.4)
ANCHORED = ["_check_structural_constraint", "_check_linking_constraint", "add_mlcl_constraint"]
# normalised-AST hashes of the sources the hand model was written against
MODELLED = {
    "_check_structural_constraint": {"1a4beb3836": "snapshot: BFS positions compared with sample indices (= acceptsCurrent)",
                                     "51b7ce8986": "with `i, j = unique_indices[i], unique_indices[j]` (= acceptsFixed)"},
    "_check_linking_constraint": {"a5f68e9f26": "snapshot"},
    "add_mlcl_constraint": {"ac17cac5ac": "snapshot"},
    "decorate_batch": {"1547a9ff17": "snapshot"}, "disguise_batch": {"401ea13dec": "snapshot"},
    "decorate_grads": {"6d34796ec7": "snapshot"}, "intercept_grads": {"2e5b6875ba": "snapshot"},
}


def source_fingerprints():
    """sha1 of ast.dump (comments / layout dropped) of the anchored functions of the mlcl.py under test"""
    import ast
    import hashlib
    import os
    path = os.path.join(core.REPO, "gemclus", "mlcl.py")
    tree = ast.parse(open(path).read())
    out = {}
    for node in ast.walk(tree):
        if isinstance(node, ast.FunctionDef) and node.name in ANCHORED + ["decorate_batch", "disguise_batch", "decorate_grads", "intercept_grads"]:
            if isinstance(node.body[0], ast.Expr) and isinstance(getattr(node.body[0], "value", None), ast.Constant) \
                    and isinstance(node.body[0].value.value, str):
                node.body = node.body[1:]   # docstring
            out[node.name] = hashlib.sha1(ast.dump(node).encode()).hexdigest()[:10]
    return out


# ----------------------------------------------------------------- the real acceptor, with a spy on scipy's BFS
class _CsgraphSpy:
    """stands in for the `csgraph` module object inside gemclus.mlcl; records every BFS call"""

    def __init__(self, real, log):
        self._real = real
        self._log = log

    def breadth_first_order(self, csgraph, i_start, *a, **kw):
        out = self._real.breadth_first_order(csgraph, i_start, *a, **kw)
        nodes = out[0] if isinstance(out, tuple) else out
        self._log.append((np.array(csgraph).copy(), int(i_start), [int(v) for v in np.asarray(nodes).ravel()],
                          dict(kw)))
        return out

    def __getattr__(self, name):
        return getattr(self._real, name)


def fresh_model():
    from gemclus.linear import LinearModel
    return LinearModel(n_clusters=2, max_iter=1)


def real_accept(ml, cl, model=None):
    """add_mlcl_constraint(<fresh model>, ml, cl) -> (token, bfs_calls, exception or None, model_untouched)
       token: ok | self-must | self-cannot | contradiction | raise:<Type>:<message>"""
    import gemclus.mlcl as M
    model = model or fresh_model()
    before = (model._batchify, model._compute_grads)
    log = []
    real_cs = getattr(M, "csgraph", None)
    if real_cs is not None:
        M.csgraph = _CsgraphSpy(real_cs, log)
    exc = None
    try:
        with warnings.catch_warnings():
            warnings.simplefilter("ignore")
            M.add_mlcl_constraint(model, ml, cl)
        tok = "ok"
    except Exception as e:  # noqa: BLE001 - every exception is a verdict here
        exc = e
        tok = MSG.get(str(e)) if isinstance(e, ValueError) else None
        if tok is None:
            tok = f"raise:{type(e).__name__}:{str(e)[:80]}"
    finally:
        if real_cs is not None:
            M.csgraph = real_cs
    untouched = (model._batchify == before[0] and model._compute_grads == before[1])
    return tok, log, exc, untouched


def replicated_uniq(ml):
    """the value of `list(set([p[0] for p in must_link] + [p[1] for p in must_link]))` for the validated array,
       computed with the same element types and insertion order as the source (CPython set order is an input of the model)"""
    from sklearn.utils import check_array
    arr = check_array(ml, ensure_2d=True, ensure_min_features=2, dtype=int)
    ui = [p[0] for p in arr] + [p[1] for p in arr]
    return [int(v) for v in list(set(ui))]


# ----------------------------------------------------------------- independent oracle (from the property statement)
def spec_ok(ml, cl):
    """no element paired with itself and no cannot-link pair inside a connected component of the must-link graph
       (union-find over sample indices); returns (ok, reason)"""
    for (a, b) in list(ml) + list(cl):
        if a == b:
            return False, f"self pair ({a},{b})"
    parent = {}

    def find(x):
        parent.setdefault(x, x)
        while parent[x] != x:
            parent[x] = parent[parent[x]]
            x = parent[x]
        return x
    for (a, b) in ml:
        ra, rb = find(a), find(b)
        if ra != rb:
            parent[ra] = rb
    for (a, b) in cl:
        if a in parent and b in parent and find(a) == find(b):
            return False, f"cannot-link ({a},{b}) inside a must-link component"
    return True, ""


# ----------------------------------------------------------------- driver lines
def ints(xs):
    return " ".join(str(int(v)) for v in xs)


def pairs_tok(ps):
    return f"{len(ps)} " + ints([v for p in ps for v in p]) if len(ps) else "0"


def acc_line(fixed, uniq, ml, cl):
    return f"acc {int(fixed)} {len(uniq)} {ints(uniq)} {pairs_tok(ml)} {pairs_tok(cl)}"


def conn_line(uniq, ml):
    return f"conn {len(uniq)} {ints(uniq)} {pairs_tok(ml)}"


def bfs_line(mat, start):
    n = len(mat)
    return f"bfs {n} {ints((np.asarray(mat) != 0).astype(int).ravel())} {start}"


def inj_line(K, last, cl, ml, factor, y, g):
    return f"inj {K} {len(last)} {ints(last)} {pairs_tok(cl)} {pairs_tok(ml)} {core.fhex(factor)} {core.fl(y)} {core.fl(g)}"


# ----------------------------------------------------------------- generators
def all_pair_sets(index_set):
    """every assignment of the unordered pairs over `index_set` to {absent, must-link, cannot-link, both}"""
    prs = list(itertools.combinations(index_set, 2))
    for code in itertools.product(range(4), repeat=len(prs)):
        ml = [p for p, c in zip(prs, code) if c in (1, 3)]
        cl = [p for p, c in zip(prs, code) if c in (2, 3)]
        yield ml, cl


POOLS = [
    ("contiguous", lambda rs: list(range(int(rs.randint(3, 9))))),
    ("noncontiguous", lambda rs: sorted(rs.choice(60, size=int(rs.randint(3, 9)), replace=False).tolist())),
    ("negative", lambda rs: sorted((rs.choice(40, size=int(rs.randint(3, 8)), replace=False) - 20).tolist())),
    ("large", lambda rs: sorted({int(v) for v in rs.choice([10 ** 6, 2 ** 40, 2 ** 31 - 1, 2 ** 31, 123456789, 7, 0, 3, 12],
                                                           size=6)} | {int(rs.randint(0, 10 ** 9))} | {5, 6})),
    ("small-mixed", lambda rs: [0, 1, 2, 3] + sorted((rs.choice(30, size=3, replace=False) + 4).tolist())),
]


def gen_pairs(rs, pool, k, self_prob=0.0):
    out = []
    for _ in range(k):
        if rs.rand() < self_prob:
            a = int(pool[rs.randint(len(pool))])
            out.append((a, a))
            continue
        a, b = rs.choice(len(pool), size=2, replace=False)
        out.append((int(pool[a]), int(pool[b])))
    if out and rs.rand() < 0.2:      # a repeated constraint, possibly reversed
        a, b = out[rs.randint(len(out))]
        out.append((b, a) if rs.rand() < 0.5 else (a, b))
    return out


def gen_acceptor_case(rs):
    name, mk = POOLS[rs.randint(len(POOLS))]
    pool = mk(rs)
    r = rs.rand()
    sp = 0.08 if r < 0.25 else 0.0
    nml = int(rs.randint(0, 7))
    ncl = int(rs.randint(0, 6))
    if rs.rand() < 0.5:   # chains: long must-link components make contradictions likely
        perm = rs.permutation(len(pool))
        ml = [(int(pool[perm[i]]), int(pool[perm[i + 1]])) for i in range(min(nml, len(pool) - 1))]
        if rs.rand() < 0.5:
            ml = [(b, a) if rs.rand() < 0.5 else (a, b) for (a, b) in ml]
        ml += gen_pairs(rs, pool, int(rs.randint(0, 2)), sp)
    else:
        ml = gen_pairs(rs, pool, nml, sp)
    cl = gen_pairs(rs, pool, ncl, sp)
    rs.shuffle(ml)
    return name, ml, cl


CONTAINERS = ["tuples", "lists", "int-array", "list-of-arrays", "int32-array"]


def as_container(ps, kind):
    """the same pairs in the container types users pass (docstring: list of pairs or ndarray of shape (n, 2))"""
    if kind == "tuples" or len(ps) == 0:
        return [tuple(p) for p in ps]
    if kind == "lists":
        return [list(p) for p in ps]
    if kind == "int-array":
        return np.array(ps, dtype=np.int64)
    if kind == "int32-array":
        if max(abs(v) for p in ps for v in p) >= 2 ** 31:
            return np.array(ps, dtype=np.int64)
        return np.array(ps, dtype=np.int32)
    if kind == "list-of-arrays":
        return [np.array(p) for p in ps]
    raise ValueError(kind)


# what the property says must be rejected with a ValueError / TypeError family exception:
# "inputs that are not two-dimensional lists of indices (scalars, flat lists, single-column arrays)"
def malformed_catalogue():
    return [
        ("scalar-int", 3), ("scalar-float", 2.5), ("scalar-np", np.int64(4)), ("0d-array", np.array(3)),
        ("flat-list", [0, 1]), ("flat-tuple", (0, 2)), ("flat-list-1", [2]), ("flat-array", np.array([0, 1, 2, 3])),
        ("single-column-array", np.array([[0], [1]])), ("single-column-list", [[0], [1]]), ("one-tuple", [(0,)]),
        ("empty-rows", [[]]), ("string", "ab"), ("list-of-strings", ["ab", "cd"]), ("pairs-of-strings", [["a", "b"]]),
        ("3d-array", np.zeros((2, 2, 2), dtype=int)), ("ragged", [[1, 2], [3]]), ("nan-entry", [[np.nan, 1.0]]),
        ("dict", {1: 2}), ("list-of-none", [None, None]), ("object", object()),
    ]


# legal ways of saying "no constraint of this kind" (docstring: None; an empty set of pairs is a set of pairs)
def empty_catalogue():
    return [("None", None), ("empty-list", []), ("empty-array", np.array([])), ("empty-2d", np.zeros((0, 2), dtype=int)),
            ("empty-tuple", ())]


# reported, not judged: the statement does not say what must happen
def unjudged_catalogue():
    return [("3-column-array", np.array([[1, 2, 3]])), ("3-column-list", [[1, 2, 3], [4, 5, 6]]),
            ("float-pairs-integral", [[1.0, 2.0]]), ("float-pairs-fractional", [[1.5, 2.5]]), ("bool-pairs", [[True, False]])]


# ----------------------------------------------------------------- decorated fits with gradient capture
FAMILIES = ["LinearModel", "MLPModel", "CategoricalModel"]
GEMINIS = ["mmd_ova", "mmd_ovo", "mi", "kl_ovo", "tv_ova", "hellinger_ova", "chi2_ova", "wasserstein_ova"]


def make_model(family, **kw):
    if family == "LinearModel":
        from gemclus.linear import LinearModel as C
    elif family == "MLPModel":
        from gemclus.mlp import MLPModel as C
    else:
        from gemclus.nonparametric import CategoricalModel as C
        kw.pop("batch_size", None)
        kw.pop("n_hidden_dim", None)
    if family == "LinearModel":
        kw.pop("n_hidden_dim", None)
    return C(**kw)


def decorated_fit(family, params, X, ml, cl, factor):
    """fit a decorated real model; returns the list of records, one per batch of every epoch:
       {indices, X, y_pred, g_pre (GEMINI gradient entering intercept_grads), g_post (gradient reaching the wrapped _compute_grads)}"""
    import gemclus.mlcl as M
    model = make_model(family, **params)
    recs = []
    cur = {}
    orig = model._compute_grads

    def inner(Xb, y_pred, gradient):
        cur.update(indices=[int(v) for v in model._batchify.indices], X=np.array(Xb).copy(), y_post=np.array(y_pred).copy(),
                   g_post=np.array(gradient).copy())
        return orig(Xb, y_pred, gradient)
    model._compute_grads = inner
    with warnings.catch_warnings():
        warnings.simplefilter("ignore")
        model = M.add_mlcl_constraint(model, ml, cl, factor=factor)
    dec = model._compute_grads

    def outer(Xb, y_pred, gradient):
        cur.clear()
        cur.update(y_pred=np.array(y_pred).copy(), g_pre=np.array(gradient).copy())
        out = dec(Xb, y_pred, gradient)
        recs.append(dict(cur))
        return out
    model._compute_grads = outer
    with warnings.catch_warnings():
        warnings.simplefilter("ignore")
        model.fit(X)
    return recs


def penalty(y, row_of, ml, cl, factor):
    """1/2 * factor * (sum_CL |p_i - p_j|^2 - sum_ML |p_i - p_j|^2) over the pairs with both samples in the batch;
       `row_of` maps a SAMPLE to its row of y (identified through the data rows, not through the library's bookkeeping)"""
    tot = 0.0
    for (a, b) in cl:
        if a in row_of and b in row_of:
            d = y[row_of[a]] - y[row_of[b]]
            tot += float(d @ d)
    for (a, b) in ml:
        if a in row_of and b in row_of:
            d = y[row_of[a]] - y[row_of[b]]
            tot -= float(d @ d)
    return 0.5 * factor * tot


def penalty_gradient_fd(y, row_of, ml, cl, factor, h=0.5):
    """central differences of the penalty (exact for a quadratic up to rounding)"""
    g = np.zeros_like(y, dtype=float)
    for r in range(y.shape[0]):
        for k in range(y.shape[1]):
            yp = y.copy()
            ym = y.copy()
            yp[r, k] += h
            ym[r, k] -= h
            g[r, k] = (penalty(yp, row_of, ml, cl, factor) - penalty(ym, row_of, ml, cl, factor)) / (2 * h)
    return g


def penalty_gradient_direct(y, row_of, ml, cl, factor):
    g = np.zeros_like(y, dtype=float)
    for sign, ps in ((+1.0, cl), (-1.0, ml)):
        for (a, b) in ps:
            if a in row_of and b in row_of:
                ra, rb = row_of[a], row_of[b]
                g[ra] += sign * factor * (y[ra] - y[rb])
                g[rb] += sign * factor * (y[rb] - y[ra])
    return g
