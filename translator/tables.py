"""Table translator: regenerates Lean data from /repo's current sources (python `ast`, no import of gemclus).

Units:
  registry()    gemini/_utils.py::_str_to_gemini + AVAILABLE_GEMINIS  -> Gen/Registry.lean
Every unit returns (python_data, lean_text); a source outside the expected skeleton raises
TranslationFailure (the tie is then broken and the check starts its failing-input search).
"""
import ast
import os

REPO = os.environ.get("VERIF_REPO", "/repo")


class TranslationFailure(Exception):
    pass


def _parse(rel):
    path = os.path.join(REPO, rel)
    return ast.parse(open(path).read(), filename=path)


def _find(tree, kind, name):
    for node in ast.walk(tree):
        if isinstance(node, kind) and getattr(node, "name", None) == name:
            return node
    raise TranslationFailure(f"{name} not found")


def lean_str(s):
    return '"' + s.replace("\\", "\\\\").replace('"', '\\"') + '"'


def lean_bool(b):
    return "true" if b else "false"


# ------------------------------------------------------------------ GEMINI classes
def gemini_classes():
    """class name -> {base, init_defaults{param: const}, super_kwargs{param: const-or-('param', name)}}"""
    out = {}
    for rel in ("gemclus/gemini/_fdivergences.py", "gemclus/gemini/_geomdistances.py"):
        tree = _parse(rel)
        for node in tree.body:
            if not isinstance(node, ast.ClassDef):
                continue
            info = {"bases": [b.id for b in node.bases if isinstance(b, ast.Name)], "defaults": None,
                    "super_kwargs": None, "assigns": {}, "has_evaluate": False, "file": rel}
            for item in node.body:
                if isinstance(item, ast.FunctionDef) and item.name == "evaluate":
                    info["has_evaluate"] = True
                if isinstance(item, ast.FunctionDef) and item.name == "__init__":
                    args = item.args
                    names = [a.arg for a in args.args][1:]
                    defs = args.defaults
                    d = {}
                    for nme, dv in zip(names[len(names) - len(defs):], defs):
                        if not isinstance(dv, ast.Constant):
                            raise TranslationFailure(f"{node.name}.__init__: non-constant default for {nme}")
                        d[nme] = dv.value
                    info["defaults"] = d
                    info["params"] = names
                    for st in ast.walk(item):
                        if isinstance(st, ast.Call) and isinstance(st.func, ast.Attribute) and st.func.attr == "__init__":
                            kw = {}
                            for k in st.keywords:
                                kw[k.arg] = _const_or_param(k.value)
                            # positional args of _GEMINI.__init__(epsilon)
                            info["super_kwargs"] = kw
                            info["super_pos"] = [_const_or_param(a) for a in st.args]
                        if isinstance(st, ast.Assign) and len(st.targets) == 1 and isinstance(st.targets[0], ast.Attribute) \
                                and isinstance(st.targets[0].value, ast.Name) and st.targets[0].value.id == "self":
                            info["assigns"][st.targets[0].attr] = _const_or_param(st.value)
            out[node.name] = info
    return out


def _const_or_param(v):
    if isinstance(v, ast.Constant):
        return ("const", v.value)
    if isinstance(v, ast.Name):
        return ("param", v.id)
    raise TranslationFailure(f"unsupported argument expression {ast.dump(v)}")


def resolve_gemini_call(classes, cls, kwargs):
    """Resolve `cls(**kwargs)` (constants only) to (concrete evaluating class, attribute values)."""
    seen = 0
    attrs = {}
    while True:
        seen += 1
        if seen > 5 or cls not in classes:
            raise TranslationFailure(f"cannot resolve GEMINI class {cls}")
        info = classes[cls]
        if info["defaults"] is None:
            raise TranslationFailure(f"{cls} has no __init__")
        env = dict(info["defaults"])
        for k, v in kwargs.items():
            if k not in info["params"]:
                raise TranslationFailure(f"{cls}() got unexpected {k}")
            env[k] = v
        for a, (kind, val) in info["assigns"].items():
            attrs.setdefault(a, val if kind == "const" else env.get(val))
        if info["has_evaluate"]:
            for p in info["params"]:
                attrs.setdefault(p, env.get(p))
            return cls, attrs
        # forwards to its base through super().__init__(...)
        base = info["bases"][0]
        kw = {}
        for k, (kind, val) in (info["super_kwargs"] or {}).items():
            kw[k] = val if kind == "const" else env.get(val)
        cls, kwargs = base, kw


def registry():
    tree = _parse("gemclus/gemini/_utils.py")
    fn = _find(tree, ast.FunctionDef, "_str_to_gemini")
    avail = None
    for node in tree.body:
        if isinstance(node, ast.Assign) and getattr(node.targets[0], "id", None) == "AVAILABLE_GEMINIS":
            avail = [e.value for e in node.value.elts]
    if avail is None:
        raise TranslationFailure("AVAILABLE_GEMINIS not found")
    classes = gemini_classes()
    entries = {}
    arg = fn.args.args[0].arg
    body = fn.body
    # skeleton: [if not in AVAILABLE: raise] then an if/elif chain of `arg == "name"` (or-combinations) -> return Cls(kw=const)
    chain = [s for s in body if isinstance(s, ast.If)]
    if len(chain) != 2:
        raise TranslationFailure("_str_to_gemini: unexpected statement skeleton")
    guard, node = chain
    if not (isinstance(guard.test, ast.Compare) and isinstance(guard.test.ops[0], ast.NotIn)
            and isinstance(guard.body[0], ast.Raise)):
        raise TranslationFailure("_str_to_gemini: membership guard missing")
    while node is not None:
        names = _names_of_test(node.test, arg)
        if len(node.body) != 1 or not isinstance(node.body[0], ast.Return) or not isinstance(node.body[0].value, ast.Call):
            raise TranslationFailure("_str_to_gemini: branch is not `return Cls(...)`")
        call = node.body[0].value
        if call.args:
            raise TranslationFailure("_str_to_gemini: positional constructor args")
        kwargs = {}
        for k in call.keywords:
            if not isinstance(k.value, ast.Constant):
                raise TranslationFailure("_str_to_gemini: non-constant kwarg")
            kwargs[k.arg] = k.value.value
        cls, attrs = resolve_gemini_call(classes, call.func.id, kwargs)
        for nme in names:
            if nme in entries:
                continue  # first matching branch wins
            entries[nme] = (cls, bool(attrs.get("ovo")), attrs)
        if len(node.orelse) == 1 and isinstance(node.orelse[0], ast.If):
            node = node.orelse[0]
        elif not node.orelse:
            node = None
        else:
            raise TranslationFailure("_str_to_gemini: trailing else")
    data = {"available": avail, "entries": {k: (v[0], v[1]) for k, v in entries.items()},
            "attrs": {k: v[2] for k, v in entries.items()}}
    lines = ["/- GENERATED by translator/tables.py from gemclus/gemini/_utils.py — do not edit. -/",
             "namespace GemVerif.Gen", "",
             "/-- `AVAILABLE_GEMINIS` -/",
             "def availableGeminis : List String := [" + ", ".join(lean_str(a) for a in avail) + "]", "",
             "/-- `_str_to_gemini`: name ↦ (class whose `evaluate` runs, ovo flag, kernel/metric name or \"\") -/",
             "def registry : List (String × String × Bool × String) := ["]
    rows = []
    for nme in sorted(entries):
        cls, ovo, attrs = entries[nme]
        aff = attrs.get("kernel") or attrs.get("metric") or ""
        rows.append(f"  ({lean_str(nme)}, {lean_str(cls)}, {lean_bool(ovo)}, {lean_str(aff)})")
    lines.append(",\n".join(rows) + "]")
    lines += ["", "end GemVerif.Gen", ""]
    return data, "\n".join(lines)


def _names_of_test(test, arg):
    if isinstance(test, ast.BoolOp) and isinstance(test.op, ast.Or):
        out = []
        for v in test.values:
            out += _names_of_test(v, arg)
        return out
    if isinstance(test, ast.Compare) and isinstance(test.ops[0], ast.Eq) and isinstance(test.left, ast.Name) \
            and test.left.id == arg and isinstance(test.comparators[0], ast.Constant):
        return [test.comparators[0].value]
    raise TranslationFailure("_str_to_gemini: unsupported test")


if __name__ == "__main__":
    d, t = registry()
    print(t)
    print(d)
