"""Translator for the synthetic data generators (property C20).

Reads the CURRENT `gemclus/data/synthetic_data.py` with `ast` (gemclus is never imported) and emits
`lean/GemVerif/Gen/DataGen.lean`:

  draw_gmm               ordered validity guards (common / 1-D / n-D), arguments handed to `choice`, `normal`
                         (in particular whether `scale[k]` or `np.sqrt(scale[k])` is the standard deviation) and
                         `multivariate_normal`, the selection `X[k][i] for i, k in enumerate(y)` — read off TWO passes
                         over the body, one per value of the folded test `d == 1` (class `_GmmPass`: the loops over
                         the components may be written as loops, comprehensions, merged `if d == 1` branches, and the
                         selection as the comprehension or as `np.stack(X)[y, np.arange(n)]`; what must hold is the
                         ORDER labels -> all checks -> the K draws -> selection)
  multivariate_student_t arguments of `multivariate_normal` / `chisquare`, the formula `sqrt(df/u)*nx + loc`
  gstm                   locations matrix, identity covariance, `3*n//4` split, rows/proportions handed to
                         draw_gmm, the student row, label value, stacking order, final permutation gather
  celeux_one             mean coefficients (of mu), covariance, proportions, noise call, column order
  celeux_two             means, covariance, proportions, b, offsets, block noise covariance (entries in Q(sqrt 3)),
                         X12_14 mean / covariance, affine formula, column order
  every function         RNG primitives called and on which object (the checked `generator`, never `np.random.*`)

Numbers are exact: decimal literals become rationals `(num, den)`, `np.sqrt(3)` is carried symbolically as
`a + b*sqrt(3)` with rational a, b.  Reshapes of a symbolic value are transparent (`.reshape`, `.ravel`, … and the
subscripts made of full slices and `np.newaxis` only: the formula tokens speak about entries, the differential check about
shapes).  Calls of pure top-level helper functions of the module are inlined
(`Evaluator.inline`).  Anything outside the expected statement skeleton raises TranslationFailure
(the tie is then broken and the check runs its failing-input search).
"""
import ast
import os
import re
from fractions import Fraction

import numpy as np

from .tables import TranslationFailure, lean_str, lean_bool

REL = "gemclus/data/synthetic_data.py"
RNG_PRIMS = {"choice", "normal", "multivariate_normal", "chisquare", "permutation", "standard_normal", "randn",
             "rand", "random", "random_sample", "uniform", "randint", "shuffle", "standard_t", "gamma", "beta",
             "binomial", "multinomial", "exponential", "poisson", "dirichlet", "laplace", "lognormal"}


def _repo():
    return os.environ.get("VERIF_REPO", "/repo")


def _parse():
    path = os.path.join(_repo(), REL)
    return ast.parse(open(path).read(), filename=path)


def _func(tree, name):
    for node in tree.body:
        if isinstance(node, ast.FunctionDef) and node.name == name:
            return node
    raise TranslationFailure(f"{name} not found in {REL}")


# ------------------------------------------------------------------ exact numbers in Q(sqrt 3)
class Q3:
    """a + b*sqrt(3), a and b rational"""
    __slots__ = ("a", "b")

    def __init__(self, a=0, b=0):
        self.a = Fraction(a)
        self.b = Fraction(b)

    @staticmethod
    def of(x):
        if isinstance(x, Q3):
            return x
        if isinstance(x, bool):
            raise TranslationFailure("boolean used as a number")
        if isinstance(x, int):
            return Q3(x)
        if isinstance(x, Fraction):
            return Q3(x)
        if isinstance(x, float):
            return Q3(Fraction(repr(x)))     # the decimal literal as written, exactly
        raise TranslationFailure(f"not a number: {x!r}")

    def __add__(self, o):
        if isinstance(o, np.ndarray):
            return NotImplemented
        o = Q3.of(o)
        return Q3(self.a + o.a, self.b + o.b)
    __radd__ = __add__

    def __neg__(self):
        return Q3(-self.a, -self.b)

    def __sub__(self, o):
        if isinstance(o, np.ndarray):
            return NotImplemented
        return self + (-Q3.of(o))

    def __rsub__(self, o):
        return Q3.of(o) + (-self)

    def __mul__(self, o):
        if isinstance(o, np.ndarray):
            return NotImplemented
        o = Q3.of(o)
        return Q3(self.a * o.a + 3 * self.b * o.b, self.a * o.b + self.b * o.a)
    __rmul__ = __mul__

    def __truediv__(self, o):
        o = Q3.of(o)
        if o.b != 0 or o.a == 0:
            raise TranslationFailure("division by a non-rational or zero constant")
        return Q3(self.a / o.a, self.b / o.a)

    def __eq__(self, o):
        o = Q3.of(o)
        return self.a == o.a and self.b == o.b

    def __hash__(self):
        return hash((self.a, self.b))

    def __repr__(self):
        return f"Q3({self.a},{self.b})"

    def rational(self):
        if self.b != 0:
            raise TranslationFailure("irrational constant where a rational is expected")
        return self.a

    def __float__(self):
        return float(self.a) + float(self.b) * 3 ** 0.5


def _arr(x):
    """nested python lists / numbers -> object ndarray of Q3"""
    a = np.array(x, dtype=object)
    out = np.empty(a.shape, dtype=object)
    for idx in np.ndindex(a.shape):
        out[idx] = Q3.of(a[idx])
    if a.shape == ():
        return out[()]
    return out


class Sym:
    """a value that depends on the function's parameters / RNG draws; `s` is its canonical description"""
    def __init__(self, s):
        self.s = s

    def __repr__(self):
        return f"Sym({self.s})"


class Scaled:
    """constant array times a symbolic scalar parameter"""
    def __init__(self, arr, sym):
        self.arr = arr
        self.sym = sym

    def __repr__(self):
        return f"Scaled({self.arr!r},{self.sym})"


def _is_num(v):
    return isinstance(v, (Q3, np.ndarray))


def describe(v):
    """canonical string of an evaluated value (for tokens)"""
    if isinstance(v, Sym):
        return v.s
    if isinstance(v, Scaled):
        return f"mul({describe(v.arr)},{v.sym})"
    if isinstance(v, Q3):
        if v.b == 0:
            return str(v.a)
        return f"({v.a}+{v.b}*sqrt3)"
    if isinstance(v, np.ndarray):
        return "[" + ",".join(describe(x) for x in v) + "]"
    if isinstance(v, (list, tuple)):
        return "[" + ",".join(describe(x) for x in v) + "]"
    if isinstance(v, str):
        return repr(v)
    if v is None:
        return "None"
    return str(v)


SHAPE_ONLY_METHODS = {"reshape", "ravel", "flatten", "squeeze", "item", "copy"}
SHAPE_ONLY_FUNCS = {"asarray", "ravel", "squeeze", "atleast_1d", "float", "float64"}
BINOPS = {ast.Add: "add", ast.Sub: "sub", ast.Mult: "mul", ast.Div: "div", ast.FloorDiv: "floordiv",
          ast.MatMult: "matmul", ast.Pow: "pow", ast.Mod: "mod"}
CMPOPS = {ast.Eq: "eq", ast.NotEq: "ne", ast.Lt: "lt", ast.LtE: "le", ast.Gt: "gt", ast.GtE: "ge"}


class Evaluator:
    """Abstract interpreter for the straight-line constant-building code of gstm / celeux_one / celeux_two and a
    canonical printer for everything that depends on parameters."""

    def __init__(self, fn, rng_name_hint="generator", helpers=None, depth=0):
        self.fn = fn
        self.helpers = helpers or {}    # pure top-level functions of the module (bound once, undecorated): calls are inlined
        self.depth = depth
        self.env = {}
        self.calls = []          # RNG primitive calls and calls of sibling generators, in program order
        self.generator = None    # local name bound by check_random_state(random_state)
        self.global_rng = False
        self.ret = None
        for a in fn.args.args:
            self.env[a.arg] = Sym(a.arg)

    # ---- expressions
    def ev(self, node):
        if isinstance(node, ast.Constant):
            if isinstance(node.value, (int, float)) and not isinstance(node.value, bool):
                return Q3.of(node.value)
            if node.value is None:
                return None
            return Sym(repr(node.value))
        if isinstance(node, ast.Name):
            if node.id in self.env:
                return self.env[node.id]
            raise TranslationFailure(f"{self.fn.name}: unknown name {node.id}")
        if isinstance(node, ast.UnaryOp) and isinstance(node.op, ast.USub):
            v = self.ev(node.operand)
            if _is_num(v):
                return -v
            if isinstance(v, Scaled):
                return Scaled(-v.arr, v.sym)
            return Sym(f"neg({describe(v)})")
        if isinstance(node, ast.UnaryOp) and isinstance(node.op, ast.Not):
            return Sym(f"not({describe(self.ev(node.operand))})")
        if isinstance(node, (ast.List, ast.Tuple)):
            return [self.ev(e) for e in node.elts]
        if isinstance(node, ast.BinOp):
            return self.binop(node)
        if isinstance(node, ast.Compare) and len(node.ops) == 1:
            return Sym(f"{CMPOPS[type(node.ops[0])]}({describe(self.ev(node.left))},{describe(self.ev(node.comparators[0]))})")
        if isinstance(node, ast.BoolOp):
            op = "or" if isinstance(node.op, ast.Or) else "and"
            return Sym(f"{op}(" + ",".join(describe(self.ev(v)) for v in node.values) + ")")
        if isinstance(node, ast.Attribute):
            if isinstance(node.value, ast.Name) and node.value.id == "np" and node.attr == "random":
                self.global_rng = True
                return Sym("np.random")
            v = self.ev(node.value)
            if node.attr == "T":
                if isinstance(v, np.ndarray):
                    return v.T
                return Sym(f"T({describe(v)})")
            if node.attr == "shape":
                return Sym(f"shape({describe(v)})")
            raise TranslationFailure(f"{self.fn.name}: unsupported attribute .{node.attr}")
        if isinstance(node, ast.Subscript):
            return self.subscript(node)
        if isinstance(node, ast.Call):
            return self.call(node)
        if isinstance(node, ast.Starred):
            return ("*", self.ev(node.value))
        raise TranslationFailure(f"{self.fn.name}: unsupported expression {ast.dump(node)[:80]}")

    def binop(self, node):
        op = BINOPS.get(type(node.op))
        if op is None:
            raise TranslationFailure(f"{self.fn.name}: unsupported operator {type(node.op).__name__}")
        l, r = self.ev(node.left), self.ev(node.right)
        # python list arithmetic
        if isinstance(l, list) and op == "mul" and isinstance(r, Q3):
            return l * int(r.rational())
        if isinstance(l, list) and isinstance(r, list) and op == "add":
            return l + r
        if _is_num(l) and _is_num(r):
            if op == "add":
                return l + r
            if op == "sub":
                return l - r
            if op == "mul":
                return l * r
            if op == "div":
                if isinstance(r, np.ndarray):
                    raise TranslationFailure("division by an array constant")
                if isinstance(l, np.ndarray):
                    out = np.empty(l.shape, dtype=object)
                    for idx in np.ndindex(l.shape):
                        out[idx] = l[idx] / r
                    return out
                return l / r
            if op == "matmul":
                return np.dot(l, r)
            if op == "floordiv" and isinstance(l, Q3) and isinstance(r, Q3):
                return Q3(l.rational() // r.rational())
            if op == "pow" and isinstance(l, Q3) and isinstance(r, Q3) and r.rational().denominator == 1 and r.rational() >= 0:
                out = Q3(1)
                for _ in range(int(r.rational())):
                    out = out * l
                return out
        if op == "mul":
            if _is_num(l) and isinstance(r, Sym) and re.fullmatch(r"[A-Za-z_]\w*", r.s):
                return Scaled(l, r.s)
            if _is_num(r) and isinstance(l, Sym) and re.fullmatch(r"[A-Za-z_]\w*", l.s):
                return Scaled(r, l.s)
        return Sym(f"{op}({describe(l)},{describe(r)})")

    def shape_only_index(self, sl):
        """`[:, np.newaxis]`, `[np.newaxis, :]`, `[:, None]`, …: nothing but full slices and new axes — the same entries in the
        same order under another shape, like `.reshape(…)` (SHAPE_ONLY_METHODS)"""
        def full(x):
            return isinstance(x, ast.Slice) and x.lower is None and x.upper is None and x.step is None

        def new(x):
            return (isinstance(x, ast.Constant) and x.value is None) or \
                (isinstance(x, ast.Attribute) and x.attr == "newaxis" and isinstance(x.value, ast.Name)
                 and x.value.id in ("np", "numpy") and x.value.id not in self.env)
        idx = list(sl.elts) if isinstance(sl, ast.Tuple) else [sl]
        return bool(idx) and all(full(x) or new(x) for x in idx) and any(new(x) for x in idx)

    def subscript(self, node):
        v = self.ev(node.value)
        sl = node.slice
        if isinstance(v, Sym) and self.shape_only_index(sl):
            return v
        if isinstance(v, (np.ndarray, Scaled, list)):
            base = v.arr if isinstance(v, Scaled) else v
            try:
                if isinstance(sl, ast.Slice):
                    lo = None if sl.lower is None else int(self.ev(sl.lower).rational())
                    hi = None if sl.upper is None else int(self.ev(sl.upper).rational())
                    if sl.step is not None:
                        raise TranslationFailure("slice step")
                    res = base[lo:hi]
                else:
                    res = base[int(self.ev(sl).rational())]
            except AttributeError:
                raise TranslationFailure(f"{self.fn.name}: non-constant index")
            return Scaled(res, v.sym) if isinstance(v, Scaled) else res
        if isinstance(sl, ast.Slice):
            raise TranslationFailure(f"{self.fn.name}: slice of a symbolic value")
        return Sym(f"idx({describe(v)},{describe(self.ev(sl))})")

    def call(self, node):
        f = node.func
        args = [self.ev(a) for a in node.args]
        kw = {k.arg: self.ev(k.value) for k in node.keywords}
        # np.<fn>
        if isinstance(f, ast.Attribute) and isinstance(f.value, ast.Name) and f.value.id in ("np", "numpy", "math"):
            if f.attr == "full" and f.value.id != "math" and len(node.args) == 2 and not kw \
                    and isinstance(node.args[1], ast.Constant) and type(node.args[1].value) is float:
                # `np.full(m, c)` with a float literal: the float array `np.ones(m) * c`
                return Sym(f"mul(ones({describe(args[0])}),{describe(args[1])})")
            return self.np_call(f.attr, args, kw)
        if isinstance(f, ast.Name) and f.id in self.helpers and f.id not in self.env:
            return self.inline(f.id, node, args, kw)
        if isinstance(f, ast.Attribute) and isinstance(f.value, ast.Attribute) and isinstance(f.value.value, ast.Name) \
                and f.value.value.id == "np":
            if f.value.attr == "random":
                self.global_rng = True
                self.calls.append({"on": "np.random", "prim": f.attr, "args": args, "kw": kw})
                return Sym(f"np.random.{f.attr}")
            if f.value.attr == "linalg":
                return Sym(f"{f.attr}(" + ",".join(describe(a) for a in args) + ")")
        # method calls
        if isinstance(f, ast.Attribute):
            if isinstance(f.value, ast.Name) and f.value.id == self.generator:
                idx = len(self.calls)
                self.calls.append({"on": "generator", "prim": f.attr, "args": args, "kw": kw})
                return Sym(f"rng{idx}")
            recv = self.ev(f.value)
            if isinstance(recv, Sym) and recv.s == "np.random":
                self.global_rng = True
                self.calls.append({"on": "np.random", "prim": f.attr, "args": args, "kw": kw})
                return Sym(f"np.random.{f.attr}")
            if f.attr in SHAPE_ONLY_METHODS:
                return recv
            if f.attr in ("any", "all") and not args:
                return Sym(f"{f.attr}({describe(recv)})")
            if f.attr in RNG_PRIMS:
                # a draw on some other object than the checked generator
                self.calls.append({"on": describe(recv), "prim": f.attr, "args": args, "kw": kw})
                return Sym(f"foreign.{f.attr}")
            raise TranslationFailure(f"{self.fn.name}: unsupported method .{f.attr}")
        if isinstance(f, ast.Name):
            if f.id == "check_random_state":
                return Sym("generator")
            if f.id == "block_diag":
                mats = []
                for a in args:
                    if isinstance(a, tuple) and a[0] == "*":
                        mats += list(a[1])
                    else:
                        mats.append(a)
                return _block_diag(mats)
            if f.id in ("draw_gmm", "multivariate_student_t"):
                idx = len(self.calls)
                self.calls.append({"on": "sibling", "prim": f.id, "args": args, "kw": kw})
                return Sym(f"{f.id}{idx}")
            if f.id in ("len", "range", "enumerate", "int"):
                return Sym(f"{f.id}(" + ",".join(describe(a) for a in args) + ")")
            if f.id in SHAPE_ONLY_FUNCS and len(args) == 1:
                return args[0]
            if f.id == "check_array":
                return args[0]
        raise TranslationFailure(f"{self.fn.name}: unsupported call {ast.dump(f)[:80]}")

    def inline(self, name, node, args, kw):
        """a call of a pure top-level helper function: its straight-line body is evaluated on the argument values (its RNG
        calls, if any, are recorded in program order like the caller's)"""
        from .geminis import check_plain_function
        fn = self.helpers[name]
        a = fn.args
        if self.depth >= 8 or fn.decorator_list or a.vararg or a.kwarg or a.kwonlyargs or a.posonlyargs or a.defaults:
            raise TranslationFailure(f"{self.fn.name}: unsupported helper function {name}")
        params = [x.arg for x in a.args]
        if any(isinstance(x, tuple) and x and x[0] == "*" for x in args) or None in kw or len(args) > len(params):
            raise TranslationFailure(f"{self.fn.name}: arguments of {name} do not match its signature")
        given = dict(zip(params, args))
        for k, v in kw.items():
            if k not in params or k in given:
                raise TranslationFailure(f"{self.fn.name}: arguments of {name} do not match its signature")
            given[k] = v
        if len(given) != len(params):
            raise TranslationFailure(f"{self.fn.name}: arguments of {name} do not match its signature")

        class _U:
            def fail(_, msg, node=None):
                raise TranslationFailure(f"{self.fn.name}: helper function {msg}")
        check_plain_function(_U(), fn)
        sub = Evaluator(fn, helpers=self.helpers, depth=self.depth + 1)
        sub.env = dict(given)
        sub.calls = self.calls
        for st in fn.body:
            sub.stmt(st)
            if isinstance(st, ast.Return):
                break
        else:
            raise TranslationFailure(f"{self.fn.name}: helper function {name} does not end with a return at the top level of its body")
        self.global_rng = self.global_rng or sub.global_rng
        return sub.ret

    def np_call(self, name, args, kw):
        def const_int(v):
            if isinstance(v, Q3) and v.rational().denominator == 1:
                return int(v.rational())
            return None
        if name in ("ones", "zeros") and len(args) == 1:
            k = const_int(args[0])
            if k is not None:
                return _arr([1 if name == "ones" else 0] * k)
            return Sym(f"{name}({describe(args[0])})")
        if name == "eye" and len(args) == 1 and const_int(args[0]) is not None:
            k = const_int(args[0])
            return _arr([[1 if i == j else 0 for j in range(k)] for i in range(k)])
        if name == "array" and len(args) == 1:
            return _arr(_nest(args[0]))
        if name == "diag" and len(args) == 1 and isinstance(args[0], np.ndarray) and args[0].ndim == 1:
            k = len(args[0])
            return _arr([[args[0][i] if i == j else 0 for j in range(k)] for i in range(k)])
        if name == "sqrt" and len(args) == 1:
            v = args[0]
            if isinstance(v, Q3) and v.b == 0:
                if v.a == 3:
                    return Q3(0, 1)
                from math import isqrt
                n_, d_ = v.a.numerator, v.a.denominator
                if n_ >= 0 and isqrt(n_) ** 2 == n_ and isqrt(d_) ** 2 == d_:
                    return Q3(Fraction(isqrt(n_), isqrt(d_)))
                raise TranslationFailure(f"sqrt of constant {v.a} unsupported")
            return Sym(f"sqrt({describe(v)})")
        if name in ("matmul", "dot") and len(args) == 2 and not kw and all(isinstance(a, np.ndarray) for a in args):
            return np.dot(args[0], args[1])          # constants: exact arithmetic in Q(sqrt 3), as for `@`
        if name in SHAPE_ONLY_FUNCS and len(args) == 1:
            return args[0]
        extra = "".join(f",{k}={describe(v)}" for k, v in sorted(kw.items()))
        return Sym(f"{name}(" + ",".join(describe(a) for a in args) + extra + ")")

    # ---- statements
    def run(self):
        for st in self.fn.body:
            self.stmt(st)
        return self

    def stmt(self, st):
        if isinstance(st, ast.Expr) and isinstance(st.value, ast.Constant):
            return  # docstring
        if isinstance(st, ast.Assign) and len(st.targets) == 1:
            tgt = st.targets[0]
            if isinstance(st.value, ast.Call) and isinstance(st.value.func, ast.Name) and st.value.func.id == "check_random_state":
                if not isinstance(tgt, ast.Name):
                    raise TranslationFailure("check_random_state result not bound to a name")
                arg = st.value.args[0] if st.value.args else None
                if not (isinstance(arg, ast.Name) and arg.id == "random_state"):
                    raise TranslationFailure("check_random_state is not applied to the random_state parameter")
                self.generator = tgt.id
                self.env[tgt.id] = Sym("generator")
                return
            v = self.ev(st.value)
            if isinstance(tgt, ast.Name):
                self.env[tgt.id] = v
                return
            if isinstance(tgt, ast.Tuple) and all(isinstance(e, ast.Name) for e in tgt.elts) and isinstance(v, Sym):
                for j, e in enumerate(tgt.elts):
                    self.env[e.id] = Sym(f"{v.s}.{j}")
                return
            raise TranslationFailure(f"{self.fn.name}: unsupported assignment target")
        if isinstance(st, ast.AugAssign) and isinstance(st.target, ast.Name) and isinstance(st.op, ast.Add):
            cur = self.env.get(st.target.id)
            v = self.ev(st.value)
            if isinstance(cur, list) and isinstance(v, list):
                self.env[st.target.id] = cur + v
                return
            raise TranslationFailure(f"{self.fn.name}: unsupported augmented assignment")
        if isinstance(st, ast.Return):
            self.ret = self.ev(st.value)
            return
        if isinstance(st, ast.FunctionDef) and self.depth == 0:
            # a local helper function: from here on a call `name(…)` runs its body — inlined like a top-level helper, on the
            # argument values only (a body that reads a variable of the enclosing function is refused: unknown name)
            from .geminis import _walk_scope
            bound = [n.id for n in _walk_scope(self.fn.body) if isinstance(n, ast.Name) and isinstance(n.ctx, (ast.Store, ast.Del))]
            bound += [n.name for n in _walk_scope(self.fn.body) if isinstance(n, (ast.FunctionDef, ast.AsyncFunctionDef, ast.ClassDef))]
            bound += [a.arg for a in self.fn.args.args]
            declared = any(isinstance(n, (ast.Global, ast.Nonlocal)) for n in ast.walk(self.fn))
            if st.decorator_list or bound.count(st.name) != 1 or st.name in self.env or declared \
                    or st.name in ("np", "numpy", "math", "block_diag", "check_random_state", "draw_gmm", "multivariate_student_t"):
                raise TranslationFailure(f"{self.fn.name}: unsupported local function {st.name}")
            self.helpers = dict(self.helpers)
            self.helpers[st.name] = st
            return
        raise TranslationFailure(f"{self.fn.name}: unsupported statement {type(st).__name__}")


def _nest(v):
    if isinstance(v, list):
        return [_nest(x) for x in v]
    if isinstance(v, np.ndarray):
        return [_nest(x) for x in v]
    if isinstance(v, Q3):
        return v
    raise TranslationFailure(f"non-constant entry in np.array literal: {describe(v)}")


def _block_diag(mats):
    for m in mats:
        if not (isinstance(m, np.ndarray) and m.ndim == 2):
            raise TranslationFailure("block_diag of a non-constant block")
    r = sum(m.shape[0] for m in mats)
    c = sum(m.shape[1] for m in mats)
    out = np.empty((r, c), dtype=object)
    for idx in np.ndindex(out.shape):
        out[idx] = Q3(0)
    i = j = 0
    for m in mats:
        out[i:i + m.shape[0], j:j + m.shape[1]] = m
        i += m.shape[0]
        j += m.shape[1]
    return out


# ------------------------------------------------------------------ Lean printers
def lq(fr):
    fr = Fraction(fr)
    return f"({fr.numerator}, {fr.denominator})"


def lean_qvec(v):
    return "[" + ", ".join(lq(Q3.of(x).rational()) for x in v) + "]"


def lean_qmat(m):
    return "[" + ",\n   ".join(lean_qvec(r) for r in m) + "]"


def lean_q3mat(m):
    return "[" + ",\n   ".join("[" + ", ".join(f"({lq(x.a)}, {lq(x.b)})" for x in r) + "]" for r in m) + "]"


def lean_ivec(v):
    out = []
    for x in v:
        f = Q3.of(x).rational()
        if f.denominator != 1:
            raise TranslationFailure("integer expected")
        out.append(str(int(f)))
    return "[" + ", ".join(out) + "]"


def lean_imat(m):
    return "[" + ", ".join(lean_ivec(r) for r in m) + "]"


def lean_strs(v):
    return "[" + ", ".join(lean_str(s) for s in v) + "]"


# ------------------------------------------------------------------ draw_gmm / multivariate_student_t (structural)
GUARD_TOKENS = {
    "ne(K,idx(shape(scale),0))": "lenScale",
    "ne(d,1)=>or(ne(d,idx(shape(scale),1)),ne(d,idx(shape(scale),2)))": "square",
    "ne(K,idx(shape(pvals),0))": "lenPvals",
    "any(le(pvals,0))": "pvalsPos",
    "ne(sum(pvals),1)": "pvalsSum",
    "le(idx(scale,k),0)": "varPos",
    "any(lt(eigvals(idx(scale,k)),0))": "eigNonneg",
    "all(eq(idx(scale,k),0))": "notAllZero",
    "not(allclose(idx(scale,k),T(idx(scale,k))))": "symmetric",
    "any(ne(idx(scale,k),T(idx(scale,k))))": "symmetric",
    "not(all(eq(idx(scale,k),T(idx(scale,k)))))": "symmetric",
    "not(array_equal(idx(scale,k),T(idx(scale,k))))": "symmetric",
    "not(allclose(T(idx(scale,k)),idx(scale,k)))": "symmetric",
}
STD_TOKENS = {
    "idx(scale,k)": "scale[k]",
    "sqrt(idx(scale,k))": "sqrt(scale[k])",
    "pow(idx(scale,k),1/2)": "sqrt(scale[k])",
    "sqrt(idx(scale,[k,0]))": "sqrt(scale[k])",
    "sqrt(idx(idx(scale,k),0))": "sqrt(scale[k])",
    "idx(sqrt(scale),k)": "sqrt(scale[k])",
    "idx(scale,[k,0])": "scale[k]",
    "idx(idx(scale,k),0)": "scale[k]",
}


def _is_raise(body):
    return len(body) == 1 and isinstance(body[0], ast.Raise)


def _guard_tokens(ev, test, prefix=""):
    """tokens of one `if <test>: raise`; `a or b` with unknown whole is the sequence of its disjuncts"""
    c = prefix + describe(ev.ev(test))
    if c in GUARD_TOKENS:
        return [GUARD_TOKENS[c]]
    if isinstance(test, ast.BoolOp) and isinstance(test.op, ast.Or):
        out = []
        for v in test.values:
            out += _guard_tokens(ev, v, prefix)
        return out
    raise TranslationFailure(f"draw_gmm: unrecognised validity test `{c}`")


def _range_loop(ev, st):
    """`for k in range(K)` / `range(len(loc))` -> loop variable name"""
    if not (isinstance(st, ast.For) and isinstance(st.target, ast.Name) and not st.orelse):
        return None
    it = describe(ev.ev(st.iter))
    if it not in ("range(K)", "range(len(loc))"):
        raise TranslationFailure(f"draw_gmm: loop over `{it}` instead of the K components")
    return st.target.id


RESHAPE_BLOCK = {"[n,d]", "[n,-1]"}                 # `.reshape(·)` of the n draws of one component: rows stay rows
RESHAPE_STACK = {"[K,n,-1]", "[K,n,d]", "[len(loc),n,-1]", "[len(loc),n,d]"}     # of the stacked draws: [k, i] stays [k, i]
RESHAPE_ROW = {"[1,-1]", "[1,d]"}                   # of one selected draw


class _GmmPass:
    """One pass over the body of draw_gmm with the test `d == 1` FOLDED to `d1` (the one-dimensional and the
    multivariate case are two straight-line programs over loops on the K components).  Accepted, in this order:
      check_array lines, `K, d = loc.shape`, top-level `if …: raise` tests (the common guards), the checked generator,
      the labels `y = generator.choice(…)`, then loops `for k in range(K)` that ONLY check component k (`if …: raise`),
      then ONE loop (or list comprehension) over `range(K)` that draws the n samples of component k with one RNG call and
      appends them (`L += [draw]`, `L.append(draw)`, also through a local name and `.reshape((n, d))`), then the
      selection of the i-th draw of component y[i] — the comprehension `[L[k][i].reshape((1, -1)) for i, k in enumerate(y)]`
      concatenated along axis 0, or `np.stack(L)[y, np.arange(n)]` on draws of shape (n, ·) (`.reshape((n, d))` per
      component or `.reshape((K, n, -1))` of the stack) — and `return X, y`.
    A loop that both checks and draws, a check after a draw, a second drawing loop, draws before the labels: refused
    (they change which RNG state an error leaves behind, or the order of the draws)."""

    def __init__(self, fn, d1):
        self.fn, self.d1 = fn, d1
        self.ev = Evaluator(fn)
        self.ev.env.update({"K": Sym("K"), "d": Sym("d")})
        self.common, self.guards = [], []
        self.draw, self.choice, self.select, self.ret, self.min_components = None, None, None, None, None
        self.y_name = None
        self.lists = {}          # name -> 0: declared `[]`; 1: holds the K blocks of draws, in component order
        self.block2d = False     # every block was reshaped to (n, d) (the multivariate draws are (n, d) by themselves)
        self.stacks = {}         # name -> True: the (K, n, ·) array of the blocks
        self.selected = {}       # name -> "rows" (python list of (1, ·) rows) | "array" (the (n, ·) result)

    def fail(self, msg, node=None):
        ln = f" at line {node.lineno}" if node is not None and hasattr(node, "lineno") else ""
        raise TranslationFailure(f"draw_gmm: {msg}{ln}")

    def test(self, node):
        return describe(self.ev.ev(node))

    # ---- statements of the function body (and of the folded `if d == 1` branches)
    def block(self, body):
        for st in body:
            self.stmt(st)

    def stmt(self, st):
        ev = self.ev
        if isinstance(st, ast.Expr) and isinstance(st.value, ast.Constant):
            return
        if self.ret is not None:
            self.fail("statement after the return", st)
        if isinstance(st, ast.Assign) and len(st.targets) != 1:
            self.fail("chained assignment", st)
        if isinstance(st, ast.Assign) and isinstance(st.value, ast.Call) and isinstance(st.value.func, ast.Name) \
                and st.value.func.id == "check_array":
            tgt = st.targets[0]
            arg0 = st.value.args[0] if st.value.args else None
            if not (isinstance(tgt, ast.Name) and isinstance(arg0, ast.Name) and arg0.id == tgt.id
                    and tgt.id in ("loc", "scale", "pvals")):
                self.fail("check_array not of the form x = check_array(x, ...)", st)
            for k in st.value.keywords:
                if k.arg == "ensure_min_samples" and tgt.id == "loc":
                    self.min_components = int(k.value.value)
            return
        if isinstance(st, ast.Assign) and isinstance(st.targets[0], ast.Tuple):
            names = [e.id for e in st.targets[0].elts if isinstance(e, ast.Name)]
            if names != ["K", "d"] or self.test(st.value) != "shape(loc)":
                self.fail("expected `K, d = loc.shape`", st)
            return
        if isinstance(st, ast.If):
            t = self.test(st.test)
            if t == "ne(d,1)" and not st.orelse and len(st.body) == 1 and isinstance(st.body[0], ast.If) \
                    and _is_raise(st.body[0].body) and not st.body[0].orelse and self.choice is None:
                self.common += _guard_tokens(ev, st.body[0].test, "ne(d,1)=>")
                return
            if t == "eq(d,1)":
                return self.block(st.body if self.d1 else st.orelse)
            if t == "ne(d,1)":
                return self.block(st.orelse if self.d1 else st.body)
            if _is_raise(st.body) and not st.orelse:
                if ev.generator is not None and self.choice is not None:
                    self.fail("top-level guard after the draws", st)
                self.common += _guard_tokens(ev, st.test)
                return
            self.fail(f"unexpected branch on `{t}`", st)
        if isinstance(st, ast.Assign) and isinstance(st.value, ast.Call) and isinstance(st.value.func, ast.Name) \
                and st.value.func.id == "check_random_state":
            ev.stmt(st)
            return
        if isinstance(st, ast.Assign) and isinstance(st.targets[0], ast.Name) and isinstance(st.value, ast.List) \
                and not st.value.elts:
            if self.draw is not None:
                self.fail("a list is emptied after the component draws", st)
            self.lists[st.targets[0].id] = 0
            ev.env[st.targets[0].id] = []
            return
        if isinstance(st, ast.Assign) and isinstance(st.targets[0], ast.Name) and isinstance(st.value, ast.Call) \
                and isinstance(st.value.func, ast.Attribute) and st.value.func.attr == "choice":
            if self.choice is not None or self.draw is not None or self.guards:
                self.fail("the labels are not drawn first (once, before the component checks and draws)", st)
            ev.stmt(st)
            self.y_name = st.targets[0].id
            c = ev.calls[-1]
            if c["on"] != "generator":
                self.fail("choice not drawn from the checked generator", st)
            self.choice = {"a": describe(c["args"][0]) if c["args"] else describe(c["kw"].get("a")),
                           "p": describe(c["kw"].get("p")) if "p" in c["kw"] else (describe(c["args"][3]) if len(c["args"]) > 3 else "None"),
                           "size": describe(c["kw"].get("size")) if "size" in c["kw"] else (describe(c["args"][1]) if len(c["args"]) > 1 else "None"),
                           "replace": describe(c["kw"].get("replace")) if "replace" in c["kw"] else "default"}
            return
        if isinstance(st, ast.For):
            return self.loop(st)
        if isinstance(st, ast.Assign) and isinstance(st.targets[0], ast.Name):
            name, v = st.targets[0].id, st.value
            if isinstance(v, ast.ListComp) and self.is_component_range(v):
                return self.draw_comprehension(name, v, st)
            if isinstance(v, ast.ListComp):
                if self.select is not None:
                    self.fail("second selection", st)
                xs = self.filled_list(v, st)
                self.select = _selection(v, xs, self.y_name)
                self.selected[name] = "rows"
                return
            if self.is_stack(v):
                self.stack_expr(v, st)
                self.stacks[name] = True
                return
            if self.is_selection(v):
                self.selection_expr(v, st)
                self.selected[name] = "array"
                return
            self.fail("unexpected assignment", st)
        if isinstance(st, ast.Return):
            v = st.value
            if not (isinstance(v, ast.Tuple) and len(v.elts) == 2 and isinstance(v.elts[1], ast.Name)
                    and v.elts[1].id == self.y_name):
                self.fail("return is not `X, y`", st)
            x = v.elts[0]
            if isinstance(x, ast.Name) and self.selected.get(x.id) == "array":
                pass
            elif self.is_selection(x):
                self.selection_expr(x, st)
            else:
                ok = isinstance(x, ast.Call) and isinstance(x.func, ast.Attribute) and x.func.attr in ("concatenate", "vstack") \
                    and isinstance(x.func.value, ast.Name) and x.func.value.id in ("np", "numpy") \
                    and len(x.args) == 1 and isinstance(x.args[0], ast.Name) and self.selected.get(x.args[0].id) == "rows"
                if ok and x.func.attr == "concatenate":
                    ax = [k for k in x.keywords if k.arg == "axis"]
                    ok = len(ax) == 1 and len(x.keywords) == 1 and isinstance(ax[0].value, ast.Constant) and ax[0].value.value == 0
                elif ok:
                    ok = not x.keywords
                if not ok:
                    self.fail("return is not `np.concatenate(X, axis=0), y`", st)
            self.ret = "rows,y"
            return
        self.fail(f"unexpected statement {type(st).__name__}", st)

    # ---- loops over the components
    def is_component_range(self, comp):
        return len(comp.generators) == 1 and isinstance(comp.generators[0].iter, ast.Call) \
            and isinstance(comp.generators[0].iter.func, ast.Name) and comp.generators[0].iter.func.id == "range"

    def fold(self, body):
        """the statements of a loop body with the tests on `d == 1` folded"""
        out = []
        for st in body:
            if isinstance(st, ast.Expr) and isinstance(st.value, ast.Constant):
                continue
            if isinstance(st, ast.If) and self.test(st.test) in ("eq(d,1)", "ne(d,1)"):
                first = (self.test(st.test) == "eq(d,1)") == self.d1
                out += self.fold(st.body if first else st.orelse)
            else:
                out.append(st)
        return out

    def loop(self, st):
        ev = self.ev
        kvar = _range_loop(ev, st)
        if kvar is None:
            self.fail("unsupported loop", st)
        if self.choice is None:
            self.fail("a loop over the components before the labels are drawn", st)
        ev.env[kvar] = Sym("k")
        body = self.fold(st.body)
        checks = [x for x in body if isinstance(x, ast.If) and _is_raise(x.body) and not x.orelse]
        if checks and len(checks) != len(body):
            self.fail("a loop that both checks and draws (or holds another statement than `if …: raise`)", st)
        if checks:
            if self.draw is not None:
                self.fail("guard after the component draws", st)
            for x in checks:
                self.guards += _guard_tokens(ev, x.test)
            return
        if not body:
            return
        # the drawing loop
        if self.draw is not None:
            self.fail("second loop drawing component samples", st)
        local, appended, n0, reshaped = {}, None, len(ev.calls), False
        for x in body:
            if isinstance(x, ast.Assign) and len(x.targets) == 1 and isinstance(x.targets[0], ast.Name) and appended is None \
                    and x.targets[0].id not in self.lists and x.targets[0].id not in (kvar, self.y_name):
                reshaped = self.component_draw(x.value, local, x) or reshaped
                local = {x.targets[0].id: True}
                continue
            tgt = val = None
            if isinstance(x, ast.AugAssign) and isinstance(x.op, ast.Add) and isinstance(x.target, ast.Name) \
                    and isinstance(x.value, ast.List) and len(x.value.elts) == 1:
                tgt, val = x.target.id, x.value.elts[0]
            elif isinstance(x, ast.Expr) and isinstance(x.value, ast.Call) and isinstance(x.value.func, ast.Attribute) \
                    and x.value.func.attr == "append" and isinstance(x.value.func.value, ast.Name) \
                    and len(x.value.args) == 1 and not x.value.keywords:
                tgt, val = x.value.func.value.id, x.value.args[0]
            if tgt is None or appended is not None or self.lists.get(tgt) != 0:
                self.fail("unexpected statement in a component loop", x)
            reshaped = self.component_draw(val, local, x) or reshaped
            appended = tgt
        if appended is None or len(ev.calls) != n0 + 1:
            self.fail("a component loop does not append exactly one RNG draw", st)
        self.lists[appended] = 1
        self.block2d = reshaped or not self.d1
        self.record_draw(ev.calls[-1], st)

    def draw_comprehension(self, name, comp, st):
        ev = self.ev
        g = comp.generators[0]
        if g.ifs or g.is_async or not isinstance(g.target, ast.Name) or self.test(g.iter) not in ("range(K)", "range(len(loc))"):
            self.fail("comprehension over something else than the K components", st)
        if self.choice is None or self.draw is not None:
            self.fail("component draws before the labels / second drawing loop", st)
        ev.env[g.target.id] = Sym("k")
        n0 = len(ev.calls)
        reshaped = self.component_draw(comp.elt, {}, st)
        if len(ev.calls) != n0 + 1:
            self.fail("component draw is not a single RNG call", st)
        self.lists[name] = 1
        self.block2d = reshaped or not self.d1
        self.record_draw(ev.calls[-1], st)

    def component_draw(self, e, local, node):
        """`e`: the draw of one component (a call on the checked generator) or the local name holding it, possibly
        `.reshape((n, d))`; returns whether it was reshaped to (n, d)"""
        reshaped = False
        while isinstance(e, ast.Call) and isinstance(e.func, ast.Attribute) and e.func.attr == "reshape":
            arg = e.args[0] if len(e.args) == 1 else ast.Tuple(elts=list(e.args), ctx=ast.Load())
            if e.keywords or self.test(arg) not in RESHAPE_BLOCK:
                self.fail("reshape of a component's draws to something else than (n, d)", node)
            reshaped, e = True, e.func.value
        if isinstance(e, ast.Name) and e.id in local:
            return reshaped
        if not (isinstance(e, ast.Call) and isinstance(e.func, ast.Attribute) and isinstance(e.func.value, ast.Name)
                and e.func.value.id == self.ev.generator):
            self.fail("component draw not from the checked generator", node)
        if local:
            self.fail("two draws for one component", node)
        self.ev.ev(e)
        return reshaped

    def record_draw(self, c, node):
        if c["on"] != "generator":
            self.fail("component draw not from the checked generator", node)
        a = [describe(x) for x in c["args"]]
        kw = {k: describe(v) for k, v in c["kw"].items()}
        if c["prim"] == "normal":
            self.draw = {"prim": "normal", "loc": a[0] if a else kw.get("loc"), "scale": a[1] if len(a) > 1 else kw.get("scale"),
                         "size": kw.get("size", a[2] if len(a) > 2 else "None")}
        elif c["prim"] == "multivariate_normal":
            self.draw = {"prim": "multivariate_normal", "loc": a[0] if a else kw.get("mean"),
                         "scale": a[1] if len(a) > 1 else kw.get("cov"), "size": kw.get("size", a[2] if len(a) > 2 else "None")}
        else:
            self.draw = {"prim": c["prim"], "loc": ",".join(a), "scale": "", "size": kw.get("size", "None")}

    # ---- the selection of the i-th draw of component y[i]
    def filled_list(self, comp, st):
        """the name of the list of blocks read by the old-style selection comprehension"""
        names = [n.id for n in ast.walk(comp.elt) if isinstance(n, ast.Name) and self.lists.get(n.id) == 1]
        if len(set(names)) != 1:
            self.fail("selection comprehension does not read the list of component draws", st)
        e = comp.elt
        while isinstance(e, ast.Call) and isinstance(e.func, ast.Attribute) and e.func.attr in SHAPE_ONLY_METHODS:
            arg = e.args[0] if len(e.args) == 1 else ast.Tuple(elts=list(e.args), ctx=ast.Load())
            if e.func.attr != "reshape" or e.keywords or self.test(arg) not in RESHAPE_ROW:
                self.fail("a selected draw is reshaped to something else than one row", st)
            e = e.func.value
        return names[0]

    def is_np(self, f, names):
        return isinstance(f, ast.Attribute) and isinstance(f.value, ast.Name) and f.value.id in ("np", "numpy") and f.attr in names

    def is_stack(self, e):
        while isinstance(e, ast.Call) and isinstance(e.func, ast.Attribute) and e.func.attr == "reshape":
            e = e.func.value
        return (isinstance(e, ast.Name) and e.id in self.stacks) or (isinstance(e, ast.Call) and self.is_np(e.func, {"stack"}))

    def stack_expr(self, e, node):
        """`np.stack(L)` / `np.stack(L, axis=0)` of the K blocks, possibly `.reshape((K, n, -1))`: the (K, n, ·) array whose
        entry [k, i] is the i-th draw of component k.  Sets `block2d` when the reshape makes the draws rows."""
        while isinstance(e, ast.Call) and isinstance(e.func, ast.Attribute) and e.func.attr == "reshape":
            arg = e.args[0] if len(e.args) == 1 else ast.Tuple(elts=list(e.args), ctx=ast.Load())
            if e.keywords or self.test(arg) not in RESHAPE_STACK:
                self.fail("reshape of the stacked draws to something else than (K, n, -1)", node)
            self.block2d = True
            e = e.func.value
        if isinstance(e, ast.Name) and e.id in self.stacks:
            return
        if not (isinstance(e, ast.Call) and self.is_np(e.func, {"stack"}) and len(e.args) == 1 and isinstance(e.args[0], ast.Name)
                and self.lists.get(e.args[0].id) == 1):
            self.fail("np.stack of something else than the list of component draws", node)
        for k in e.keywords:
            if k.arg != "axis" or not (isinstance(k.value, ast.Constant) and k.value.value == 0 and type(k.value.value) is int):
                self.fail("np.stack along another axis than 0", node)

    def is_selection(self, e):
        return isinstance(e, ast.Subscript) and isinstance(e.slice, ast.Tuple) and self.is_stack(e.value)

    def selection_expr(self, e, node):
        """`S[y, np.arange(n)]` for the (K, n, d) stack `S`: row i is `S[y[i], i]`"""
        if self.select is not None:
            self.fail("second selection", node)
        self.stack_expr(e.value, node)
        idx = e.slice.elts
        if not (len(idx) == 2 and isinstance(idx[0], ast.Name) and idx[0].id == self.y_name and self.y_name is not None
                and isinstance(idx[1], ast.Call) and self.is_np(idx[1].func, {"arange"}) and len(idx[1].args) == 1
                and not idx[1].keywords and self.test(idx[1].args[0]) == "n"):
            self.fail("selection is not S[y, np.arange(n)]", node)
        if not self.block2d:
            self.fail("selection from stacked one-dimensional draws that were not reshaped to (n, d): the result would be 1-D", node)
        self.select = "X[k][i] for i,k in enumerate(y)"

    def run(self):
        self.block(self.fn.body)
        for key in ("draw", "choice", "select", "ret"):
            if getattr(self, key) is None:
                self.fail(f"missing {key}" + ("1" if self.d1 else "N") if key == "draw" else f"missing {key}")
        return self


def draw_gmm_unit(tree):
    fn = _func(tree, "draw_gmm")
    one, many = _GmmPass(fn, True).run(), _GmmPass(fn, False).run()
    for key in ("common", "choice", "select", "ret", "min_components"):
        if getattr(one, key) != getattr(many, key):
            raise TranslationFailure(f"draw_gmm: the one-dimensional and the multivariate case differ in `{key}`")
    out = {"common": one.common, "g1": one.guards, "gN": many.guards, "draw1": one.draw, "drawN": many.draw,
           "choice": one.choice, "select": one.select, "min_components": one.min_components, "return": one.ret}
    if out["draw1"]["scale"] in STD_TOKENS:
        out["draw1"]["scale"] = STD_TOKENS[out["draw1"]["scale"]]
    for dk in ("draw1", "drawN"):
        out[dk]["loc"] = {"idx(loc,k)": "loc[k]"}.get(out[dk]["loc"], out[dk]["loc"])
        out[dk]["scale"] = {"idx(scale,k)": "scale[k]"}.get(out[dk]["scale"], out[dk]["scale"])
        out[dk]["size"] = {"[n]": "n"}.get(out[dk]["size"], out[dk]["size"])
    out["choice"]["size"] = {"[n]": "n"}.get(out["choice"]["size"], out["choice"]["size"])
    calls = one.ev.calls + many.ev.calls
    out["prims"] = sorted({c["prim"] for c in calls})
    out["global_rng"] = one.ev.global_rng or many.ev.global_rng or any(c["on"] != "generator" for c in calls)
    return out


def _selection(comp, xs_name, y_name):
    """`[X[k][i].reshape((1, -1)) for i, k in enumerate(y)]` -> "X[k][i] for i,k in enumerate(y)" """
    if len(comp.generators) != 1 or comp.generators[0].ifs:
        raise TranslationFailure("draw_gmm: selection comprehension has filters / several loops")
    g = comp.generators[0]
    if not (isinstance(g.iter, ast.Call) and isinstance(g.iter.func, ast.Name) and g.iter.func.id == "enumerate"
            and len(g.iter.args) == 1 and isinstance(g.iter.args[0], ast.Name) and g.iter.args[0].id == y_name
            and isinstance(g.target, ast.Tuple) and len(g.target.elts) == 2):
        raise TranslationFailure("draw_gmm: selection does not enumerate the drawn labels")
    i_name, k_name = g.target.elts[0].id, g.target.elts[1].id
    e = comp.elt
    while isinstance(e, ast.Call) and isinstance(e.func, ast.Attribute) and e.func.attr in SHAPE_ONLY_METHODS:
        e = e.func.value
    if not (isinstance(e, ast.Subscript) and isinstance(e.value, ast.Subscript) and isinstance(e.value.value, ast.Name)
            and e.value.value.id == xs_name and isinstance(e.value.slice, ast.Name) and isinstance(e.slice, ast.Name)):
        raise TranslationFailure("draw_gmm: selection element is not X[.][.]")
    first = {k_name: "k", i_name: "i"}.get(e.value.slice.id, "?")
    second = {k_name: "k", i_name: "i"}.get(e.slice.id, "?")
    return f"X[{first}][{second}] for i,k in enumerate(y)"


def student_unit(tree):
    fn = _func(tree, "multivariate_student_t")
    ev = Evaluator(fn)
    ev.env["d"] = Sym("d")
    ev.env["len"] = Sym("len")
    out = {}
    for st in fn.body:
        if isinstance(st, ast.Expr) and isinstance(st.value, ast.Constant):
            continue
        if isinstance(st, ast.If):
            if not _is_raise(st.body):
                raise TranslationFailure("multivariate_student_t: unexpected branch")
            out["shape_guard"] = describe(ev.ev(st.test))
            continue
        if isinstance(st, ast.Assign) and isinstance(st.targets[0], ast.Name) and st.targets[0].id == "d":
            if describe(ev.ev(st.value)) != "len(loc)":
                raise TranslationFailure("multivariate_student_t: d is not len(loc)")
            continue
        ev.stmt(st)
    calls = [c for c in ev.calls]
    if [c["prim"] for c in calls] != ["multivariate_normal", "chisquare"]:
        raise TranslationFailure(f"multivariate_student_t: primitive sequence {[c['prim'] for c in calls]}")

    def arg(c, i, name):
        if len(c["args"]) > i:
            return describe(c["args"][i])
        return describe(c["kw"].get(name))
    out["mvn"] = {"mean": arg(calls[0], 0, "mean"), "cov": arg(calls[0], 1, "cov"), "size": arg(calls[0], 2, "size")}
    out["chi"] = {"df": arg(calls[1], 0, "df"), "size": arg(calls[1], 1, "size")}
    out["formula"] = describe(ev.ret)
    out["prims"] = sorted({c["prim"] for c in calls})
    out["global_rng"] = ev.global_rng or any(c["on"] != "generator" for c in calls)
    return out


# ------------------------------------------------------------------ gstm / celeux_one / celeux_two (evaluated)
def _helpers(tree):
    """the pure helper functions a generator may call: top-level, undecorated, bound exactly once in the module (the
    generators themselves are decorated with @constraint_params and handled as `sibling` calls)"""
    from .geminis import module_helpers
    return {k: v for k, v in module_helpers(tree).items()
            if not v.decorator_list and k not in ("draw_gmm", "multivariate_student_t", "gstm", "celeux_one", "celeux_two")}


def _sibling_args(c, names):
    """positional/keyword arguments of a call to draw_gmm / multivariate_student_t by parameter name"""
    out = {}
    for nm, v in zip(names, c["args"]):
        out[nm] = v
    out.update(c["kw"])
    return out


GMM_PARAMS = ["n", "loc", "scale", "pvals", "random_state"]
ST_PARAMS = ["n", "loc", "scale", "df", "random_state"]


def _const_mat(v, what):
    """list of arrays / 2-D or 3-D array -> nested lists of Q3"""
    if isinstance(v, list):
        return [_const_mat(x, what) for x in v]
    if isinstance(v, np.ndarray):
        return [_const_mat(x, what) for x in v] if v.ndim > 1 else list(v)
    raise TranslationFailure(f"{what}: not a compile-time constant ({describe(v)})")


def _scaled_rows(v, what):
    """-> (rows of integer/rational coefficients, symbol or None)"""
    if isinstance(v, Scaled):
        return _const_mat(v.arr, what), v.sym
    if isinstance(v, list):
        rows, syms = [], set()
        for x in v:
            if isinstance(x, Scaled):
                rows.append(list(x.arr))
                syms.add(x.sym)
            elif isinstance(x, np.ndarray):
                rows.append(list(x))
                if any(e != 0 for e in x):
                    syms.add(None)
            else:
                raise TranslationFailure(f"{what}: not constant")
        syms.discard(None) if len(syms) > 1 and all(all(e == 0 for e in r) for r, x in zip(rows, v) if isinstance(x, np.ndarray)) else None
        if len(syms) > 1:
            raise TranslationFailure(f"{what}: mixed scaling")
        return rows, (next(iter(syms)) if syms else None)
    return _const_mat(v, what), None


def gstm_unit(tree):
    fn = _func(tree, "gstm")
    ev = Evaluator(fn, helpers=_helpers(tree)).run()
    seq = [(c["on"], c["prim"]) for c in ev.calls]
    if seq != [("sibling", "draw_gmm"), ("sibling", "multivariate_student_t"), ("generator", "permutation")]:
        raise TranslationFailure(f"gstm: call sequence {seq}")
    g = _sibling_args(ev.calls[0], GMM_PARAMS)
    s = _sibling_args(ev.calls[1], ST_PARAMS)
    out = {}
    m = re.fullmatch(r"floordiv\(mul\((\d+),n\),(\d+)\)", describe(g["n"]))
    if not m:
        raise TranslationFailure(f"gstm: gaussian share `{describe(g['n'])}` is not a*n//b")
    out["split"] = (int(m.group(1)), int(m.group(2)))
    nG = describe(g["n"])
    if describe(s["n"]) != f"sub(n,{nG})":
        raise TranslationFailure(f"gstm: student share `{describe(s['n'])}` is not n - n_gaussian")
    rows, sym = _scaled_rows(g["loc"], "gstm locations")
    out["gauss_locs"], out["scaled_by"] = rows, sym
    srow, ssym = _scaled_rows(s["loc"], "gstm student location")
    if ssym != sym:
        raise TranslationFailure("gstm: student location scaled differently")
    out["student_loc"] = srow
    out["gauss_covs"] = _const_mat(g["scale"], "gstm covariances")
    out["student_scale"] = _const_mat(s["scale"], "gstm student scale")
    out["pvals"] = _const_mat(g["pvals"], "gstm proportions")
    if describe(g["random_state"]) != "generator" or describe(s["random_state"]) != "generator":
        raise TranslationFailure("gstm: sub-generators do not receive the checked generator")
    out["student_df"] = describe(s["df"])
    if describe(ev.calls[2]["args"][0]) != "n":
        raise TranslationFailure("gstm: permutation of something else than n")
    # the whole locations table (4 x 2) as written
    locs = ev.env.get("locations")
    if locs is not None:
        out["locations"], _ = _scaled_rows(locs, "gstm locations table")
    else:
        out["locations"] = rows + [srow]
    # return X[order], y[order] with X = vstack([gmm.X, student]), y = concatenate([gmm.y, ones(nS)*label])
    ret = describe(ev.ret)
    # rows: `np.vstack([Xg, Xs])` = `np.concatenate([Xg, Xs], axis=0)` for 2-D blocks; labels: `np.ones(nS) * c` =
    # `np.full(nS, c)` with a FLOAT literal c (printed `mul(ones(nS),c)` by Evaluator.call; an integer c changes the dtype)
    pat = (r"\[idx\((?:vstack\(\[draw_gmm0\.0,multivariate_student_t1\]\)|"
           r"concatenate\(\[draw_gmm0\.0,multivariate_student_t1\],axis=0\)),rng2\),"
           r"idx\(concatenate\(\[draw_gmm0\.1,mul\(ones\(" + re.escape(f"sub(n,{nG})") + r"\),(\d+)\)\](?:,axis=0)?\),rng2\)\]")
    m = re.fullmatch(pat, ret)
    if not m:
        raise TranslationFailure(f"gstm: return expression `{ret}` is not (vstack([Xg, Xs])[order], concatenate([yg, ones(nS)*c])[order])")
    out["label"] = int(m.group(1))
    out["assembly"] = "vstack([gaussian,student])[order], concatenate([y_gaussian,ones(n_student)*label])[order]"
    out["prims"] = ["permutation"]
    out["global_rng"] = ev.global_rng or any(c["on"] not in ("generator", "sibling") for c in ev.calls)
    return out


def celeux_one_unit(tree):
    fn = _func(tree, "celeux_one")
    ev = Evaluator(fn, helpers=_helpers(tree)).run()
    seq = [(c["on"], c["prim"]) for c in ev.calls]
    if seq != [("sibling", "draw_gmm"), ("generator", "normal")]:
        raise TranslationFailure(f"celeux_one: call sequence {seq}")
    g = _sibling_args(ev.calls[0], GMM_PARAMS)
    out = {}
    if describe(g["n"]) != "n" or describe(g["random_state"]) != "generator":
        raise TranslationFailure("celeux_one: draw_gmm(n, ..., generator) expected")
    rows, sym = _scaled_rows(g["loc"], "celeux_one means")
    out["mean_coeffs"], out["scaled_by"] = rows, sym
    out["covs"] = _const_mat(g["scale"], "celeux_one covariances")
    out["pvals"] = _const_mat(g["pvals"], "celeux_one proportions")
    nz = ev.calls[1]
    if nz["args"] or set(nz["kw"]) != {"size"}:
        raise TranslationFailure("celeux_one: noise is not generator.normal(size=...) with default loc/scale")
    out["noise_size"] = describe(nz["kw"]["size"])
    ret = describe(ev.ret)
    # `np.hstack([A, B])` = `np.concatenate([A, B], axis=1)` for 2-D blocks: draw_gmm's X is 2-D (draw_gmm_unit accepts no other
    # selection), the noise is 2-D when its size is a pair
    ok = ["[concatenate([draw_gmm0.0,rng1],axis=1),draw_gmm0.1]"]
    if isinstance(nz["kw"]["size"], list) and len(nz["kw"]["size"]) == 2:
        ok.append("[hstack([draw_gmm0.0,rng1]),draw_gmm0.1]")
    if ret not in ok:
        raise TranslationFailure(f"celeux_one: return expression `{ret}`")
    out["columns"] = ["good", "noise"]
    out["global_rng"] = ev.global_rng or any(c["on"] not in ("generator", "sibling") for c in ev.calls)
    return out


def celeux_two_unit(tree):
    fn = _func(tree, "celeux_two")
    ev = Evaluator(fn, helpers=_helpers(tree)).run()
    seq = [(c["on"], c["prim"]) for c in ev.calls]
    if seq != [("sibling", "draw_gmm"), ("generator", "multivariate_normal"), ("generator", "multivariate_normal")]:
        raise TranslationFailure(f"celeux_two: call sequence {seq}")
    g = _sibling_args(ev.calls[0], GMM_PARAMS)
    out = {}
    if describe(g["n"]) != "n" or describe(g["random_state"]) != "generator":
        raise TranslationFailure("celeux_two: draw_gmm(n, ..., generator) expected")
    out["means"] = _const_mat(g["loc"], "celeux_two means")
    out["covs"] = _const_mat(g["scale"], "celeux_two covariances")
    out["pvals"] = _const_mat(g["pvals"], "celeux_two proportions")

    def mvn(c):
        a = _sibling_args(c, ["mean", "cov", "size"])
        if describe(a.get("size")) != "[n]":
            raise TranslationFailure("celeux_two: multivariate_normal size is not (n,)")
        return _const_mat(a["mean"], "mean"), _const_mat(a["cov"], "cov")
    out["noise_mean"], out["noise_cov"] = mvn(ev.calls[1])
    out["x1214_mean"], out["x1214_cov"] = mvn(ev.calls[2])
    # X3_11 = offsets + good @ b + noise : find the variable holding the affine expression
    aff = None
    for name, v in ev.env.items():
        if isinstance(v, Sym) and "matmul(draw_gmm0.0," in v.s and aff is None:
            aff = (name, v.s)
    if aff is None:
        raise TranslationFailure("celeux_two: affine expression not found")
    m = re.fullmatch(r"add\(add\((\[.*\]),matmul\(draw_gmm0\.0,(\[.*\])\)\),rng1\)", aff[1])
    if not m:
        raise TranslationFailure(f"celeux_two: `{aff[1]}` is not offsets + good @ b + noise")
    # recover offsets and b as values: re-evaluate the sub-expressions of the assignment
    for st in fn.body:
        if isinstance(st, ast.Assign) and isinstance(st.targets[0], ast.Name) and st.targets[0].id == aff[0]:
            e = st.value
            # offsets + <good @ b | np.matmul(good, b) | np.dot(good, b)> + noise
            if not (isinstance(e, ast.BinOp) and isinstance(e.op, ast.Add) and isinstance(e.left, ast.BinOp)
                    and isinstance(e.left.op, ast.Add)):
                raise TranslationFailure("celeux_two: the affine expression is not written offsets + product + noise")
            off_node, prod = e.left.left, e.left.right
            if isinstance(prod, ast.BinOp) and isinstance(prod.op, ast.MatMult):
                b_node = prod.right
            elif isinstance(prod, ast.Call) and isinstance(prod.func, ast.Attribute) and prod.func.attr in ("matmul", "dot") \
                    and isinstance(prod.func.value, ast.Name) and prod.func.value.id in ("np", "numpy") and len(prod.args) == 2 \
                    and not prod.keywords:
                b_node = prod.args[1]
            else:
                raise TranslationFailure("celeux_two: the product of the affine expression is neither `@` nor np.matmul / np.dot")
            out["offsets"] = list(ev.ev(off_node))
            b = ev.ev(b_node)
            if not (isinstance(b, np.ndarray) and b.ndim == 2):
                raise TranslationFailure("celeux_two: b is not a constant matrix")
            out["b"] = [list(r) for r in b]
    out["formula"] = "add(add(offsets,matmul(good,b)),noise)"
    ret = describe(ev.ret)
    # joining [good | X3_11 | X12_14] along the columns: nested or in one call (concatenation is associative, no arithmetic)
    want = ["[concatenate([draw_gmm0.0,concatenate([" + aff[1] + ",rng2],axis=1)],axis=1),draw_gmm0.1]",
            "[concatenate([draw_gmm0.0," + aff[1] + ",rng2],axis=1),draw_gmm0.1]"]
    if ret not in want:
        raise TranslationFailure(f"celeux_two: return expression `{ret[:120]}...`")
    out["columns"] = ["good", "X3_11", "X12_14"]
    out["global_rng"] = ev.global_rng or any(c["on"] not in ("generator", "sibling") for c in ev.calls)
    return out


def _module_global_rng(tree):
    """any `np.random.<x>` attribute anywhere in the module (global-state RNG)"""
    for node in ast.walk(tree):
        if isinstance(node, ast.Attribute) and node.attr == "random" and isinstance(node.value, ast.Name) \
                and node.value.id in ("np", "numpy"):
            return True
        if isinstance(node, (ast.Import, ast.ImportFrom)):
            mod = getattr(node, "module", None) or ""
            if mod in ("random", "numpy.random") or any(a.name in ("random", "numpy.random") for a in node.names):
                return True
    return False


# ------------------------------------------------------------------ unit
def datagen():
    tree = _parse()
    G = draw_gmm_unit(tree)
    S = student_unit(tree)
    T = gstm_unit(tree)
    C1 = celeux_one_unit(tree)
    C2 = celeux_two_unit(tree)
    glob = _module_global_rng(tree) or any(u["global_rng"] for u in (G, S, T, C1, C2))
    data = {"draw_gmm": G, "student": S, "gstm": T, "celeux_one": C1, "celeux_two": C2, "global_rng": glob}

    def rat_rows(m):
        return lean_qmat(m)

    def cov_list(covs):
        return "[" + ",\n  ".join(lean_qmat(c) for c in covs) + "]"

    L = ["/- GENERATED by translator/datagen.py from gemclus/data/synthetic_data.py — do not edit.",
         "   Rationals are pairs (numerator, denominator) in lowest terms; `Q3` entries are (a, b) meaning a + b·√3. -/",
         "namespace GemVerif.Gen.DataGen", "",
         "abbrev Q := Int × Nat", "abbrev Q3 := Q × Q", "",
         "/-! ### draw_gmm -/",
         "/-- `ensure_min_samples` of the means: fewest components accepted -/",
         f"def gmmMinComponents : Nat := {G['min_components'] if G['min_components'] is not None else 1}",
         "/-- validity tests evaluated before any draw, in program order -/",
         f"def gmmGuardsCommon : List String := {lean_strs(G['common'])}",
         "/-- per-component tests of the `d == 1` branch -/",
         f"def gmmGuards1d : List String := {lean_strs(G['g1'])}",
         "/-- per-component tests of the `d != 1` branch -/",
         f"def gmmGuardsNd : List String := {lean_strs(G['gN'])}",
         "/-- `generator.choice(a, p=, size=)` -/",
         f"def gmmChoiceArgs : List (String × String) := [(\"a\", {lean_str(G['choice']['a'])}), (\"p\", {lean_str(G['choice']['p'])}), "
         f"(\"size\", {lean_str(G['choice']['size'])}), (\"replace\", {lean_str(G['choice']['replace'])})]",
         "/-- primitive drawing component k when d = 1, its location, its SCALE (numpy: a standard deviation) and size -/",
         f"def gmmDraw1dPrim : String := {lean_str(G['draw1']['prim'])}",
         f"def gmmDraw1dLoc : String := {lean_str(G['draw1']['loc'])}",
         f"def gmmNormalStd : String := {lean_str(G['draw1']['scale'])}",
         f"def gmmDraw1dSize : String := {lean_str(G['draw1']['size'])}",
         "/-- primitive drawing component k when d > 1, its mean, covariance and size -/",
         f"def gmmDrawNdPrim : String := {lean_str(G['drawN']['prim'])}",
         f"def gmmDrawNdMean : String := {lean_str(G['drawN']['loc'])}",
         f"def gmmDrawNdCov : String := {lean_str(G['drawN']['scale'])}",
         f"def gmmDrawNdSize : String := {lean_str(G['drawN']['size'])}",
         "/-- the comprehension assembling the output rows -/",
         f"def gmmSelection : String := {lean_str(G['select'])}",
         "",
         "/-! ### multivariate_student_t -/",
         f"def studentMvnArgs : List (String × String) := [(\"mean\", {lean_str(S['mvn']['mean'])}), (\"cov\", {lean_str(S['mvn']['cov'])}), (\"size\", {lean_str(S['mvn']['size'])})]",
         f"def studentChiArgs : List (String × String) := [(\"df\", {lean_str(S['chi']['df'])}), (\"size\", {lean_str(S['chi']['size'])})]",
         f"def studentFormula : String := {lean_str(S['formula'])}",
         f"def studentShapeGuard : String := {lean_str(S.get('shape_guard', ''))}",
         "",
         "/-! ### gstm -/",
         "/-- `locations` before the multiplication by the parameter named in `gstmScaledBy` -/",
         f"def gstmLocations : List (List Int) := {lean_imat(T['locations'])}",
         f"def gstmScaledBy : String := {lean_str(T['scaled_by'] or '')}",
         "/-- rows handed to draw_gmm / the row handed to multivariate_student_t -/",
         f"def gstmGaussLocs : List (List Int) := {lean_imat(T['gauss_locs'])}",
         f"def gstmStudentLoc : List Int := {lean_ivec(T['student_loc'])}",
         f"def gstmGaussCovs : List (List (List Q)) :=\n  {cov_list(T['gauss_covs'])}",
         f"def gstmStudentScale : List (List Q) :=\n  {lean_qmat(T['student_scale'])}",
         f"def gstmProportions : List Q := {lean_qvec(T['pvals'])}",
         "/-- `n_gaussian = a * n // b` as (a, b) -/",
         f"def gstmSplit : Nat × Nat := ({T['split'][0]}, {T['split'][1]})",
         f"def gstmStudentLabel : Nat := {T['label']}",
         f"def gstmStudentDf : String := {lean_str(T['student_df'])}",
         f"def gstmAssembly : String := {lean_str(T['assembly'])}",
         "",
         "/-! ### celeux_one -/",
         "/-- component means as coefficients of the parameter named in `c1ScaledBy` -/",
         f"def c1MeanCoeffs : List (List Int) := {lean_imat(C1['mean_coeffs'])}",
         f"def c1ScaledBy : String := {lean_str(C1['scaled_by'] or '')}",
         f"def c1Covs : List (List (List Q)) :=\n  {cov_list(C1['covs'])}",
         f"def c1Proportions : List Q := {lean_qvec(C1['pvals'])}",
         "/-- `generator.normal(size=...)`: standard normal noise of this shape -/",
         f"def c1NoiseSize : String := {lean_str(C1['noise_size'])}",
         f"def c1Columns : List String := {lean_strs(C1['columns'])}",
         "",
         "/-! ### celeux_two -/",
         f"def c2Means : List (List Q) :=\n  {lean_qmat(C2['means'])}",
         f"def c2Covs : List (List (List Q)) :=\n  {cov_list(C2['covs'])}",
         f"def c2Proportions : List Q := {lean_qvec(C2['pvals'])}",
         "/-- `b` as used in `good_variables @ b` (2 × 9) -/",
         f"def c2B : List (List Q) :=\n  {lean_qmat(C2['b'])}",
         "/-- the same by columns: `c2BT[j] = b[:, j]` -/",
         f"def c2BT : List (List Q) :=\n  {lean_qmat([list(c) for c in zip(*C2['b'])])}",
         f"def c2Offsets : List Q := {lean_qvec(C2['offsets'])}",
         f"def c2NoiseMean : List Q := {lean_qvec(C2['noise_mean'])}",
         "/-- block-diagonal covariance of the regression noise, entries a + b·√3 -/",
         f"def c2NoiseCov : List (List Q3) :=\n  {lean_q3mat(C2['noise_cov'])}",
         f"def c2X1214Mean : List Q := {lean_qvec(C2['x1214_mean'])}",
         f"def c2X1214Cov : List (List Q) :=\n  {lean_qmat(C2['x1214_cov'])}",
         f"def c2Formula : String := {lean_str(C2['formula'])}",
         f"def c2Columns : List String := {lean_strs(C2['columns'])}",
         "",
         "/-! ### randomness -/",
         "/-- does any generator touch `np.random.*` / `random` (global state) or draw from an object other than the",
         "    `generator = check_random_state(random_state)` it was handed? -/",
         f"def usesGlobalRng : Bool := {lean_bool(glob)}",
         f"def gmmPrimitives : List String := {lean_strs(G['prims'])}",
         f"def studentPrimitives : List String := {lean_strs(S['prims'])}",
         "", "end GemVerif.Gen.DataGen", ""]
    return data, "\n".join(L)


if __name__ == "__main__":
    d, t = datagen()
    print(t)
