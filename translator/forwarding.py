"""Translator for the forwarding tables (property C11).

Reads the CURRENT sources of /repo with python `ast` (gemclus is never imported) and emits
`lean/GemVerif/Gen/Forwarding.lean`:

  GEMINI constructors   for every class of gemini/_base_loss.py, _fdivergences.py, _geomdistances.py: parameters
                        with defaults, every `@constraint_params` alternative met along the `super().__init__`
                        chain (bool / dict / None / callable / StrOptions(names) / other), the attribute bindings
                        (attribute <- own parameter | constant) through that chain, the MRO owner of `evaluate`
                        and the MRO-resolved body of `compute_affinity` as a decision tree
  registry              `_str_to_gemini`: name -> constructor call as written (`MI()`, `MMDGEMINI(ovo=True)`)
  estimators            the 18 estimator classes: constructor parameters with defaults, attribute bindings
                        through the `super().__init__` chain (in particular what reaches `self.gemini`), the
                        MRO-resolved `get_gemini` as a decision tree, and `_compute_kernel` (KernelRIM, Kauri)

`StrOptions(...)` arguments are evaluated against scikit-learn's constant tables (scikit-learn is imported,
gemclus is not).  Decision trees are read off `if` / `elif` / `else` chains with early `return`s; a test `not T` swaps the
two branches of the test `T`.  Any statement outside the accepted skeletons raises TranslationFailure (the tie is then broken
and the check starts its failing-input search).
"""
import ast

from . import tables
from .tables import TranslationFailure, lean_str, lean_bool

GEMINI_FILES = ["gemclus/gemini/_base_loss.py", "gemclus/gemini/_fdivergences.py", "gemclus/gemini/_geomdistances.py"]
ESTIMATOR_FILES = ["gemclus/_base_gemini.py", "gemclus/linear/_linear_geminis.py", "gemclus/mlp/_mlp_geminis.py",
                   "gemclus/sparse/_linear_sparse.py", "gemclus/sparse/_mlp_sparse.py",
                   "gemclus/nonparametric/_categorical_models.py", "gemclus/tree/douglas.py", "gemclus/tree/kauri.py"]
ESTIMATORS = ["LinearModel", "LinearMMD", "LinearWasserstein", "RIM", "KernelRIM",
              "MLPModel", "MLPMMD", "MLPWasserstein",
              "SparseLinearModel", "SparseLinearMMD", "SparseLinearMI", "SparseMLPModel", "SparseMLPMMD",
              "CategoricalModel", "CategoricalMMD", "CategoricalWasserstein",
              "Douglas", "Kauri"]
PAIRWISE_FUNCS = ("pairwise_kernels", "pairwise_distances")


# ------------------------------------------------------------------ class tables
def _classes(files):
    out = {}
    for rel in files:
        tree = tables._parse(rel)
        for node in tree.body:
            if isinstance(node, ast.ClassDef):
                if node.name in out:
                    raise TranslationFailure(f"class {node.name} defined twice")
                out[node.name] = (node, rel)
    return out


def _chain(classes, name):
    """the class followed by its in-table ancestors (every class has at most one in-table base)"""
    out = []
    while True:
        if name not in classes:
            raise TranslationFailure(f"class {name} not found")
        out.append(name)
        node = classes[name][0]
        bases = [b.id for b in node.bases if isinstance(b, ast.Name) and b.id in classes]
        if len(bases) > 1:
            raise TranslationFailure(f"{name}: several in-table bases {bases}")
        if not bases:
            return out
        name = bases[0]
        if name in out:
            raise TranslationFailure("inheritance cycle")


def _method(classes, chain, meth):
    """(owner, FunctionDef) of the first definition of `meth` along the chain, or (None, None)"""
    for c in chain:
        for item in classes[c][0].body:
            if isinstance(item, ast.FunctionDef) and item.name == meth:
                return c, item
    return None, None


def _atom(v):
    if v is None:
        return ("none",)
    if isinstance(v, bool):
        return ("bool", v)
    if isinstance(v, str):
        return ("str", v)
    if isinstance(v, (int, float)):
        return ("tok", repr(v))
    raise TranslationFailure(f"unsupported constant {v!r}")


def _params(fn, where):
    a = fn.args
    if a.vararg or a.kwarg or a.kwonlyargs or a.posonlyargs:
        raise TranslationFailure(f"{where}: unsupported signature")
    names = [x.arg for x in a.args]
    if not names or names[0] != "self":
        raise TranslationFailure(f"{where}: first parameter is not self")
    names = names[1:]
    if len(a.defaults) != len(names):
        raise TranslationFailure(f"{where}: a parameter has no default")
    out = []
    for n, d in zip(names, a.defaults):
        if not isinstance(d, ast.Constant):
            raise TranslationFailure(f"{where}: non-constant default for {n}")
        out.append((n, _atom(d.value)))
    return out


def _is_self_attr(node):
    return isinstance(node, ast.Attribute) and isinstance(node.value, ast.Name) and node.value.id == "self"


def _sk_namespace():
    try:
        from sklearn.metrics import pairwise as pw
    except Exception as e:  # pragma: no cover
        raise TranslationFailure(f"scikit-learn constants unavailable: {e}")
    return {"__builtins__": {"set": set, "list": list, "sorted": sorted},
            "PAIRWISE_KERNEL_FUNCTIONS": pw.PAIRWISE_KERNEL_FUNCTIONS,
            "PAIRED_DISTANCES": pw.PAIRED_DISTANCES,
            "PAIRWISE_DISTANCE_FUNCTIONS": pw.PAIRWISE_DISTANCE_FUNCTIONS}


def _constraint_alts(lst, where):
    if not isinstance(lst, ast.List):
        raise TranslationFailure(f"{where}: constraint is not a list")
    out = []
    for e in lst.elts:
        if isinstance(e, ast.Name) and e.id == "bool":
            out.append(("isBool",))
        elif isinstance(e, ast.Name) and e.id == "dict":
            out.append(("isDict",))
        elif isinstance(e, ast.Name) and e.id == "callable":
            out.append(("isCallable",))
        elif isinstance(e, ast.Constant) and e.value is None:
            out.append(("isNone",))
        elif isinstance(e, ast.Call) and isinstance(e.func, ast.Name) and e.func.id == "StrOptions" and len(e.args) == 1:
            try:
                opts = eval(compile(ast.Expression(e.args[0]), where, "eval"), _sk_namespace())
            except TranslationFailure:
                raise
            except Exception as ex:
                raise TranslationFailure(f"{where}: cannot evaluate StrOptions argument: {ex}")
            out.append(("strOptions", sorted(opts)))
        elif isinstance(e, ast.Call) and isinstance(e.func, ast.Name) and e.func.id == "Interval":
            out.append(("other",))
        else:
            raise TranslationFailure(f"{where}: unsupported constraint {ast.dump(e)[:80]}")
    return out


def _decorator_constraints(fn, where):
    """{param: alternatives} of `@constraint_params({...})`, {} when undecorated"""
    out = {}
    for d in fn.decorator_list:
        if isinstance(d, ast.Call) and isinstance(d.func, ast.Name) and d.func.id == "constraint_params" \
                and len(d.args) == 1 and isinstance(d.args[0], ast.Dict):
            for k, v in zip(d.args[0].keys, d.args[0].values):
                if not isinstance(k, ast.Constant):
                    raise TranslationFailure(f"{where}: non-constant constraint key")
                out[k.value] = _constraint_alts(v, f"{where}.{k.value}")
        else:
            raise TranslationFailure(f"{where}: unsupported decorator")
    return out


def _src(node, env, where):
    if isinstance(node, ast.Constant):
        return ("const", _atom(node.value))
    if isinstance(node, ast.Name):
        if node.id not in env:
            raise TranslationFailure(f"{where}: unknown name {node.id}")
        return env[node.id]
    raise TranslationFailure(f"{where}: unsupported argument expression {ast.dump(node)[:80]}")


def _run_init(classes, chain, idx, env, binds, checks, with_checks):
    """symbolically execute `chain[idx].__init__` with parameters bound by `env` (name -> source in terms of the
    outermost class's parameters); appends attribute bindings / constraint checks in execution order"""
    # the first class along the chain (from idx) that defines __init__
    j = idx
    fn = None
    while j < len(chain):
        for item in classes[chain[j]][0].body:
            if isinstance(item, ast.FunctionDef) and item.name == "__init__":
                fn = item
        if fn is not None:
            break
        j += 1
    if fn is None:
        return  # object.__init__
    cname = chain[j]
    where = f"{cname}.__init__"
    if with_checks:
        cons = _decorator_constraints(fn, where)
        for p, _ in _params(fn, where):
            if p in cons:
                checks.append((f"{cname}.{p}", env[p], cons[p]))
    elif fn.decorator_list:
        raise TranslationFailure(f"{where}: unexpected decorator")
    for st in fn.body:
        if isinstance(st, ast.Expr) and isinstance(st.value, ast.Constant) and isinstance(st.value.value, str):
            continue  # docstring
        if isinstance(st, ast.Assign) and len(st.targets) == 1 and _is_self_attr(st.targets[0]):
            binds[st.targets[0].attr] = _src(st.value, env, where)
            continue
        if isinstance(st, ast.Expr) and isinstance(st.value, ast.Call) and isinstance(st.value.func, ast.Attribute) \
                and st.value.func.attr == "__init__":
            call = st.value
            tgt = call.func.value
            args = list(call.args)
            if isinstance(tgt, ast.Call) and isinstance(tgt.func, ast.Name) and tgt.func.id == "super" and not tgt.args:
                nxt = j + 1
            elif isinstance(tgt, ast.Name) and tgt.id in chain[j + 1:]:
                nxt = chain.index(tgt.id)
                if not (args and isinstance(args[0], ast.Name) and args[0].id == "self"):
                    raise TranslationFailure(f"{where}: explicit base __init__ without self")
                args = args[1:]
            else:
                raise TranslationFailure(f"{where}: unsupported __init__ call")
            # the class that will actually run
            k = nxt
            bfn = None
            while k < len(chain):
                for item in classes[chain[k]][0].body:
                    if isinstance(item, ast.FunctionDef) and item.name == "__init__":
                        bfn = item
                if bfn is not None:
                    break
                k += 1
            if bfn is None:
                if args or call.keywords:
                    raise TranslationFailure(f"{where}: arguments passed to object.__init__")
                continue
            bparams = _params(bfn, f"{chain[k]}.__init__")
            benv = {p: ("const", d) for p, d in bparams}
            names = [p for p, _ in bparams]
            if len(args) > len(names):
                raise TranslationFailure(f"{where}: too many positional arguments")
            for p, a in zip(names, args):
                benv[p] = _src(a, env, where)
            for kw in call.keywords:
                if kw.arg is None or kw.arg not in names:
                    raise TranslationFailure(f"{where}: unexpected keyword {kw.arg}")
                benv[kw.arg] = _src(kw.value, env, where)
            _run_init(classes, chain, k, benv, binds, checks, with_checks)
            continue
        raise TranslationFailure(f"{where}: unsupported statement {ast.dump(st)[:80]}")


def _init_of(classes, name, with_checks):
    chain = _chain(classes, name)
    owner, fn = _method(classes, chain, "__init__")
    if fn is None:
        raise TranslationFailure(f"{name}: no __init__")
    params = _params(fn, f"{owner}.__init__")
    env = {p: ("param", p) for p, _ in params}
    binds, checks = {}, []
    _run_init(classes, chain, chain.index(owner), env, binds, checks, with_checks)
    return params, binds, checks


# ------------------------------------------------------------------ affinity trees
def _aff_test(node, where):
    # callable(self.a)
    if isinstance(node, ast.Call) and isinstance(node.func, ast.Name) and node.func.id == "callable" \
            and len(node.args) == 1 and _is_self_attr(node.args[0]):
        return ("isCallable", node.args[0].attr)
    if isinstance(node, ast.Compare) and len(node.ops) == 1 and len(node.comparators) == 1:
        l, op, r = node.left, node.ops[0], node.comparators[0]
        if _is_self_attr(l) and isinstance(op, ast.Eq) and isinstance(r, ast.Constant) and isinstance(r.value, str):
            return ("attrEq", l.attr, r.value)
        if isinstance(l, ast.Name) and l.id == "y" and isinstance(op, ast.Is) and isinstance(r, ast.Constant) and r.value is None:
            return ("yIsNone",)
        if _is_self_attr(l) and isinstance(op, ast.IsNot) and isinstance(r, ast.Constant) and r.value is None:
            return ("attrNotNone", l.attr)
    raise TranslationFailure(f"{where}: unsupported test {ast.dump(node)[:100]}")


def _arg(node, where):
    if isinstance(node, ast.Name) and node.id == "X":
        return "X"
    if _is_self_attr(node) and node.attr == "input_data_":
        return "train"
    raise TranslationFailure(f"{where}: unsupported data argument {ast.dump(node)[:80]}")


def _aff_expr(node, env, where):
    if isinstance(node, ast.Name) and node.id == "y":
        return ("y",)
    if isinstance(node, ast.Name) and node.id in env:
        v = env[node.id]
        if v[0] == "paramsOrEmpty":
            raise TranslationFailure(f"{where}: parameter dictionary used as a value")
        return v
    if isinstance(node, ast.Constant) and node.value is None:
        return ("noneVal",)
    if isinstance(node, ast.Call) and _is_self_attr(node.func) and not node.keywords:
        return ("callAttr", node.func.attr, [_arg(a, where) for a in node.args])
    if isinstance(node, ast.Call) and isinstance(node.func, ast.Name) and node.func.id in PAIRWISE_FUNCS:
        args = [_arg(a, where) for a in node.args]
        metric, params = None, ("noParams",)
        for kw in node.keywords:
            if kw.arg == "metric":
                if _is_self_attr(kw.value):
                    metric = ("attr", kw.value.attr)
                elif isinstance(kw.value, ast.Constant) and isinstance(kw.value.value, str):
                    metric = ("const", kw.value.value)
                else:
                    raise TranslationFailure(f"{where}: unsupported metric argument")
            elif kw.arg is None:
                if isinstance(kw.value, ast.Name) and env.get(kw.value.id, (None,))[0] == "paramsOrEmpty":
                    params = ("orEmpty", env[kw.value.id][1])
                else:
                    raise TranslationFailure(f"{where}: unsupported ** argument")
            else:
                raise TranslationFailure(f"{where}: unexpected keyword {kw.arg} for {node.func.id}")
        if metric is None:
            raise TranslationFailure(f"{where}: {node.func.id} without metric=")
        return ("pairwise", node.func.id, args, metric, params)
    raise TranslationFailure(f"{where}: unsupported expression {ast.dump(node)[:100]}")


def _local_value(node, env, where):
    # `dict() if self.p is None else self.p`
    if isinstance(node, ast.IfExp):
        t, b, o = node.test, node.body, node.orelse
        if isinstance(t, ast.Compare) and _is_self_attr(t.left) and isinstance(t.ops[0], ast.Is) \
                and isinstance(t.comparators[0], ast.Constant) and t.comparators[0].value is None \
                and isinstance(b, ast.Call) and isinstance(b.func, ast.Name) and b.func.id == "dict" and not b.args \
                and not b.keywords and _is_self_attr(o) and o.attr == t.left.attr:
            return ("paramsOrEmpty", o.attr)
        raise TranslationFailure(f"{where}: unsupported conditional expression")
    return _aff_expr(node, env, where)


def _strip_not(st):
    """`if not T: A else: B` is `if T: B else: A` (T is evaluated once either way; `not` negates its truth value)"""
    test, then, other = st.test, list(st.body), list(st.orelse)
    while isinstance(test, ast.UnaryOp) and isinstance(test.op, ast.Not):
        test, then, other = test.operand, other, then
    return test, then, other


def _aff_tree(stmts, env, where):
    if not stmts:
        return ("ret", ("noneVal",))  # falling off the end returns None
    st, rest = stmts[0], stmts[1:]
    if isinstance(st, ast.Expr) and isinstance(st.value, ast.Constant) and isinstance(st.value.value, str):
        return _aff_tree(rest, env, where)
    if isinstance(st, ast.Return):
        return ("ret", ("noneVal",) if st.value is None else _aff_expr(st.value, env, where))
    if isinstance(st, ast.Raise):
        exc = st.exc
        if isinstance(exc, ast.Call):
            exc = exc.func
        if not isinstance(exc, ast.Name):
            raise TranslationFailure(f"{where}: unsupported raise")
        return ("raise", exc.id)
    if isinstance(st, ast.Expr) and isinstance(st.value, ast.Call) and isinstance(st.value.func, ast.Attribute) \
            and st.value.func.attr == "warn" and isinstance(st.value.func.value, ast.Name) and st.value.func.value.id == "warnings":
        return ("warn", _aff_tree(rest, env, where))
    if isinstance(st, ast.Assign) and len(st.targets) == 1 and isinstance(st.targets[0], ast.Name):
        env = dict(env)
        env[st.targets[0].id] = _local_value(st.value, env, where)
        return _aff_tree(rest, env, where)
    if isinstance(st, ast.If):
        test, then, other = _strip_not(st)
        return ("ite", _aff_test(test, where), _aff_tree(then + rest, env, where), _aff_tree(other + rest, env, where))
    # comments are not statements; anything else is outside the skeleton
    raise TranslationFailure(f"{where}: unsupported statement {ast.dump(st)[:100]}")


def _affinity_of(classes, name, meth, sig):
    chain = _chain(classes, name)
    owner, fn = _method(classes, chain, meth)
    if fn is None:
        return None, None
    where = f"{owner}.{meth}"
    names = [a.arg for a in fn.args.args]
    if names not in sig:
        raise TranslationFailure(f"{where}: unexpected signature {names}")
    if any(isinstance(b, ast.Pass) for b in fn.body):
        raise TranslationFailure(f"{where}: abstract")
    return owner, _aff_tree(list(fn.body), {}, where)


# ------------------------------------------------------------------ get_gemini trees
def _gem_test(node, where):
    if isinstance(node, ast.Compare) and len(node.ops) == 1 and _is_self_attr(node.left) and isinstance(node.ops[0], ast.Is) \
            and isinstance(node.comparators[0], ast.Constant) and node.comparators[0].value is None:
        return ("attrIsNone", node.left.attr)
    if isinstance(node, ast.Call) and isinstance(node.func, ast.Name) and node.func.id == "isinstance" and len(node.args) == 2 \
            and _is_self_attr(node.args[0]) and isinstance(node.args[1], ast.Name) and node.args[1].id == "str":
        return ("attrIsStr", node.args[0].attr)
    raise TranslationFailure(f"{where}: unsupported test {ast.dump(node)[:100]}")


def _gem_expr(node, gemini_classes, where):
    if _is_self_attr(node):
        return ("attr", node.attr)
    if isinstance(node, ast.Call) and isinstance(node.func, ast.Name) and node.func.id == "_str_to_gemini" \
            and len(node.args) == 1 and not node.keywords:
        a = node.args[0]
        if isinstance(a, ast.Constant) and isinstance(a.value, str):
            return ("registryConst", a.value)
        if _is_self_attr(a):
            return ("registryAttr", a.attr)
    if isinstance(node, ast.Call) and isinstance(node.func, ast.Name) and node.func.id in gemini_classes and not node.args:
        kws = []
        for kw in node.keywords:
            if kw.arg is None or not _is_self_attr(kw.value):
                raise TranslationFailure(f"{where}: constructor keyword is not `kw=self.attr`")
            kws.append((kw.arg, kw.value.attr))
        return ("build", node.func.id, kws)
    raise TranslationFailure(f"{where}: unsupported expression {ast.dump(node)[:100]}")


def _gem_tree(stmts, gemini_classes, where):
    if not stmts:
        raise TranslationFailure(f"{where}: falls off the end")
    st, rest = stmts[0], stmts[1:]
    if isinstance(st, ast.Expr) and isinstance(st.value, ast.Constant) and isinstance(st.value.value, str):
        return _gem_tree(rest, gemini_classes, where)
    if isinstance(st, ast.Return) and st.value is not None:
        return ("ret", _gem_expr(st.value, gemini_classes, where))
    if isinstance(st, ast.If):
        test, then, other = _strip_not(st)
        return ("ite", _gem_test(test, where), _gem_tree(then + rest, gemini_classes, where),
                _gem_tree(other + rest, gemini_classes, where))
    raise TranslationFailure(f"{where}: unsupported statement {ast.dump(st)[:100]}")


# ------------------------------------------------------------------ registry (constructor calls as written)
def _registry_calls():
    tree = tables._parse("gemclus/gemini/_utils.py")
    fn = tables._find(tree, ast.FunctionDef, "_str_to_gemini")
    avail = None
    for node in tree.body:
        if isinstance(node, ast.Assign) and getattr(node.targets[0], "id", None) == "AVAILABLE_GEMINIS":
            avail = [e.value for e in node.value.elts]
    if avail is None:
        raise TranslationFailure("AVAILABLE_GEMINIS not found")
    arg = fn.args.args[0].arg
    chain = [s for s in fn.body if isinstance(s, ast.If)]
    if len(chain) != 2 or len(fn.body) != 2:
        raise TranslationFailure("_str_to_gemini: unexpected statement skeleton")
    guard, node = chain
    if not (isinstance(guard.test, ast.Compare) and isinstance(guard.test.ops[0], ast.NotIn)
            and isinstance(guard.test.left, ast.Name) and guard.test.left.id == arg
            and isinstance(guard.test.comparators[0], ast.Name) and guard.test.comparators[0].id == "AVAILABLE_GEMINIS"
            and len(guard.body) == 1 and isinstance(guard.body[0], ast.Raise) and not guard.orelse):
        raise TranslationFailure("_str_to_gemini: membership guard missing")
    exc = guard.body[0].exc
    exc = exc.func if isinstance(exc, ast.Call) else exc
    if not (isinstance(exc, ast.Name) and exc.id == "ValueError"):
        raise TranslationFailure("_str_to_gemini: guard does not raise ValueError")
    entries = []
    seen = set()
    while node is not None:
        names = tables._names_of_test(node.test, arg)
        if len(node.body) != 1 or not isinstance(node.body[0], ast.Return) or not isinstance(node.body[0].value, ast.Call):
            raise TranslationFailure("_str_to_gemini: branch is not `return Cls(...)`")
        call = node.body[0].value
        if call.args or not isinstance(call.func, ast.Name):
            raise TranslationFailure("_str_to_gemini: unsupported constructor call")
        kws = []
        for k in call.keywords:
            if k.arg is None or not isinstance(k.value, ast.Constant):
                raise TranslationFailure("_str_to_gemini: non-constant kwarg")
            kws.append((k.arg, _atom(k.value.value)))
        for nme in names:
            if nme not in seen:  # first matching branch wins
                seen.add(nme)
                entries.append((nme, call.func.id, kws))
        if len(node.orelse) == 1 and isinstance(node.orelse[0], ast.If):
            node = node.orelse[0]
        elif not node.orelse:
            node = None
        else:
            raise TranslationFailure("_str_to_gemini: trailing else")
    return avail, entries


# ------------------------------------------------------------------ Lean rendering
def _l_list(items):
    return "[" + ", ".join(items) + "]"


def _l_atom(a):
    k = a[0]
    if k == "none":
        return ".none"
    if k == "bool":
        return f"(.bool {lean_bool(a[1])})"
    if k == "str":
        return f"(.str {lean_str(a[1])})"
    if k == "tok":
        return f"(.tok {lean_str(a[1])})"
    raise TranslationFailure(f"atom {a}")


def _l_src(s):
    if s[0] == "param":
        return f"(.param {lean_str(s[1])})"
    return f"(.const {_l_atom(s[1])})"


def _l_args(args):
    return _l_list([".X" if a == "X" else ".train" for a in args])


def _l_aff_expr(e):
    k = e[0]
    if k == "y":
        return ".y"
    if k == "noneVal":
        return ".noneVal"
    if k == "callAttr":
        return f"(.callAttr {lean_str(e[1])} {_l_args(e[2])})"
    if k == "pairwise":
        m = f"(.attr {lean_str(e[3][1])})" if e[3][0] == "attr" else f"(.const {lean_str(e[3][1])})"
        p = ".noParams" if e[4][0] == "noParams" else f"(.orEmpty {lean_str(e[4][1])})"
        return f"(.pairwise {lean_str(e[1])} {_l_args(e[2])} {m} {p})"
    raise TranslationFailure(f"expr {e}")


def _l_aff_test(t):
    k = t[0]
    if k == "isCallable":
        return f"(.isCallable {lean_str(t[1])})"
    if k == "attrEq":
        return f"(.attrEq {lean_str(t[1])} {lean_str(t[2])})"
    if k == "yIsNone":
        return ".yIsNone"
    if k == "attrNotNone":
        return f"(.attrNotNone {lean_str(t[1])})"
    raise TranslationFailure(f"test {t}")


def _l_aff_tree(t, ind=4):
    pad = " " * ind
    k = t[0]
    if k == "ite":
        return (f"(.ite {_l_aff_test(t[1])}\n{pad}{_l_aff_tree(t[2], ind + 2)}\n{pad}{_l_aff_tree(t[3], ind + 2)})")
    if k == "ret":
        return f"(.ret {_l_aff_expr(t[1])})"
    if k == "raise":
        return f"(.raise {lean_str(t[1])})"
    if k == "warn":
        return f"(.warn {_l_aff_tree(t[1], ind + 2)})"
    raise TranslationFailure(f"tree {t}")


def _l_gem_tree(t, ind=4):
    pad = " " * ind
    if t[0] == "ite":
        tst = f"(.{t[1][0]} {lean_str(t[1][1])})"
        return f"(.ite {tst}\n{pad}{_l_gem_tree(t[2], ind + 2)}\n{pad}{_l_gem_tree(t[3], ind + 2)})"
    e = t[1]
    if e[0] in ("registryConst", "registryAttr", "attr"):
        return f"(.ret (.{e[0]} {lean_str(e[1])}))"
    kws = _l_list([f"({lean_str(k)}, {lean_str(a)})" for k, a in e[2]])
    return f"(.ret (.build {lean_str(e[1])} {kws}))"


def _l_constraint(c):
    if c[0] == "strOptions":
        return "(.strOptions " + _l_list([lean_str(s) for s in c[1]]) + ")"
    return "." + c[0]


def _l_params(ps):
    return _l_list([f"({lean_str(p)}, {_l_atom(d)})" for p, d in ps])


def _l_binds(b):
    return _l_list([f"({lean_str(a)}, {_l_src(s)})" for a, s in b.items()])


# ------------------------------------------------------------------ the unit
def forwarding():
    gcls = _classes(GEMINI_FILES)
    ecls = _classes(ESTIMATOR_FILES)
    data = {"ctors": {}, "estimators": {}}
    # GEMINI constructors: every class along whose chain `evaluate` is defined concretely
    ctor_names = []
    for name in gcls:
        chain = _chain(gcls, name)
        owner, fn = _method(gcls, chain, "evaluate")
        if fn is None or any(isinstance(b, ast.Pass) for b in fn.body):
            continue  # abstract helper (_GEMINI, _FDivergence)
        params, binds, checks = _init_of(gcls, name, with_checks=True)
        aowner, atree = _affinity_of(gcls, name, "compute_affinity", [["self", "X", "y"]])
        if atree is None:
            raise TranslationFailure(f"{name}: no compute_affinity")
        data["ctors"][name] = {"params": params, "binds": binds, "checks": checks, "evalCls": owner,
                               "affinityOwner": aowner, "affinity": atree}
        ctor_names.append(name)
    avail, reg = _registry_calls()
    for _, cls, _ in reg:
        if cls not in data["ctors"]:
            raise TranslationFailure(f"_str_to_gemini builds unknown class {cls}")
    data["available"] = avail
    data["registry"] = reg
    # estimators
    for name in ESTIMATORS:
        params, binds, _ = _init_of(ecls, name, with_checks=False)
        chain = _chain(ecls, name)
        gowner, gfn = _method(ecls, chain, "get_gemini")
        gtree = None
        if gfn is not None:
            if [a.arg for a in gfn.args.args] != ["self"]:
                raise TranslationFailure(f"{gowner}.get_gemini: unexpected signature")
            gtree = _gem_tree(list(gfn.body), data["ctors"], f"{gowner}.get_gemini")
        kowner, ktree = _affinity_of(ecls, name, "_compute_kernel", [["self", "X"], ["self", "X", "y"]])
        data["estimators"][name] = {"params": params, "binds": binds, "getGeminiOwner": gowner or "",
                                    "getGemini": gtree, "kernelOwner": kowner or "", "ownKernel": ktree}
    # ---- Lean text
    L = ["/- GENERATED by translator/forwarding.py from gemclus/gemini/*.py, gemclus/_base_gemini.py and the 18",
         "   estimator classes — do not edit. -/",
         "import GemVerif.Model.Forwarding", "",
         "namespace GemVerif.Gen.Forwarding", "open GemVerif.Model.Forwarding", ""]
    for name in ctor_names:
        c = data["ctors"][name]
        L += [f"/-- `{c['affinityOwner']}.compute_affinity` (as inherited by `{name}`) -/",
              f"def aff_{name} : AffTree :=\n  {_l_aff_tree(c['affinity'])}", ""]
    L.append("/-- GEMINI constructors -/")
    L.append("def ctors : List CtorDesc := [")
    rows = []
    for name in ctor_names:
        c = data["ctors"][name]
        checks = _l_list([f"({lean_str(w)}, {_l_src(s)}, {_l_list([_l_constraint(a) for a in alts])})"
                          for w, s, alts in c["checks"]])
        rows.append(f"  {{ name := {lean_str(name)},\n    params := {_l_params(c['params'])},\n    checks := {checks},\n"
                    f"    binds := {_l_binds(c['binds'])},\n    evalCls := {lean_str(c['evalCls'])},\n"
                    f"    affinityOwner := {lean_str(c['affinityOwner'])},\n    affinity := aff_{name} }}")
    L.append(",\n".join(rows) + "]")
    L += ["", "/-- `AVAILABLE_GEMINIS` -/",
          "def available : List String := " + _l_list([lean_str(a) for a in avail]), "",
          "/-- `_str_to_gemini`: name ↦ constructor call as written -/",
          "def registry : List (String × String × List (String × Atom)) := ["]
    L.append(",\n".join(f"  ({lean_str(n)}, {lean_str(c)}, {_l_params(k)})" for n, c, k in reg) + "]")
    L += ["", "def tables : Tables := ⟨ctors, registry, available⟩", ""]
    for name in ESTIMATORS:
        e = data["estimators"][name]
        if e["getGemini"] is not None and e["getGeminiOwner"] == name:
            L += [f"/-- `{name}.get_gemini` -/", f"def gem_{name} : GemTree :=\n  {_l_gem_tree(e['getGemini'])}", ""]
        if e["ownKernel"] is not None and e["kernelOwner"] == name:
            L += [f"/-- `{name}._compute_kernel` -/", f"def kernel_{name} : AffTree :=\n  {_l_aff_tree(e['ownKernel'])}", ""]
    # inherited trees defined by non-estimator classes of the table (DiscriminativeModel)
    extra = {}
    for name in ESTIMATORS:
        e = data["estimators"][name]
        if e["getGemini"] is not None and e["getGeminiOwner"] not in ESTIMATORS:
            extra[e["getGeminiOwner"]] = e["getGemini"]
    pre = []
    for owner, t in extra.items():
        pre += [f"/-- `{owner}.get_gemini` -/", f"def gem_{owner} : GemTree :=\n  {_l_gem_tree(t)}", ""]
    # `pre` must precede the estimator definitions that use it: insert before the first estimator def
    L += pre
    L.append("/-- the 18 estimators -/")
    L.append("def estimators : List EstDesc := [")
    rows = []
    for name in ESTIMATORS:
        e = data["estimators"][name]
        g = "none" if e["getGemini"] is None else f"some gem_{e['getGeminiOwner']}"
        k = "none" if e["ownKernel"] is None else f"some kernel_{e['kernelOwner']}"
        rows.append(f"  {{ name := {lean_str(name)},\n    params := {_l_params(e['params'])},\n    binds := {_l_binds(e['binds'])},\n"
                    f"    getGeminiOwner := {lean_str(e['getGeminiOwner'])}, getGemini := {g},\n"
                    f"    kernelOwner := {lean_str(e['kernelOwner'])}, ownKernel := {k} }}")
    L.append(",\n".join(rows) + "]")
    L += ["", "end GemVerif.Gen.Forwarding", ""]
    return data, "\n".join(L)


if __name__ == "__main__":
    d, t = forwarding()
    print(t)
