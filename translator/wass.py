"""NumPy-expression translator for `WassersteinGEMINI.evaluate` (properties C01, C02, C13, C17): loops + POT as a parameter.

Reads the CURRENT source of /repo/gemclus/gemini/_geomdistances.py with python `ast` (gemclus is never imported) and emits
`lean/GemVerif/Gen/Wass.lean`: FOUR `def`s, one per (ovo, return_grad) combination — `wass_ova`, `wass_ova_grad`, `wass_ovo`,
`wass_ovo_grad` — over the untyped array DSL of `GemVerif/Np.lean` … `Np4.lean`; parameters, in this FIXED order:
`(emd2 : Arr α → Arr α → Arr α → EmdR α) (epsilon : α) (y_pred affinity : Arr α)`: POT's `ot.emd2(a, b, M, log=True)` is a
PARAMETER (`EmdR`: the value and the two dual potentials `log["u"]`, `log["v"]`).  Props/C01WassGen.lean proves every
generated definition, with `emd2 := EmdR.ofModel emd`, equal (no NumPy error, same shape, same entries) to the hand model
`wassScore (emd κ)` / `wassGrad (emd κ)` of Model/Gemini.lean that the C02Wass / C13Wass / C17 theorems are stated about.

Built on translator/geminis.py (same values, same aliasing discipline, same `Arr.checked flags` convention, same folding of
`if self.ovo` / `if return_grad`, same inlining of pure module-level helper functions).  What is specific here:

  * LOOPS.  `for k in range(E):` / `for k in range(A, E):` (bounds: shape entries, loop variables, `+` non-negative integer
    literals) become `(List.range E).foldl (fun st k => …) init` / `(pyRange A E).foldl …`.  The state `st` is the tuple
    `(ok, x1, …, xm)`: `x1 … xm` are the variables bound BEFORE the loop that the body (nested loops included) writes into —
    `x[k] = s`, `x[a, b] = s`, `x[:, k] op= e`, `x[k] = log`, `x.append(…)` —, each of which must own a fresh array / list;
    `ok` is the conjunction, over the iterations done so far, of the flags of the body (the `ok` of every array bound in it, of
    every `ot.emd2` result, and the bounds checks of the scalar reads `v[k]`).  Every other name assigned in the body is local
    to one iteration (reading it after the loop, or re-binding a variable that exists before the loop, is refused); `break`,
    `continue`, `return`, `else:` are refused.  After the loop the state variables are re-bound to the components of the
    result and `ok` joins the flags of the enclosing block.
    `for a, b in itertools.combinations(range(E), 2):` IS, by the definition of `itertools.combinations` (pairs of positions
    `a < b` in lexicographic order), `for a in range(E): for b in range(a + 1, E):` with the same body: that is what is emitted.
  * `ot.emd2(a, b, M, log=True)` (module `ot` imported at the top of the file; exactly these arguments) only as the right-hand
    side of a two-target assignment `value_target, log_target = ot.emd2(…)`; the targets are names or stores (`x[k]`).
    `log["u"]` / `log["v"]` are 1-D arrays.  Python lists of `log`s (`List (EmdR α)`) or of 1-D arrays (`List (Arr α)`):
    `[None] * K` (logs only), `[]` (its element type is the one of what is appended), `L[k] = log`, `L.append(x)`;
    `[<1-D array expression in x> for x in L]` is `L.map (fun x => …)`, `np.vstack(<such a list>)` the 2-D array of its rows.
  * Integer indexing with loop variables: `A[k]` (row, 1-D view), `A[:, k]` (column, 1-D view), `v[k]` (scalar, with a bounds
    check among the flags), `v[k] = s`, `A[a, b] = s`, `A[:, k] op= e`.
  * `N, K = x.shape`, `np.zeros(n)` / `np.zeros((r, c))` / `np.zeros(x.shape)`, `np.ones(n)`, `np.ascontiguousarray(x)`
    (possibly a view), `np.dot` of two 1-D arrays, `None`.
Anything else raises TranslationFailure: the tie is then reported broken.
"""
import ast
import copy
import itertools

from . import geminis as G
from . import tables
from .geminis import Returned, Val, tracked
from .tables import TranslationFailure

FILE = "gemclus/gemini/_geomdistances.py"
CLS = "WassersteinGEMINI"
SHORT = "wass"
RESERVED = {"emd2", "log", "sqrt", "exp", "abs", "max", "min", "lt", "le", "beq", "sign", "clip", "sq", "none"}
EMD_T = "Arr α → Arr α → Arr α → EmdR α"
LEAN_T = {"loglist": "List (EmdR α)", "arrlist": "List (Arr α)"}
LISTS = ("loglist", "arrlist")
# the element types an empty list literal `[]` may turn out to have (decided by what is appended to it)
EMPTY_AS = {"loglist": "([] : List (EmdR α))", "arrlist": "([] : List (Arr α))"}


def _bindings(tree):
    """how often each name is bound at module level (any statement), as in geminis.module_helpers"""
    counts = {}
    for node in G._walk_scope(tree.body):
        names = []
        if isinstance(node, (ast.FunctionDef, ast.AsyncFunctionDef, ast.ClassDef)):
            names = [node.name]
        elif isinstance(node, ast.Name) and isinstance(node.ctx, (ast.Store, ast.Del)):
            names = [node.id]
        elif isinstance(node, (ast.Import, ast.ImportFrom)):
            names = [(a.asname or a.name).split(".")[0] for a in node.names]
        elif isinstance(node, ast.ExceptHandler) and node.name:
            names = [node.name]
        for x in names:
            counts[x] = counts.get(x, 0) + 1
    return counts


def _module_names(tree, module):
    """the names under which `import <module>` binds the module at the top level (bound exactly once in the module)"""
    counts = _bindings(tree)
    names = set()
    for n in tree.body:
        if isinstance(n, ast.Import):
            for a in n.names:
                if a.name == module and counts.get(a.asname or module) == 1:
                    names.add(a.asname or module)
    return names


def _imported_from(tree, module, what):
    """the names under which `from <module> import <what>` binds it at the top level (bound exactly once in the module)"""
    counts = _bindings(tree)
    names = set()
    for n in tree.body:
        if isinstance(n, ast.ImportFrom) and n.module == module and n.level == 0:
            for a in n.names:
                if a.name == what and counts.get(a.asname or what) == 1:
                    names.add(a.asname or what)
    return names


class Unit(G.Unit):
    def __init__(self, rel, tree, numpy_names, ovo, grad):
        super().__init__(rel, tree, numpy_names, SHORT, CLS, ovo, grad)
        counts = _bindings(tree)
        self.pot = _module_names(tree, "ot")
        self.itertools = _module_names(tree, "itertools")
        self.combinations = _imported_from(tree, "itertools", "combinations")
        self.builtins_ok = {b for b in ("range",) if counts.get(b, 0) == 0}
        self.depth = 0
        self.used |= {"emd2"}

    # ------------------------------------------------------------ helpers
    def fresh_name(self, py):
        return super().fresh_name("py_" + py if G._lean_ident(py) in RESERVED else py)

    def describe(self, v):
        return {"loglist": "list of POT logs", "arrlist": "list of 1-d arrays", "emptylist": "empty list", "log": "POT log",
                "emd": "(value, log) pair of ot.emd2", "none": "None", "shape": "shape"}.get(v.kind) or super().describe(v)

    def nat_term(self, e):
        """the Lean `Nat` term of an index / bound: a shape entry or loop variable, a non-negative integer literal, sums"""
        i = self.literal_int(e)
        if i is not None:
            return str(i) if i >= 0 else None
        if isinstance(e, ast.BinOp) and isinstance(e.op, ast.Add):
            a, b = self.nat_term(e.left), self.nat_term(e.right)
            return None if a is None or b is None else f"({a} + {b})"
        if isinstance(e, ast.Name):
            v = self.env.get(e.id)
            return v.term if v is not None and v.kind == "nat" else None
        if (isinstance(e, ast.Subscript) and isinstance(e.value, ast.Attribute) and e.value.attr == "shape") or \
                (isinstance(e, ast.Call) and isinstance(e.func, ast.Name) and e.func.id == "len"):
            v = self.expr(e)
            return v.term if v.kind == "nat" else None
        return None

    def full_slice(self, s):
        return isinstance(s, ast.Slice) and s.lower is None and s.upper is None and s.step is None

    def is_mod(self, f, mods, attr):
        return isinstance(f, ast.Attribute) and f.attr == attr and isinstance(f.value, ast.Name) and f.value.id in mods \
            and f.value.id not in self.env

    def shape_of(self, e, what):
        """('1d', n) for `np.zeros(n)`, ('2d', r, c) for a tuple / list of two dimensions or `x.shape` of a 2-D array"""
        if isinstance(e, (ast.Tuple, ast.List)):
            dims = [self.nat_term(x) for x in e.elts]
            if any(d is None for d in dims) or len(dims) not in (1, 2):
                self.fail(f"{what}: only shapes made of one or two shape entries", e)
            return ("1d", dims[0]) if len(dims) == 1 else ("2d", dims[0], dims[1])
        n = self.nat_term(e)
        if n is not None:
            return ("1d", n)
        v = self.expr(e)
        if v.kind != "shape":
            self.fail(f"{what}: expected a shape, got {self.describe(v)}", e)
        return ("2d", v.term[0], v.term[1])

    # ------------------------------------------------------------ expressions
    def matmul(self, a, b, node, what):
        if a.kind == "arr" and b.kind == "arr" and a.nd == 1 and b.nd == 1:
            return Val("arr", f"(Arr.dotVec {a.term} {b.term})", 0, True)
        return super().matmul(a, b, node, what)

    @tracked
    def expr(self, e):
        if isinstance(e, ast.Constant) and e.value is None:
            return Val("none", "none")
        if isinstance(e, ast.Name) and e.id in self.env and self.env[e.id].kind in LISTS + ("emptylist",):
            v = self.env[e.id]
            return Val(v.kind, v.term, v.nd, fresh=False, roots=v.roots | {e.id})
        if isinstance(e, ast.Attribute) and e.attr == "shape":
            a = self.expr(e.value)
            if a.kind in ("arr", "mask") and a.nd == 2:
                return Val("shape", [f"{a.term}.r", f"{a.term}.c"])
            self.fail(f".shape of {self.describe(a)}", e)
        if isinstance(e, ast.List) and not e.elts:
            return Val("emptylist", "[]", fresh=True)               # the element type follows from what is appended
        if isinstance(e, ast.BinOp) and isinstance(e.op, ast.Mult) and isinstance(e.left, ast.List):
            n = self.nat_term(e.right)
            if len(e.left.elts) == 1 and isinstance(e.left.elts[0], ast.Constant) and e.left.elts[0].value is None and n is not None:
                return Val("loglist", f"(List.replicate {n} (EmdR.none : EmdR α))", fresh=True)
            self.fail("list repetition: only [None] * <shape entry>", e)
        if isinstance(e, ast.ListComp):
            return self.comprehension(e)
        if isinstance(e, ast.Subscript) and not (isinstance(e.value, ast.Attribute) and e.value.attr == "shape"):
            return self.subscript(e)
        return super().expr(e)

    def subscript(self, e):
        a = self.expr(e.value)
        sl = e.slice
        if a.kind == "log":
            if isinstance(sl, ast.Constant) and sl.value in ("u", "v"):
                roots = {e.value.id} if isinstance(e.value, ast.Name) else set()
                return Val("arr", f"{a.term}.{sl.value}", 1, False, roots, mi=False)
            self.fail("subscript of a POT log: only log[\"u\"] and log[\"v\"]", e)
        if a.kind == "arr" and a.nd == 2 and isinstance(sl, ast.Tuple) and len(sl.elts) == 2 and self.full_slice(sl.elts[0]):
            k = self.nat_term(sl.elts[1])
            if k is not None:
                return Val("arr", f"(Arr.col {a.term} {k})", 1, False, a.roots)
        if a.kind == "arr" and a.nd in (1, 2) and not isinstance(sl, (ast.Tuple, ast.Slice)):
            k = self.nat_term(sl)
            if k is not None and a.nd == 2:
                return Val("arr", f"(Arr.row {a.term} {k})", 1, False, a.roots)
            if k is not None:
                self.checks.append(f"(Arr.inb1 {a.term} {k})")
                return Val("scal", f"(Arr.at1 {a.term} {k})", mi=bool(a.mi))
        self.fail("unsupported subscript (only A[k], A[:, k], v[k] for a shape entry / loop variable k, log[\"u\"], log[\"v\"], x.shape[i])", e)

    def comprehension(self, e):
        """`[<1-D array> for x in <list of POT logs>]`: a comprehension has a scope of its own"""
        if len(e.generators) != 1:
            self.fail("comprehension with several `for`", e)
        g = e.generators[0]
        if g.ifs or g.is_async or not isinstance(g.target, ast.Name):
            self.fail("comprehension: only [<expression> for <name> in <list>]", e)
        it = self.expr(g.iter)
        if it.kind not in LISTS:
            self.fail(f"comprehension over {self.describe(it)} (only over a list of POT logs or of 1-d arrays)", e)
        saved = (self.lets, self.oks, self.checks, self.env, self.aliased)
        self.lets, self.oks, self.checks, self.env, self.aliased = [], [], [], dict(self.env), set(self.aliased)
        try:
            x = self.fresh_name(g.target.id)
            if it.kind == "loglist":
                self.env[g.target.id] = Val("log", x)
            else:
                self.env[g.target.id] = Val("arr", x, 1, False, mi=False)       # an element of the list: shared
                self.aliased.add(g.target.id)
            elt = self.expr(e.elt)
            if elt.kind != "arr" or elt.nd != 1:
                self.fail(f"comprehension: the elements must be 1-d float arrays, got {self.describe(elt)}", e)
            flags = " && ".join(list(dict.fromkeys(self.checks)) + [f"{n}.ok" for n in self.oks])
            body = "".join(f"let {n} := {t}; " for n, t in self.lets)
            body += f"let flags := {flags}; Arr.checked flags {elt.term}" if flags else elt.term
        finally:
            self.lets, self.oks, self.checks, self.env, self.aliased = saved
        return Val("arrlist", f"({it.term}.map (fun ({x} : {'EmdR α' if it.kind == 'loglist' else 'Arr α'}) => {body}))", 1, True)

    def call(self, e):
        f = e.func
        n = len(e.args)
        nokw = not e.keywords
        if self.is_np(f, {"ascontiguousarray"}) and n == 1 and nokw:
            a = self.arr(self.expr(e.args[0]), e, "np.ascontiguousarray", (1, 2))
            return Val("arr", a.term, a.nd, False, a.roots)                 # a copy only when needed: possibly a view
        if self.is_np(f, {"zeros", "ones"}) and n == 1 and nokw:
            sh = self.shape_of(e.args[0], "np." + f.attr)
            r, c = ("1", sh[1]) if sh[0] == "1d" else sh[1:]
            term = f"(Arr.zeros {r} {c})" if f.attr == "zeros" else f"(Arr.full {r} {c} 1)"
            return Val("arr", term, 1 if sh[0] == "1d" else 2, True, mi=False)
        if self.is_np(f, {"vstack"}) and n == 1 and nokw:
            L = self.expr(e.args[0])
            if L.kind != "arrlist":
                self.fail(f"np.vstack of {self.describe(L)} (only of a list of 1-d arrays)", e)
            return Val("arr", f"(Arr.vstack {L.term})", 2, True, mi=False)
        if self.is_mod(f, self.pot, "emd2"):
            if n != 3 or len(e.keywords) != 1 or e.keywords[0].arg != "log" or not (isinstance(e.keywords[0].value, ast.Constant)
                                                                               and e.keywords[0].value.value is True):
                self.fail("ot.emd2: only ot.emd2(a, b, M, log=True)", e)
            a = self.arr(self.expr(e.args[0]), e, "ot.emd2", 1)
            b = self.arr(self.expr(e.args[1]), e, "ot.emd2", 1)
            M = self.arr(self.expr(e.args[2]), e, "ot.emd2", 2)
            return Val("emd", f"(emd2 {a.term} {b.term} {M.term})")
        return super().call(e)

    # ------------------------------------------------------------ statements
    def bind(self, name, v, node):
        if name in RESERVED_PY or name in self.pot or name in self.itertools or name in self.combinations:
            self.fail(f"assignment to {name}", node)
        if v.kind in ("none", "shape", "emptylist"):
            if name in ("self", "len") or name in self.numpy or name in G.ARGS[2:]:
                self.fail(f"assignment to {name}", node)
            self.env[name] = v
            self.aliased.discard(name)
            if v.kind == "emptylist" and (v.roots or not v.fresh):
                self.fail("a second name for an empty list", node)
            return
        if v.kind == "emd":
            self.fail("the (value, log) pair of ot.emd2 must be unpacked: `value, log = ot.emd2(…, log=True)`", node)
        if v.kind in LISTS + ("log",):
            if name in ("self", "len") or name in self.numpy or name in G.ARGS[2:]:
                self.fail(f"assignment to {name}", node)
            lean = self.fresh_name(name)
            self.lets.append((lean, v.term))
            for r in v.roots:
                self.aliased.add(r)
            self.aliased.discard(name)
            if v.roots or not v.fresh:
                self.aliased.add(name)
            self.env[name] = Val(v.kind, lean, v.nd, fresh=v.fresh and not v.roots, roots=v.roots)
            return
        super().bind(name, v, node)

    def resolve_empty(self, name, kind, node):
        """the empty list literal bound to `name` turns out to be a list of `kind`: it is let-bound now, with its type"""
        cur = self.env[name]
        if not cur.fresh or name in self.aliased:
            self.fail(f"use of the empty list {name}, which may be shared with another name", node)
        self.bind(name, Val(kind, EMPTY_AS[kind], 1 if kind == "arrlist" else None, fresh=True), node)

    def owned_list(self, name, node, what):
        cur = self.env.get(name)
        if cur is None or cur.kind not in LISTS:
            self.fail(f"{what} of {name}, which is not a list of POT logs / 1-d arrays", node)
        if not cur.fresh or name in self.aliased:
            self.fail(f"{what} of {name}, which is (or may be) shared with another name", node)
        return cur

    def assign_to(self, t, v, st):
        """one target of an assignment receives the (already evaluated) value `v`"""
        if isinstance(t, ast.Name):
            self.bind(t.id, v, st)
            return
        if isinstance(t, ast.Subscript) and isinstance(t.value, ast.Name):
            name, sl = t.value.id, t.slice
            cur = self.env.get(name)
            if cur is not None and cur.kind == "loglist":
                k = self.nat_term(sl)
                if k is None or v.kind != "log":
                    self.fail("store into a list of POT logs: only L[k] = log for a shape entry / loop variable k", st)
                cur = self.owned_list(name, st, "item assignment")
                self.bind(name, Val("loglist", f"(EmdR.setNth {cur.term} {k} {v.term})", fresh=True), st)
                return
            if cur is not None and cur.kind == "arr":
                if isinstance(sl, ast.Tuple) and len(sl.elts) == 2:
                    a, b = self.nat_term(sl.elts[0]), self.nat_term(sl.elts[1])
                    if a is not None and b is not None and cur.nd == 2:
                        cur = self.owned(name, st, "item assignment")
                        s = self.scal(v, st, "item assignment")
                        self.bind(name, Val("arr", f"(Arr.setAt2 {cur.term} {a} {b} {s})", 2, True), st)
                        return
                elif not isinstance(sl, ast.Slice):
                    k = self.nat_term(sl)
                    if k is not None and cur.nd == 1:
                        cur = self.owned(name, st, "item assignment")
                        s = self.scal(v, st, "item assignment")
                        self.bind(name, Val("arr", f"(Arr.setAt1 {cur.term} {k} {s})", 1, True), st)
                        return
        self.fail("unsupported assignment target (only names, v[k], A[a, b], L[k] for shape entries / loop variables)", st)

    def stmt(self, st):
        if self.scopes and isinstance(st, (ast.Return, ast.For, ast.While)):
            return self.helper_stmt(st)
        if isinstance(st, ast.For):
            return self.loop(st)
        if isinstance(st, ast.Assign) and len(st.targets) == 1:
            t = st.targets[0]
            if isinstance(t, ast.Tuple):
                v = self.expr(st.value)
                if v.kind == "shape" and len(t.elts) == 2 and all(isinstance(x, ast.Name) for x in t.elts) \
                        and t.elts[0].id != t.elts[1].id:
                    for x, d in zip(t.elts, v.term):
                        self.bind(x.id, Val("nat", d), st)
                    return
                if v.kind == "emd" and len(t.elts) == 2:
                    res = self.fresh_name("_".join(x.id if isinstance(x, ast.Name) else "res" for x in t.elts) if
                                          all(isinstance(x, ast.Name) for x in t.elts) else "emd_log")
                    self.lets.append((res, v.term))
                    self.oks.append(res)
                    # Python assigns the targets from left to right
                    self.assign_to(t.elts[0], Val("scal", f"{res}.value", mi=False), st)
                    self.assign_to(t.elts[1], Val("log", res, fresh=True), st)
                    return
                self.fail(f"cannot unpack {self.describe(v)} into {len(t.elts)} target(s)", st)
            if isinstance(t, ast.Subscript) and isinstance(t.value, ast.Name):
                sl = t.slice
                idx = sl.elts if isinstance(sl, ast.Tuple) else [sl]
                if all(not isinstance(x, ast.Slice) and self.nat_term(x) is not None for x in idx):
                    self.assign_to(t, self.expr(st.value), st)
                    return
        if isinstance(st, ast.AugAssign) and isinstance(st.target, ast.Subscript) and isinstance(st.target.value, ast.Name):
            name, sl = st.target.value.id, st.target.slice
            if isinstance(sl, ast.Tuple) and len(sl.elts) == 2 and self.full_slice(sl.elts[0]):
                k = self.nat_term(sl.elts[1])
                if k is not None:
                    cur = self.owned(name, st, "column update")
                    if cur.nd != 2:
                        self.fail("column update of an array that is not 2-d", st)
                    rhs = self.expr(st.value)
                    v = self.binop(st.op, Val("arr", f"(Arr.col {cur.term} {k})", 1), rhs, st)
                    if v.kind != "arr" or v.nd != 1:
                        self.fail(f"column update with a {self.describe(v)} result", st)
                    self.bind(name, Val("arr", f"(Arr.setCol {cur.term} {k} {v.term})", 2, True), st)
                    return
            self.fail("unsupported augmented assignment target (only x op= e and A[:, k] op= e)", st)
        if isinstance(st, ast.Expr) and isinstance(st.value, ast.Call) and isinstance(st.value.func, ast.Attribute) \
                and st.value.func.attr == "append" and isinstance(st.value.func.value, ast.Name) \
                and self.env.get(st.value.func.value.id, Val("", "")).kind in LISTS + ("emptylist",):
            c = st.value
            name = c.func.value.id
            if len(c.args) != 1 or c.keywords:
                self.fail("append: only L.append(x)", st)
            v = self.expr(c.args[0])
            want = "loglist" if v.kind == "log" else "arrlist" if (v.kind == "arr" and v.nd == 1) else None
            if want is None:
                self.fail(f"append of {self.describe(v)} (only POT logs or 1-d arrays)", st)
            if self.env[name].kind == "emptylist":
                self.resolve_empty(name, want, st)
            cur = self.owned_list(name, st, "append")
            if cur.kind != want:
                self.fail(f"append of {self.describe(v)} to a {self.describe(cur)}", st)
            for r in v.roots:                     # the list now refers to that array
                self.aliased.add(r)
            self.bind(name, Val(want, f"({cur.term} ++ [{v.term}])", 1 if want == "arrlist" else None, fresh=True), st)
            return
        return super().stmt(st)

    # ------------------------------------------------------------ loops
    def written(self, body, stores, names):
        """the names the EXECUTED statements of `body` (folded branches, nested loops included) store into (`x[…] = `,
        `x[…] op=`, `x.append`) resp. bind"""
        for st in body:
            if isinstance(st, ast.If):
                cond = self.fold_test(st.test)
                if cond is None:
                    self.fail("unsupported branch inside a loop (only tests made of `self.ovo`, `return_grad`, `not`, `and`, `or`)", st)
                self.written(st.body if cond else st.orelse, stores, names)
            elif isinstance(st, ast.For):
                if st.orelse:
                    self.fail("for … else", st)
                for x in (st.target.elts if isinstance(st.target, ast.Tuple) else [st.target]):
                    if not isinstance(x, ast.Name):
                        self.fail("unsupported loop target", st)
                    names.append(x.id)
                self.written(st.body, stores, names)
            elif isinstance(st, (ast.Assign, ast.AugAssign)):
                targets = st.targets if isinstance(st, ast.Assign) else [st.target]
                for t in targets:
                    for x in (t.elts if isinstance(t, ast.Tuple) else [t]):
                        if isinstance(x, ast.Name):
                            names.append(x.id)
                        elif isinstance(x, ast.Subscript) and isinstance(x.value, ast.Name):
                            stores.append(x.value.id)
                        else:
                            self.fail("unsupported assignment target inside a loop", st)
            elif isinstance(st, ast.Expr) and isinstance(st.value, ast.Call) and isinstance(st.value.func, ast.Attribute) \
                    and isinstance(st.value.func.value, ast.Name) and st.value.func.attr == "append":
                stores.append(st.value.func.value.id)
            elif isinstance(st, ast.Pass) or (isinstance(st, ast.Expr) and isinstance(st.value, ast.Constant)
                                              and isinstance(st.value.value, str)):
                pass
            else:
                self.fail(f"{type(st).__name__} inside a loop", st)

    def range_list(self, it, st):
        """the Lean list of `range(E)` / `range(A, E)`"""
        if not (isinstance(it, ast.Call) and isinstance(it.func, ast.Name) and it.func.id == "range" and "range" in self.builtins_ok
                and "range" not in self.env and not it.keywords and len(it.args) in (1, 2)):
            self.fail("unsupported loop (only over range(E), range(A, E), itertools.combinations(range(E), 2))", st)
        bounds = [self.nat_term(x) for x in it.args]
        if any(b is None for b in bounds):
            self.fail("range: the bounds must be shape entries, loop variables, non-negative integer literals or sums of them", st)
        return f"(List.range {bounds[0]})" if len(bounds) == 1 else f"(pyRange {bounds[0]} {bounds[1]})"

    def loop(self, st):
        if st.orelse:
            self.fail("for … else", st)
        it = st.iter
        # itertools.combinations(range(E), 2): the pairs a < b of range(E) in lexicographic order = two nested loops
        if isinstance(it, ast.Call) and (self.is_mod(it.func, self.itertools, "combinations") or
                                         (isinstance(it.func, ast.Name) and it.func.id in self.combinations and it.func.id not in self.env)):
            t = st.target
            if len(it.args) != 2 or it.keywords or self.literal_int(it.args[1]) != 2 or not isinstance(t, ast.Tuple) \
                    or len(t.elts) != 2 or not all(isinstance(x, ast.Name) for x in t.elts) or t.elts[0].id == t.elts[1].id:
                self.fail("itertools.combinations: only `for a, b in itertools.combinations(range(E), 2):`", st)
            rng = it.args[0]
            if not (isinstance(rng, ast.Call) and isinstance(rng.func, ast.Name) and rng.func.id == "range" and len(rng.args) == 1
                    and not rng.keywords):
                self.fail("itertools.combinations: only of range(E)", st)
            a, b = t.elts
            inner = ast.For(target=b, iter=ast.Call(func=rng.func, args=[ast.BinOp(left=ast.Name(id=a.id, ctx=ast.Load()), op=ast.Add(),
                                                                                 right=ast.Constant(value=1)),
                                                                       copy.deepcopy(rng.args[0])], keywords=[]),
                            body=st.body, orelse=[])
            outer = ast.For(target=a, iter=rng, body=[inner], orelse=[])
            for node in (inner, outer):
                ast.copy_location(node, st)
                ast.fix_missing_locations(node)
            return self.loop(outer)
        if not isinstance(st.target, ast.Name):
            self.fail("unsupported loop target", st)
        lst = self.range_list(it, st)
        var = st.target.id
        stores, names = [], []
        self.written(st.body, stores, names)
        if var in self.env or var in names or var in stores:
            self.fail(f"the loop variable {var} is bound elsewhere", st)
        carried = sorted({x for x in names if x in self.env})
        if carried:
            self.fail(f"variable(s) {', '.join(carried)} assigned inside the loop exist before it (loop-carried plain variables)", st)
        state = []
        for x in stores:
            if x in self.env and x not in state:
                state.append(x)
        if not state:
            self.fail("a loop must write into at least one array / list allocated before it", st)
        empties = [x for x in state if self.env[x].kind == "emptylist"]
        if empties:
            # the element type of an empty list is the one that makes the body translate
            last = None
            for combo in itertools.product(EMPTY_AS, repeat=len(empties)):
                snap = (list(self.lets), list(self.oks), list(self.checks), dict(self.env), set(self.aliased), set(self.used), self.depth)
                try:
                    for x, kind in zip(empties, combo):
                        self.resolve_empty(x, kind, st)
                    return self.loop(st)
                except TranslationFailure as e:
                    last = e
                    self.lets, self.oks, self.checks, self.env, self.aliased, self.used, self.depth = snap
            raise last
        init, kinds = [], []
        for s in state:
            cur = self.env[s]
            if cur.kind == "arr":
                cur = self.owned(s, st, "write inside a loop")
                if cur.nd not in (1, 2):
                    self.fail(f"write inside a loop into a {cur.nd}-d array", st)
            elif cur.kind in LISTS:
                cur = self.owned_list(s, st, "write inside a loop")
            else:
                self.fail(f"write inside a loop into {s}, which is {self.describe(cur)}", st)
            init.append(cur.term)
            kinds.append((cur.kind, cur.nd))
        sty = " × ".join(["Bool"] + ["Arr α" if k == "arr" else LEAN_T[k] for k, _ in kinds])
        acc = lambda root, j: root + ".2" * (j + 1) + (".1" if j < len(state) - 1 else "")
        saved = (self.lets, self.oks, self.checks, self.env, self.aliased)
        self.lets, self.oks, self.checks, self.env, self.aliased = [], [], [], dict(self.env), set(self.aliased)
        self.depth += 1
        ind = "  " * (1 + 2 * self.depth)
        try:
            st_lean = self.fresh_name("st")
            k_lean = self.fresh_name(var)
            self.env[var] = Val("nat", k_lean)
            for j, (s, (kind, nd)) in enumerate(zip(state, kinds)):
                nm = self.fresh_name(s)
                self.lets.append((nm, acc(st_lean, j)))
                self.env[s] = Val(kind, nm, nd, True)
                self.aliased.discard(s)
            try:
                self.block(st.body)
            except Returned:
                self.fail("return inside a loop", st)
            outs = [self.env[s].term for s in state]
            flags = " && ".join([f"{st_lean}.1"] + list(dict.fromkeys(self.checks)) + [f"{n}.ok" for n in self.oks])
            lines = [f"({lst}.foldl (fun ({st_lean} : {sty}) ({k_lean} : Nat) =>"]
            lines += [f"{ind}let {n} := {t}" for n, t in self.lets]
            lines += [f"{ind}let flags := {flags}", f"{ind}({', '.join(['flags'] + outs)})) ({', '.join(['true'] + init)}))"]
        finally:
            self.depth -= 1
            self.lets, self.oks, self.checks, self.env, self.aliased = saved
        res = self.fresh_name("loop")
        self.lets.append((res, "\n".join(lines)))
        self.checks.append(f"{res}.1")
        for j, (s, (kind, nd)) in enumerate(zip(state, kinds)):
            self.bind(s, Val(kind, acc(res, j), nd, True), st)

    # ------------------------------------------------------------ emission
    def emit(self):
        flags = " && ".join(list(dict.fromkeys(self.checks)) + [f"{n}.ok" for n in self.oks]) or "true"
        ls = [f"  let {n} := {t}" for n, t in self.lets]
        outs = [f"(Arr.checked flags {v.term})" for v in self.result]
        fin = outs[0] if len(outs) == 1 else "(" + ", ".join(outs) + ")"
        rty = "Arr α" if len(outs) == 1 else "Arr α × Arr α"
        doc = f"`{self.cls}.evaluate` with `self.ovo = {self.ovo}`, `return_grad = {self.grad}` ({self.rel}); `emd2 a b M` = " \
              f"`ot.emd2(a, b, M, log=True)`"
        return "\n".join([f"/-- {doc} -/",
                          f"def {self.lean_name} (emd2 : {EMD_T}) (epsilon : α) (y_pred : Arr α) (affinity : Arr α) : {rty} :="]
                         + ls + [f"  let flags := {flags}", "  " + fin, ""])


RESERVED_PY = {"range"}


def translate():
    tree = tables._parse(FILE)
    nps = G._numpy_names(FILE, tree)
    units = []
    for ovo in (False, True):                 # the one-vs-all units first
        for grad in (False, True):
            units.append(Unit(FILE, tree, nps, ovo, grad).run())
    return units


def wass():
    units = translate()
    data = {u.lean_name: u.data() for u in units}
    L = ["/- GENERATED by translator/wass.py from " + FILE + " — do not edit.",
         "   `WassersteinGEMINI.evaluate`, one `def` per (`self.ovo`, `return_grad`), both folded, over the untyped NumPy of",
         "   GemVerif/Np.lean … Np4.lean; parameters: `emd2` (POT's `ot.emd2(a, b, M, log=True)`), `self.epsilon`, `y_pred`, `affinity`.",
         "   Python `for` loops over `range` are `List.foldl`s whose state is `(ok, <the arrays / lists the body writes into>)`.",
         "   0-d arrays are `(1, 1)`, 1-D arrays `(1, m)`.  Props/C01WassGen.lean proves them equal to `wassScore` / `wassGrad` of",
         "   Model/Gemini.lean. -/",
         "import GemVerif.Np4", "",
         "set_option linter.unusedVariables false", "",
         "namespace GemVerif.Gen.Wass",
         "open GemVerif GemVerif.RealLike GemVerif.Np", "",
         "variable {α : Type} [RealLike α]", ""]
    for u in units:
        L.append(u.emit())
    L += ["end GemVerif.Gen.Wass", ""]
    return data, "\n".join(L)


if __name__ == "__main__":
    d, t = wass()
    print(t)
