"""Constraint-table translator (property C16).

Reads the CURRENT /repo sources with `ast` (gemclus is never imported) and emits `lean/GemVerif/Gen/Constraints.lean`:

  estimators   every concrete estimator class: its `__init__` parameters (own or inherited) and, per parameter, the
               entry of its `_parameter_constraints` dict literal with the `**Parent._parameter_constraints` splices
               resolved through the class hierarchy (no entry = scikit-learn does not validate that parameter)
  functions    every `@constraint_params({...})` decorator table (GEMINI constructors, data generators,
               add_mlcl_constraint, print_kauri_tree), matched against the decorated signature; an undecorated
               GEMINI `__init__` that forwards `p=p` to a decorated parent constructor inherits that entry (MI)
  deadKeys     keys of a decorator table that name no parameter of the decorated function (they validate nothing)
  namedSets    in-repo string sets used by `StrOptions` (AVAILABLE_GEMINIS)
  ancestors    class name -> itself and all its ancestors (for `isinstance` constraints)
  kauriRejects / douglasMaskRejects   the two scalar validity tests, translated expression by expression
  checkGroups  `gemclus/sparse/_base_sparse.py::check_groups`, translated statement by statement onto the
               python primitives of `Model/Constraints.lean` (`pyMin`, `pyMax`, `pySetEq`, ...)

Constraint kinds (canonical): interval(Integral|Real, lo, hi, closed), strOptions(named sets, literal strings),
instanceOf(class), none, callable, randomState, arrayLike, booleans.
Anything outside the supported forms raises TranslationFailure (tie broken -> failing-input search).
"""
import ast
import glob
import os
from fractions import Fraction

from .tables import TranslationFailure, lean_str, gemini_classes

SCAN = ["gemclus/_base_gemini.py", "gemclus/linear/_linear_geminis.py", "gemclus/mlp/_mlp_geminis.py",
        "gemclus/sparse/_linear_sparse.py", "gemclus/sparse/_mlp_sparse.py",
        "gemclus/nonparametric/_categorical_models.py", "gemclus/tree/kauri.py", "gemclus/tree/douglas.py",
        "gemclus/gemini/_base_loss.py", "gemclus/gemini/_fdivergences.py", "gemclus/gemini/_geomdistances.py",
        "gemclus/data/synthetic_data.py", "gemclus/mlcl.py"]
TYPE_NAMES = {"bool", "dict", "list", "tuple", "int", "float", "str"}


def _repo():
    return os.environ.get("VERIF_REPO", "/repo")


def _parse(rel):
    path = os.path.join(_repo(), rel)
    if not os.path.exists(path):
        raise TranslationFailure(f"{rel} missing")
    return ast.parse(open(path).read(), filename=path)


def _files():
    """the anchored files plus any other non-test module of gemclus that defines a table or a decorated function"""
    rels = list(SCAN)
    root = _repo()
    for p in sorted(glob.glob(os.path.join(root, "gemclus", "**", "*.py"), recursive=True)):
        rel = os.path.relpath(p, root)
        if "/tests/" in rel or rel in rels or rel.endswith("_constraints.py"):
            continue
        src = open(p).read()
        if "_parameter_constraints" in src or "constraint_params" in src:
            rels.append(rel)
    return rels


# ------------------------------------------------------------------ constraint expressions
def _bound(e):
    """None | ('fin', Fraction) | 'posInf' | 'negInf'"""
    if isinstance(e, ast.Constant) and e.value is None:
        return None
    neg = False
    if isinstance(e, ast.UnaryOp) and isinstance(e.op, ast.USub):
        neg, e = True, e.operand
    if isinstance(e, ast.Constant) and isinstance(e.value, (int, float)) and not isinstance(e.value, bool):
        q = Fraction(repr(e.value)) if isinstance(e.value, float) else Fraction(e.value)
        return ("fin", -q if neg else q)
    if isinstance(e, ast.Attribute) and e.attr == "inf" and isinstance(e.value, ast.Name) and e.value.id in ("np", "numpy", "math"):
        return "negInf" if neg else "posInf"
    raise TranslationFailure(f"unsupported interval bound {ast.unparse(e)}")


def _strset(e):
    """set-valued expression -> (sorted named sets, sorted literal strings)"""
    if isinstance(e, ast.Set):
        lits = []
        for x in e.elts:
            if not (isinstance(x, ast.Constant) and isinstance(x.value, str)):
                raise TranslationFailure(f"non-literal option {ast.unparse(x)}")
            lits.append(x.value)
        return [], sorted(set(lits))
    if isinstance(e, (ast.List, ast.Tuple)):
        return _strset(ast.Set(elts=e.elts))
    if isinstance(e, ast.Name):
        return [e.id], []
    if isinstance(e, ast.Call) and isinstance(e.func, ast.Name) and e.func.id in ("set", "list", "sorted", "frozenset", "tuple") \
            and len(e.args) == 1 and not e.keywords:
        return _strset(e.args[0])
    if isinstance(e, ast.Call) and isinstance(e.func, ast.Attribute) and e.func.attr == "keys" and not e.args:
        return _strset(e.func.value)
    if isinstance(e, ast.BinOp) and isinstance(e.op, (ast.Add, ast.BitOr)):
        a, b = _strset(e.left), _strset(e.right)
        return sorted(set(a[0] + b[0])), sorted(set(a[1] + b[1]))
    raise TranslationFailure(f"unsupported StrOptions argument {ast.unparse(e)}")


def constraint(e):
    """one element of a constraint list -> canonical tuple"""
    if isinstance(e, ast.Constant):
        if e.value is None:
            return ("none",)
        if e.value == "random_state":
            return ("randomState",)
        if e.value == "array-like":
            return ("arrayLike",)
        if e.value in ("boolean", "bool"):
            return ("booleans",)
        raise TranslationFailure(f"unsupported constraint constant {e.value!r}")
    if isinstance(e, ast.Name):
        if e.id == "callable":
            return ("callable",)
        return ("instanceOf", e.id)        # python type (bool, dict, list, ...) or a class of the library
    if isinstance(e, ast.Attribute):
        return ("instanceOf", e.attr)      # np.ndarray -> "ndarray", np.random.RandomState -> "RandomState"
    if isinstance(e, ast.Call) and isinstance(e.func, ast.Name) and e.func.id == "Interval":
        if len(e.args) != 3 or [k.arg for k in e.keywords] != ["closed"]:
            raise TranslationFailure(f"unsupported Interval call {ast.unparse(e)}")
        t = e.args[0]
        if not (isinstance(t, ast.Name) and t.id in ("Integral", "Real")):
            raise TranslationFailure(f"unsupported Interval type {ast.unparse(t)}")
        c = e.keywords[0].value
        if not (isinstance(c, ast.Constant) and c.value in ("left", "right", "both", "neither")):
            raise TranslationFailure(f"unsupported closed= {ast.unparse(c)}")
        lo, hi = _bound(e.args[1]), _bound(e.args[2])
        return ("interval", t.id, lo, hi, c.value)
    if isinstance(e, ast.Call) and isinstance(e.func, ast.Name) and e.func.id == "StrOptions":
        if len(e.args) != 1 or e.keywords:
            raise TranslationFailure(f"unsupported StrOptions call {ast.unparse(e)}")
        names, lits = _strset(e.args[0])
        return ("strOptions", tuple(names), tuple(lits))
    raise TranslationFailure(f"unsupported constraint {ast.unparse(e)}")


def _constraint_list(e, where):
    if not isinstance(e, ast.List):
        raise TranslationFailure(f"{where}: constraints are not a list literal")
    return [constraint(x) for x in e.elts]


# ------------------------------------------------------------------ classes
class _Cls:
    def __init__(self, node, rel):
        self.node, self.rel, self.name = node, rel, node.name
        self.bases = [b.id for b in node.bases if isinstance(b, ast.Name)]
        self.table = None      # ast.Dict of `_parameter_constraints`
        self.init = None
        self.abstract = False
        for it in node.body:
            tgt = None
            if isinstance(it, ast.AnnAssign) and isinstance(it.target, ast.Name):
                tgt, val = it.target.id, it.value
            elif isinstance(it, ast.Assign) and len(it.targets) == 1 and isinstance(it.targets[0], ast.Name):
                tgt, val = it.targets[0].id, it.value
            if tgt == "_parameter_constraints":
                if not isinstance(val, ast.Dict):
                    raise TranslationFailure(f"{self.name}._parameter_constraints is not a dict literal")
                self.table = val
            if isinstance(it, ast.FunctionDef):
                if it.name == "__init__":
                    self.init = it
                for d in it.decorator_list:
                    if (isinstance(d, ast.Name) and d.id == "abstractmethod") or \
                            (isinstance(d, ast.Attribute) and d.attr == "abstractmethod"):
                        self.abstract = True


def _classes():
    out = {}
    for rel in _files():
        for node in _parse(rel).body:
            if isinstance(node, ast.ClassDef):
                out[node.name] = _Cls(node, rel)
    return out


def _ancestors(classes, name, seen=None):
    """name first, then its ancestors in left-to-right depth-first order (enough for these single-inheritance chains)"""
    seen = seen if seen is not None else []
    if name in seen:
        return seen
    seen.append(name)
    if name in classes:
        for b in classes[name].bases:
            _ancestors(classes, b, seen)
    return seen


def _resolved_table(classes, name, depth=0):
    """{param: [constraints]} of class `name` with splices evaluated; None when no class of the chain has a table"""
    if depth > 12:
        raise TranslationFailure(f"cyclic table splice at {name}")
    for c in _ancestors(classes, name):
        if c in classes and classes[c].table is not None:
            d = classes[c].table
            out = {}
            for k, v in zip(d.keys, d.values):
                if k is None:      # **Parent._parameter_constraints
                    if not (isinstance(v, ast.Attribute) and v.attr == "_parameter_constraints" and isinstance(v.value, ast.Name)):
                        raise TranslationFailure(f"{c}: unsupported splice {ast.unparse(v)}")
                    parent = _resolved_table(classes, v.value.id, depth + 1)
                    if parent is None:
                        raise TranslationFailure(f"{c}: splice of {v.value.id} which has no table")
                    out.update(parent)
                else:
                    if not (isinstance(k, ast.Constant) and isinstance(k.value, str)):
                        raise TranslationFailure(f"{c}: non-literal table key")
                    out[k.value] = _constraint_list(v, f"{c}.{k.value}")
            return out
    return None


def _init_params(classes, name):
    for c in _ancestors(classes, name):
        if c in classes and classes[c].init is not None:
            a = classes[c].init.args
            if a.vararg or a.kwarg:
                raise TranslationFailure(f"{c}.__init__ uses *args/**kwargs")
            return [x.arg for x in a.args[1:]] + [x.arg for x in a.kwonlyargs]
    return None


def _sig_params(fn):
    a = fn.args
    names = [x.arg for x in a.posonlyargs + a.args + a.kwonlyargs]
    return [n for n in names if n != "self"]


def _decorator_table(fn):
    for d in fn.decorator_list:
        if isinstance(d, ast.Call) and ((isinstance(d.func, ast.Name) and d.func.id == "constraint_params") or
                                        (isinstance(d.func, ast.Attribute) and d.func.attr == "constraint_params")):
            if len(d.args) != 1 or not isinstance(d.args[0], ast.Dict):
                raise TranslationFailure(f"{fn.name}: constraint_params argument is not a dict literal")
            out = {}
            for k, v in zip(d.args[0].keys, d.args[0].values):
                if not (isinstance(k, ast.Constant) and isinstance(k.value, str)):
                    raise TranslationFailure(f"{fn.name}: non-literal decorator key")
                out[k.value] = _constraint_list(v, f"{fn.name}.{k.value}")
            return out
    return None


# ------------------------------------------------------------------ scalar validity code
def _int_expr(e, names):
    """integer-valued python expression over renamed atoms -> Lean term of type Int"""
    if isinstance(e, ast.Constant) and isinstance(e.value, int) and not isinstance(e.value, bool):
        return f"({e.value} : Int)"
    if isinstance(e, ast.BinOp) and isinstance(e.op, (ast.Mult, ast.Add, ast.Sub)):
        op = {ast.Mult: "*", ast.Add: "+", ast.Sub: "-"}[type(e.op)]
        return f"({_int_expr(e.left, names)} {op} {_int_expr(e.right, names)})"
    key = ast.unparse(e)
    if key in names:
        return names[key]
    raise TranslationFailure(f"unsupported scalar expression {key}")


_CMP = {ast.Gt: ">", ast.GtE: "≥", ast.Lt: "<", ast.LtE: "≤", ast.Eq: "=", ast.NotEq: "≠"}


def _cmp_expr(e, names):
    if isinstance(e, ast.Compare) and len(e.ops) == 1 and type(e.ops[0]) in _CMP:
        return f"decide ({_int_expr(e.left, names)} {_CMP[type(e.ops[0])]} {_int_expr(e.comparators[0], names)})"
    raise TranslationFailure(f"unsupported test {ast.unparse(e)}")


def _raises_value_error(body):
    return len(body) == 1 and isinstance(body[0], ast.Raise) and isinstance(body[0].exc, ast.Call) \
        and isinstance(body[0].exc.func, ast.Name) and body[0].exc.func.id == "ValueError"


def kauri_test(classes):
    fit = next((it for it in classes["Kauri"].node.body if isinstance(it, ast.FunctionDef) and it.name == "fit"), None) \
        if "Kauri" in classes else None
    if fit is None:
        raise TranslationFailure("Kauri.fit not found")
    names = {"self.min_samples_leaf": "min_samples_leaf", "self.min_samples_split": "min_samples_split"}
    hits = []
    for pos, st in enumerate(fit.body):
        if isinstance(st, ast.If) and not st.orelse and _raises_value_error(st.body) \
                and "min_samples_leaf" in ast.unparse(st.test) and "min_samples_split" in ast.unparse(st.test):
            hits.append((pos, st))
    if len(hits) != 1:
        raise TranslationFailure(f"Kauri.fit: expected exactly one leaf/split consistency test, found {len(hits)}")
    pos, st = hits[0]
    # the test must come before the tree is created
    tree_pos = [i for i, s in enumerate(fit.body) if "self.tree_" in ast.unparse(s) and isinstance(s, ast.Assign)]
    if not tree_pos or tree_pos[0] < pos:
        raise TranslationFailure("Kauri.fit: the consistency test no longer precedes the creation of tree_")
    return _cmp_expr(st.test, names), ast.unparse(st.test)


def douglas_test(classes):
    fn = next((it for it in classes["Douglas"].node.body if isinstance(it, ast.FunctionDef) and it.name == "_init_params"), None) \
        if "Douglas" in classes else None
    if fn is None:
        raise TranslationFailure("Douglas._init_params not found")
    xname = fn.args.args[2].arg if len(fn.args.args) > 2 else "X"
    names = {"len(self.feature_mask)": "len_feature_mask", f"{xname}.shape[1]": "n_features",
             "self.feature_mask.shape[0]": "len_feature_mask"}
    hits = []
    for st in ast.walk(fn):
        if isinstance(st, ast.If) and _raises_value_error(st.body) and "feature_mask" in ast.unparse(st.test) \
                and not (isinstance(st.test, ast.Compare) and isinstance(st.test.ops[0], (ast.Is, ast.IsNot))):
            hits.append(st)
    if len(hits) != 1:
        raise TranslationFailure(f"Douglas._init_params: expected exactly one mask-length test, found {len(hits)}")
    # it must sit on the `feature_mask is not None` side of the top-level None test
    top = [s for s in fn.body if isinstance(s, ast.If) and "feature_mask" in ast.unparse(s.test)
           and isinstance(s.test, ast.Compare) and isinstance(s.test.ops[0], (ast.Is, ast.IsNot))]
    if len(top) != 1:
        raise TranslationFailure("Douglas._init_params: `feature_mask is None` dispatch not found")
    side = top[0].orelse if isinstance(top[0].test.ops[0], ast.Is) else top[0].body
    if not side or side[0] is not hits[0]:
        raise TranslationFailure("Douglas._init_params: the mask-length test is not the first statement of the masked branch")
    return _cmp_expr(hits[0].test, names), ast.unparse(hits[0].test)


# ------------------------------------------------------------------ check_groups
class _CG:
    """statement-by-statement translation of check_groups(groups, n_features_in) onto the primitives of the Lean model.
    Types: `groups : List (List Int)` (after the `is not None` test), `n : Nat`, index lists `List Int`."""

    def __init__(self, fn):
        self.fn = fn
        if [a.arg for a in fn.args.args] != ["groups", "n_features_in"]:
            raise TranslationFailure("check_groups: unexpected signature")
        self.lists = set()      # names bound to List Int

    # ---- expressions
    def ilist(self, e):
        """List Int valued"""
        if isinstance(e, ast.Name) and e.id in self.lists:
            return e.id
        if isinstance(e, ast.Call) and isinstance(e.func, ast.Name) and e.func.id == "range" and len(e.args) == 1:
            return f"(pyRange {self.nat(e.args[0])})"
        raise TranslationFailure(f"check_groups: unsupported list expression {ast.unparse(e)}")

    def nat(self, e):
        if isinstance(e, ast.Name) and e.id == "n_features_in":
            return "n_features_in"
        raise TranslationFailure(f"check_groups: unsupported size expression {ast.unparse(e)}")

    def iexp(self, e):
        """Except String Int valued"""
        if isinstance(e, ast.Constant) and isinstance(e.value, int) and not isinstance(e.value, bool):
            return f"(pure ({e.value} : Int))"
        if isinstance(e, ast.Name) and e.id == "n_features_in":
            return "(pure (n_features_in : Int))"
        if isinstance(e, ast.Call) and isinstance(e.func, ast.Name) and len(e.args) == 1 and not e.keywords:
            f, a = e.func.id, e.args[0]
            if f in ("min", "max"):
                return f"(py{f.capitalize()} {self.ilist(a)})"
            if f == "len":
                if isinstance(a, ast.Call) and isinstance(a.func, ast.Name) and a.func.id == "set" and len(a.args) == 1:
                    return f"(pure (pySetLen {self.ilist(a.args[0])}))"
                return f"(pure (pyLen {self.ilist(a)}))"
        raise TranslationFailure(f"check_groups: unsupported integer expression {ast.unparse(e)}")

    def bexp(self, e):
        """Except String Bool valued, python evaluation order and short-circuiting"""
        if isinstance(e, ast.BoolOp):
            op = "pyOr" if isinstance(e.op, ast.Or) else "pyAnd"
            out = self.bexp(e.values[-1])
            for v in reversed(e.values[:-1]):
                out = f"({op} {self.bexp(v)} fun _ => {out})"
            return out
        if isinstance(e, ast.UnaryOp) and isinstance(e.op, ast.Not):
            return f"(pyNot {self.bexp(e.operand)})"
        if isinstance(e, ast.Compare) and len(e.ops) == 1:
            l, r, op = e.left, e.comparators[0], e.ops[0]
            is_set = lambda x: isinstance(x, ast.Call) and isinstance(x.func, ast.Name) and x.func.id == "set" and len(x.args) == 1
            if is_set(l) and is_set(r) and isinstance(op, (ast.Eq, ast.NotEq)):
                t = f"(pySetEq {self.ilist(l.args[0])} {self.ilist(r.args[0])})"
                return f"(pure {t})" if isinstance(op, ast.Eq) else f"(pure (!{t}))"
            tag = {ast.Lt: "lt", ast.LtE: "le", ast.Gt: "gt", ast.GtE: "ge", ast.Eq: "eq", ast.NotEq: "ne"}.get(type(op))
            if tag is None:
                raise TranslationFailure(f"check_groups: unsupported comparison {ast.unparse(e)}")
            return f"(pyCmp .{tag} {self.iexp(l)} {self.iexp(r)})"
        raise TranslationFailure(f"check_groups: unsupported test {ast.unparse(e)}")

    def is_type_guard(self, st):
        """`if [not] all/any(<boolean combination of isinstance(elem, T)> for elem in <index list>): raise ...`"""
        if st.orelse or len(st.body) != 1 or not isinstance(st.body[0], ast.Raise):
            return False
        t = st.test
        if isinstance(t, ast.UnaryOp) and isinstance(t.op, ast.Not):
            t = t.operand
        if not (isinstance(t, ast.Call) and isinstance(t.func, ast.Name) and t.func.id in ("all", "any") and len(t.args) == 1
                and isinstance(t.args[0], ast.GeneratorExp) and len(t.args[0].generators) == 1):
            return False
        gen = t.args[0].generators[0]
        if gen.ifs or not (isinstance(gen.iter, ast.Name) and gen.iter.id in self.lists and isinstance(gen.target, ast.Name)):
            return False
        elem = gen.target.id

        def only_isinstance(e):
            if isinstance(e, ast.BoolOp):
                return all(only_isinstance(v) for v in e.values)
            if isinstance(e, ast.UnaryOp) and isinstance(e.op, ast.Not):
                return only_isinstance(e.operand)
            return (isinstance(e, ast.Call) and isinstance(e.func, ast.Name) and e.func.id == "isinstance" and len(e.args) == 2
                    and isinstance(e.args[0], ast.Name) and e.args[0].id == elem)
        return only_isinstance(t.args[0].elt)

    def raise_tag(self, st):
        if not (isinstance(st, ast.Raise) and isinstance(st.exc, ast.Call) and isinstance(st.exc.func, ast.Name)):
            raise TranslationFailure("check_groups: unsupported raise")
        msg = st.exc.args[0] if st.exc.args else None
        text = ""
        if isinstance(msg, ast.Constant):
            text = str(msg.value)
        elif isinstance(msg, ast.JoinedStr):
            text = "".join(v.value for v in msg.values if isinstance(v, ast.Constant))
        return f"{st.exc.func.id}:{' '.join(text.split()[:3])}"

    # ---- statements
    def block(self, body, ind):
        """translate a statement list that ends every path with return/raise -> Lean term (Except String (Option Groups))"""
        pad = "  " * ind
        if not body:
            raise TranslationFailure("check_groups: a path falls off the end of the function")
        st, rest = body[0], body[1:]
        src = f"{pad}-- {ast.unparse(st).splitlines()[0]}\n"
        # all_indices = [] ; for g in groups: all_indices.extend(list(g))
        if isinstance(st, ast.Assign) and isinstance(st.value, ast.List) and not st.value.elts and rest \
                and isinstance(rest[0], ast.For):
            name = st.targets[0].id
            loop = rest[0]
            ok = (isinstance(loop.target, ast.Name) and isinstance(loop.iter, ast.Name) and loop.iter.id == "groups"
                  and len(loop.body) == 1 and not loop.orelse and isinstance(loop.body[0], ast.Expr))
            if ok:
                call = loop.body[0].value
                g = loop.target.id
                ok = (isinstance(call, ast.Call) and isinstance(call.func, ast.Attribute) and call.func.attr == "extend"
                      and isinstance(call.func.value, ast.Name) and call.func.value.id == name and len(call.args) == 1
                      and ast.unparse(call.args[0]) in (f"list({g})", g))
            if not ok:
                raise TranslationFailure("check_groups: unsupported accumulation loop")
            self.lists.add(name)
            return (src + f"{pad}-- {ast.unparse(loop).splitlines()[0]} ...\n"
                    + f"{pad}let {name} : List Int := groups.foldl (fun acc g => acc ++ g) []\n" + self.block(rest[1:], ind))
        if isinstance(st, ast.If) and self.is_type_guard(st):
            # e.g. `if not all(isinstance(i, Integral) and not isinstance(i, bool) for i in all_indices): raise ...`
            # never fires on a list of integers (the only inputs of the model): no Lean term
            return src + f"{pad}--   (type guard on the elements: vacuous on integer indices)\n" + self.block(rest, ind)
        if isinstance(st, ast.If):
            if len(st.body) == 1 and isinstance(st.body[0], ast.Raise) and not st.orelse:
                return (src + f"{pad}pyIf {self.bexp(st.test)} (fun _ => throw {lean_str(self.raise_tag(st.body[0]))}) fun _ =>\n"
                        + self.block(rest, ind))
            if rest:
                raise TranslationFailure("check_groups: statements after a two-sided if")
            return (src + f"{pad}pyIf {self.bexp(st.test)} (fun _ =>\n" + self.block(st.body, ind + 1) + f")\n{pad}fun _ =>\n"
                    + self.block(st.orelse, ind + 1))
        if isinstance(st, ast.Return):
            if rest:
                raise TranslationFailure("check_groups: dead code after return")
            return src + f"{pad}pure (some {self.groups_expr(st.value)})"
        if isinstance(st, ast.Assign) and isinstance(st.targets[0], ast.Name) and rest and isinstance(rest[0], ast.Return) \
                and isinstance(rest[0].value, ast.Name) and rest[0].value.id == st.targets[0].id and len(rest) == 1:
            return src + f"{pad}pure (some {self.groups_expr(st.value)})"
        raise TranslationFailure(f"check_groups: unsupported statement {ast.unparse(st).splitlines()[0]}")

    def groups_expr(self, e):
        if isinstance(e, ast.Name) and e.id == "groups":
            return "groups"
        if isinstance(e, ast.BinOp) and isinstance(e.op, ast.Add):
            return f"({self.groups_expr(e.left)} ++ {self.groups_expr(e.right)})"
        # [[i] for i in range(n) if i not in all_indices]
        if isinstance(e, ast.ListComp) and len(e.generators) == 1:
            gen = e.generators[0]
            i = gen.target.id if isinstance(gen.target, ast.Name) else None
            ok = (i is not None and isinstance(e.elt, ast.List) and len(e.elt.elts) == 1 and isinstance(e.elt.elts[0], ast.Name)
                  and e.elt.elts[0].id == i and len(gen.ifs) == 1 and isinstance(gen.ifs[0], ast.Compare)
                  and isinstance(gen.ifs[0].ops[0], ast.NotIn) and isinstance(gen.ifs[0].left, ast.Name) and gen.ifs[0].left.id == i)
            if ok:
                return (f"(({self.ilist(gen.iter)}.filter fun i => !(pyIn i {self.ilist(gen.ifs[0].comparators[0])}))"
                        f".map fun i => [i])")
        raise TranslationFailure(f"check_groups: unsupported result expression {ast.unparse(e)}")

    def translate(self):
        body = [s for s in self.fn.body if not (isinstance(s, ast.Expr) and isinstance(s.value, ast.Constant))]
        if len(body) != 1 or not isinstance(body[0], ast.If):
            raise TranslationFailure("check_groups: expected a single `if groups is not None` statement")
        top = body[0]
        t = top.test
        if not (isinstance(t, ast.Compare) and isinstance(t.left, ast.Name) and t.left.id == "groups"
                and isinstance(t.ops[0], (ast.Is, ast.IsNot)) and isinstance(t.comparators[0], ast.Constant)
                and t.comparators[0].value is None):
            raise TranslationFailure("check_groups: top-level test is not `groups is [not] None`")
        some_side, none_side = (top.body, top.orelse) if isinstance(t.ops[0], ast.IsNot) else (top.orelse, top.body)
        if not (len(none_side) == 1 and isinstance(none_side[0], ast.Return) and isinstance(none_side[0].value, ast.Constant)
                and none_side[0].value.value is None):
            raise TranslationFailure("check_groups: the `groups is None` side is not `return None`")
        return ("def checkGroups (groups : Option (List (List Int))) (n_features_in : Nat) :\n"
                "    Except String (Option (List (List Int))) :=\n"
                "  match groups with\n  | none => pure none\n  | some groups =>\n" + self.block(some_side, 2) + "\n")


def check_groups_unit():
    tree = _parse("gemclus/sparse/_base_sparse.py")
    fn = next((n for n in tree.body if isinstance(n, ast.FunctionDef) and n.name == "check_groups"), None)
    if fn is None:
        raise TranslationFailure("check_groups not found")
    return _CG(fn).translate()


# ------------------------------------------------------------------ Lean emission
def _lean_rat(q):
    return f"({q.numerator} : Rat)" if q.denominator == 1 else f"(({q.numerator} : Rat) / {q.denominator})"


def _lean_bound(b):
    if b is None:
        return ".unbounded"
    if b == "posInf":
        return ".posInf"
    if b == "negInf":
        return ".negInf"
    return f"(.fin {_lean_rat(b[1])})"


def _lean_strs(xs):
    return "[" + ", ".join(lean_str(x) for x in xs) + "]"


def lean_constraint(c):
    k = c[0]
    if k == "interval":
        return f".interval .{'integral' if c[1] == 'Integral' else 'real'} {_lean_bound(c[2])} {_lean_bound(c[3])} .{c[4]}"
    if k == "strOptions":
        return f".strOptions {_lean_strs(c[1])} {_lean_strs(c[2])}"
    if k == "instanceOf":
        return f".instanceOf {lean_str(c[1])}"
    return "." + k


def _lean_row(param, cs):
    if cs is None:
        return f"({lean_str(param)}, none)"
    return f"({lean_str(param)}, some [" + ", ".join(lean_constraint(c) for c in cs) + "])"


def _lean_owner(name, rows):
    return f"  ({lean_str(name)}, [\n    " + ",\n    ".join(_lean_row(p, cs) for p, cs in rows) + "])"


def constraints():
    """-> (python data, lean text)"""
    classes = _classes()
    # ---- estimators
    estimators = []
    for name, c in classes.items():
        if name.startswith("_") or c.abstract:
            continue
        table = _resolved_table(classes, name)
        if table is None:
            continue
        params = _init_params(classes, name)
        if params is None:
            raise TranslationFailure(f"{name}: no __init__ found")
        estimators.append((name, [(p, table.get(p)) for p in params], sorted(k for k in table if k not in params)))
    if not estimators:
        raise TranslationFailure("no estimator found")
    # ---- decorated callables
    functions, dead = [], []
    gem = gemini_classes()
    for rel in _files():
        tree = _parse(rel)
        for node in tree.body:
            if isinstance(node, ast.FunctionDef):
                t = _decorator_table(node)
                if t is not None:
                    ps = _sig_params(node)
                    functions.append((node.name, [(p, t.get(p)) for p in ps]))
                    dead += [(node.name, k) for k in t if k not in ps]
            if isinstance(node, ast.ClassDef):
                for it in node.body:
                    if isinstance(it, ast.FunctionDef):
                        t = _decorator_table(it)
                        if t is None:
                            continue
                        if it.name != "__init__":
                            raise TranslationFailure(f"{node.name}.{it.name}: decorated method other than __init__")
                        ps = _sig_params(it)
                        functions.append((node.name, [(p, t.get(p)) for p in ps]))
                        dead += [(node.name, k) for k in t if k not in ps]
    fdict = dict(functions)
    # undecorated GEMINI constructors forwarding to a decorated parent (MI)
    for cname, info in gem.items():
        if cname in fdict or cname.startswith("_") or info.get("defaults") is None:
            continue
        base = next((b for b in info["bases"] if b in fdict), None)
        if base is None or not info.get("super_kwargs"):
            continue
        rows = []
        for p in info["params"]:
            fwd = [k for k, (kind, val) in info["super_kwargs"].items() if kind == "param" and val == p]
            rows.append((p, dict(fdict[base]).get(fwd[0]) if fwd else None))
        functions.append((cname, rows))
    functions.sort(key=lambda f: f[0])
    estimators.sort(key=lambda e: e[0])
    # ---- named sets defined in the repository
    named = {}
    used = set()
    for _, rows, *_ in estimators + [(n, r) for n, r in functions]:
        for _, cs in rows:
            for c in cs or []:
                if c[0] == "strOptions":
                    used.update(c[1])
    if "AVAILABLE_GEMINIS" in used:
        tree = _parse("gemclus/gemini/_utils.py")
        for node in tree.body:
            if isinstance(node, ast.Assign) and getattr(node.targets[0], "id", None) == "AVAILABLE_GEMINIS":
                named["AVAILABLE_GEMINIS"] = _strset(node.value)[1]
        if "AVAILABLE_GEMINIS" not in named:
            raise TranslationFailure("AVAILABLE_GEMINIS not found")
    external = sorted(used - set(named))
    # ---- ancestors of every class that can appear as a value or in an isinstance constraint
    anc = {n: _ancestors(classes, n) for n in sorted(classes)}
    kauri_lean, kauri_src = kauri_test(classes)
    douglas_lean, douglas_src = douglas_test(classes)
    cg = check_groups_unit()

    data = {"estimators": {n: {"params": dict(rows), "unused_keys": unused} for n, rows, unused in estimators},
            "functions": {n: dict(rows) for n, rows in functions}, "dead_keys": dead, "named_sets": named,
            "external_sets": external, "ancestors": anc, "kauri_test": kauri_src, "douglas_test": douglas_src}

    L = ["/- GENERATED by translator/constraints.py from the `_parameter_constraints` tables, the `@constraint_params`",
         "   decorators, Kauri.fit, Douglas._init_params and sparse/_base_sparse.py::check_groups — do not edit. -/",
         "import GemVerif.Model.Constraints", "",
         "namespace GemVerif.Gen.Constraints", "open GemVerif.Model.Constraints", "",
         "/-- string sets defined in the repository and used by `StrOptions` -/",
         "def namedSets : List (String × List String) := ["
         + ", ".join(f"({lean_str(k)}, {_lean_strs(v)})" for k, v in sorted(named.items())) + "]", "",
         "/-- string sets imported from scikit-learn (their members are listed in `Model.Constraints.sklearnSets`) -/",
         f"def externalSets : List String := {_lean_strs(external)}", "",
         "/-- class ↦ itself and its ancestors -/",
         "def ancestors : List (String × List String) := [",
         ",\n".join(f"  ({lean_str(k)}, {_lean_strs(v)})" for k, v in anc.items()) + "]", "",
         "/-- concrete estimators: `__init__` parameters with their resolved `_parameter_constraints` entry",
         "    (`none` = no entry: scikit-learn does not validate the parameter) -/",
         "def estimators : List (String × List (String × Option (List Constraint))) := [",
         ",\n".join(_lean_owner(n, rows) for n, rows, _ in estimators) + "]", "",
         "/-- `@constraint_params` tables matched against the decorated signature -/",
         "def functions : List (String × List (String × Option (List Constraint))) := [",
         ",\n".join(_lean_owner(n, rows) for n, rows in functions) + "]", "",
         "/-- decorator keys naming no parameter of the decorated function -/",
         "def deadKeys : List (String × String) := [" + ", ".join(f"({lean_str(a)}, {lean_str(b)})" for a, b in dead) + "]", "",
         f"/-- Kauri.fit: `if {kauri_src}: raise ValueError` (before `tree_` is created) -/",
         f"def kauriRejects (min_samples_leaf min_samples_split : Int) : Bool :=\n  {kauri_lean}", "",
         f"/-- Douglas._init_params, masked branch: `if {douglas_src}: raise ValueError` -/",
         f"def douglasMaskRejects (len_feature_mask n_features : Int) : Bool :=\n  {douglas_lean}", "",
         "/-- `check_groups(groups, n_features_in)`, statement by statement -/",
         cg,
         "end GemVerif.Gen.Constraints", ""]
    return data, "\n".join(L)


if __name__ == "__main__":
    d, t = constraints()
    print(t)
